(* Proofs about Model/Conflicts.v (C15). *)
From Gleece Require Import Base.Bytes Model.Conflicts.
From Coq Require Import Permutation.
Open Scope list_scope.

(* ------------------------------------------------------------------ *)
(* patterns_conflict: what "can match a common concrete path" means    *)

Definition seg_matches (t c : str) : Prop := is_param t = true \/ t = c.
Definition matches (tmpl w : list str) : Prop := Forall2 seg_matches tmpl w.

Lemma patterns_conflict_length a b : patterns_conflict a b = true -> List.length a = List.length b.
Proof.
  revert b; induction a as [|x a IH]; intros [|y b]; simpl; try discriminate; auto.
  rewrite andb_true_iff; intros [_ H]; f_equal; auto.
Qed.

Lemma patterns_conflict_sym a b : patterns_conflict a b = patterns_conflict b a.
Proof.
  revert b; induction a as [|x a IH]; intros [|y b]; simpl; auto.
  rewrite IH, (str_eqb_sym x y). f_equal.
  destruct (str_eqb y x), (is_param x), (is_param y); reflexivity.
Qed.

Theorem overlap_spec a b :
  patterns_conflict a b = true <-> exists w, matches a w /\ matches b w.
Proof.
  split.
  - revert b; induction a as [|x a IH]; intros [|y b]; simpl; try discriminate.
    + intros _; exists []; split; constructor.
    + rewrite andb_true_iff; intros [Hh Ht].
      destruct (IH _ Ht) as [w [Ha Hb]].
      exists ((if is_param x then y else x) :: w); split; constructor; auto; unfold seg_matches.
      * destruct (is_param x); auto.
      * destruct (is_param x) eqn:Ex; auto.
        rewrite orb_false_r in Hh. apply orb_true_iff in Hh as [Hh|Hh]; auto.
        apply str_eqb_spec in Hh; auto.
  - intros [w [Ha Hb]]. revert b Hb; induction Ha as [|x c a w Hx Ha IH]; intros b Hb.
    + inversion Hb; reflexivity.
    + inversion Hb as [|y c' b' w' Hy Hb']; subst. simpl.
      rewrite (IH _ Hb'), andb_true_r.
      destruct Hx as [Hx|Hx]; [rewrite Hx, orb_true_r; reflexivity|].
      destruct Hy as [Hy|Hy]; [rewrite Hy, orb_true_r; reflexivity|].
      subst. rewrite str_eqb_refl; reflexivity.
Qed.

(* ------------------------------------------------------------------ *)
(* shapes                                                              *)

Lemma shape_eqb_spec a b : shape_eqb a b = true <-> a = b.
Proof.
  destruct a as [x|], b as [y|]; simpl; try (split; congruence).
  rewrite str_eqb_spec; split; congruence.
Qed.

Lemma shapes_eqb_spec a b : list_eqb shape_eqb a b = true <-> a = b.
Proof. apply list_eqb_spec, shape_eqb_spec. Qed.

Lemma shape_of_P x : shape_of x = P <-> is_param x = true.
Proof. unfold shape_of; destruct (is_param x); split; congruence. Qed.

Lemma shape_of_L x l : shape_of x = L l -> is_param x = false /\ l = x.
Proof. unfold shape_of; destruct (is_param x); intros H; inversion H; auto. Qed.

(* equal shapes behave identically against any third template *)
Lemma same_shape_conflict a b c :
  shapes a = shapes b -> patterns_conflict c a = patterns_conflict c b.
Proof.
  revert b c; induction a as [|x a IH]; intros [|y b] [|z c]; simpl; try discriminate; auto.
  intros H; inversion H as [[Hs Ht]]. rewrite (IH _ _ Ht). f_equal.
  unfold shape_of in Hs. destruct (is_param x) eqn:Ex, (is_param y) eqn:Ey; try discriminate.
  - rewrite !orb_true_r; reflexivity.
  - inversion Hs; subst; reflexivity.
Qed.

Lemma same_shape_self_conflict a b : shapes a = shapes b -> patterns_conflict a b = true.
Proof.
  revert b; induction a as [|x a IH]; intros [|y b]; simpl; try discriminate; auto.
  intros H; inversion H as [[Hs Ht]]. rewrite (IH _ Ht), andb_true_r.
  unfold shape_of in Hs. destruct (is_param x) eqn:Ex, (is_param y) eqn:Ey; try discriminate.
  - rewrite orb_true_r; reflexivity.
  - inversion Hs; subst. rewrite str_eqb_refl; reflexivity.
Qed.

(* ------------------------------------------------------------------ *)
(* scan / walk                                                         *)

Lemma one_report_ids i g x y r : In r (one_report i g x y) -> r_new r = i /\ r_old r = g_idx g.
Proof.
  unfold one_report; destruct (is_param x), (is_param y); simpl; intros H;
    repeat (destruct H as [H|H]; [subst; auto|]); contradiction.
Qed.

Lemma scan_ids i g ns gs r : In r (scan i g ns gs) -> r_new r = i /\ r_old r = g_idx g.
Proof.
  revert gs; induction ns as [|x ns IH]; intros [|y gs]; simpl; try contradiction.
  rewrite in_app_iff; intros [H|H]; [eapply one_report_ids; eauto|].
  destruct (shape_eqb _ _); [eauto|contradiction].
Qed.

(* first divergence: overlapping templates of different shapes produce a report *)
Lemma scan_complete i g ns gs :
  patterns_conflict ns gs = true -> shapes ns <> shapes gs -> scan i g ns gs <> [].
Proof.
  revert gs; induction ns as [|x ns IH]; intros [|y gs]; simpl; try discriminate.
  - intros _ H; contradiction H; reflexivity.
  - rewrite andb_true_iff; intros [Hh Ht] Hne.
    destruct (shape_eqb (shape_of x) (shape_of y)) eqn:Es.
    + apply shape_eqb_spec in Es.
      assert (Hne' : shapes ns <> shapes gs) by (intros E; apply Hne; congruence).
      specialize (IH _ Ht Hne'). intros E. apply app_eq_nil in E as [_ E]. contradiction.
    + unfold one_report. unfold shape_of in Es.
      destruct (is_param x) eqn:Ex, (is_param y) eqn:Ey; simpl in *; try discriminate.
      rewrite !orb_false_r in Hh. apply str_eqb_spec in Hh; subst.
      rewrite str_eqb_refl in Es; discriminate.
Qed.

Lemma walk_in i v ns ix r :
  In r (walk i v ns ix) ->
  exists g, In g ix /\ str_eqb v (g_verb g) = true /\ patterns_conflict ns (g_segs g) = true /\
            r_new r = i /\ r_old r = g_idx g.
Proof.
  unfold walk; rewrite in_flat_map; intros [g [Hg Hr]]. exists g.
  unfold reports_vs in Hr.
  destruct (str_eqb v (g_verb g)) eqn:Ev; simpl in Hr; [|contradiction].
  destruct (patterns_conflict ns (g_segs g)) eqn:Ep; [|contradiction].
  apply scan_ids in Hr. tauto.
Qed.

Lemma walk_complete i v ns ix g :
  In g ix -> v = g_verb g -> patterns_conflict ns (g_segs g) = true ->
  shapes ns <> shapes (g_segs g) ->
  exists r, In r (walk i v ns ix) /\ r_new r = i /\ r_old r = g_idx g.
Proof.
  intros Hg Hv Hp Hne.
  pose proof (scan_complete i g _ _ Hp Hne) as Hs.
  destruct (scan i g ns (g_segs g)) as [|r rs] eqn:E; [contradiction|].
  exists r. split.
  - unfold walk; apply in_flat_map; exists g; split; auto.
    unfold reports_vs. subst v. rewrite str_eqb_refl, Hp; simpl. rewrite E; left; reflexivity.
  - apply (scan_ids i g ns (g_segs g)). rewrite E; left; reflexivity.
Qed.

(* ------------------------------------------------------------------ *)
(* the loop invariant                                                  *)

Definition reg_of (es : list entry) (g : reg) : Prop :=
  exists e, nth_error es (g_idx g) = Some e /\ g_segs g = segs e /\ g_verb g = e_verb e.

Definition rep_sound (es : list entry) (r : report) : Prop :=
  r_old r < r_new r /\
  exists en eo, nth_error es (r_new r) = Some en /\ nth_error es (r_old r) = Some eo /\
                e_verb en = e_verb eo /\ patterns_conflict (segs en) (segs eo) = true.

Record Inv (es : list entry) (k : nat) (ix : index) (acc : list report) : Prop := {
  inv_reg : forall g, In g ix -> g_idx g < k /\ reg_of es g;
  inv_uniq : forall g1 g2, In g1 ix -> In g2 ix -> g_verb g1 = g_verb g2 ->
                           shapes (g_segs g1) = shapes (g_segs g2) -> g1 = g2;
  inv_slot : forall j e, j < k -> nth_error es j = Some e ->
      exists g, In g ix /\ g_verb g = e_verb e /\ shapes (g_segs g) = shapes (segs e) /\
                (g_idx g = j \/ (g_idx g < j /\ exists r, In r acc /\ r_new r = j /\ r_old r = g_idx g));
  inv_sound : forall r, In r acc -> r_new r < k /\ rep_sound es r;
  inv_complete : forall g j e, In g ix -> g_idx g < j -> j < k -> nth_error es j = Some e ->
      e_verb e = g_verb g -> patterns_conflict (segs e) (g_segs g) = true ->
      exists r, In r acc /\ r_new r = j /\ r_old r = g_idx g
}.

Lemma inv_init es : Inv es 0 [] [].
Proof. constructor; simpl; intros; try contradiction; lia. Qed.

Lemma same_slot_spec v ns g :
  same_slot v ns g = true <-> v = g_verb g /\ shapes ns = shapes (g_segs g).
Proof.
  unfold same_slot. rewrite andb_true_iff, str_eqb_spec, shapes_eqb_spec. tauto.
Qed.

Lemma step_inv es k e ix acc :
  Inv es k ix acc -> nth_error es k = Some e ->
  Inv es (S k) (fst (step (ix, acc) (k, e))) (snd (step (ix, acc) (k, e))).
Proof.
  intros I Hk. unfold step.
  set (ns := segs e). set (v := e_verb e).
  assert (Hwalk_sound : forall r, In r (walk k v ns ix) -> r_new r < S k /\ rep_sound es r).
  { intros r Hr. apply walk_in in Hr as [g [Hg [Hv [Hp [Hn Ho]]]]].
    destruct (inv_reg _ _ _ _ I g Hg) as [Hlt [eo [Heo [Hsegs Hverb]]]].
    split; [lia|]. split; [lia|]. exists e, eo. rewrite Hn, Ho. repeat split; auto.
    - apply str_eqb_spec in Hv. unfold v in Hv. congruence.
    - rewrite <- Hsegs. exact Hp. }
  destruct (find (same_slot v ns) ix) as [g0|] eqn:Ef; simpl.
  - (* duplicate slot: nothing registered *)
    pose proof (find_some _ _ Ef) as [Hg0 Hs0]. apply same_slot_spec in Hs0 as [Hv0 Hsh0].
    destruct (inv_reg _ _ _ _ I g0 Hg0) as [Hlt0 [e0 [He0 [Hsegs0 Hverb0]]]].
    constructor.
    + intros g Hg. destruct (inv_reg _ _ _ _ I g Hg); split; auto.
    + apply (inv_uniq _ _ _ _ I).
    + intros j ej Hj Hej. assert (Hc : j < k \/ j = k) by lia. destruct Hc as [Hc|Hc].
      * destruct (inv_slot _ _ _ _ I j ej Hc Hej) as [g [Hg [Hgv [Hgs Hor]]]].
        exists g; repeat split; auto. destruct Hor as [Hor|[Hlt [r [Hr Hrr]]]]; auto.
        right; split; auto. exists r; split; auto. apply in_or_app; auto.
      * subst j. rewrite Hk in Hej; inversion Hej; subst ej.
        exists g0; repeat split; auto. right; split; auto.
        eexists; split; [apply in_or_app; right; apply in_or_app; right; left; reflexivity|].
        simpl; auto.
    + intros r Hr. apply in_app_or in Hr as [Hr|Hr].
      * destruct (inv_sound _ _ _ _ I r Hr); split; auto.
      * apply in_app_or in Hr as [Hr|Hr]; [auto|].
        destruct Hr as [Hr|[]]; subst r; simpl. split; [lia|]. split; simpl; [lia|].
        exists e, e0; repeat split; auto.
        -- fold v. congruence.
        -- fold ns. rewrite <- Hsegs0. apply same_shape_self_conflict; auto.
    + intros g j ej Hg Hlt Hj Hej Hv Hp. assert (Hc : j < k \/ j = k) by lia. destruct Hc as [Hc|Hc].
      * destruct (inv_complete _ _ _ _ I g j ej Hg Hlt Hc Hej Hv Hp) as [r [Hr Hrr]].
        exists r; split; auto. apply in_or_app; auto.
      * subst j. rewrite Hk in Hej; inversion Hej; subst ej.
        destruct (list_eqb shape_eqb (shapes ns) (shapes (g_segs g))) eqn:Esh;
          [apply shapes_eqb_spec in Esh; rename Esh into Hsh
          |assert (Hsh : shapes ns <> shapes (g_segs g))
             by (intros E; apply shapes_eqb_spec in E; congruence)].
        -- assert (g0 = g) by (apply (inv_uniq _ _ _ _ I); auto; unfold v, ns in *; congruence). subst g0.
           eexists; split; [apply in_or_app; right; apply in_or_app; right; left; reflexivity|].
           simpl; auto.
        -- destruct (walk_complete k v ns ix g Hg) as [r [Hr Hrr]]; auto.
           exists r; split; auto. apply in_or_app; right; apply in_or_app; auto.
  - (* fresh slot: registered *)
    pose proof (find_none _ _ Ef) as Hnone.
    constructor.
    + intros g Hg. apply in_app_or in Hg as [Hg|[Hg|[]]].
      * destruct (inv_reg _ _ _ _ I g Hg); split; auto.
      * subst g; simpl; split; [lia|]. exists e; simpl; auto.
    + intros g1 g2 H1 H2 Hv Hs.
      apply in_app_or in H1 as [H1|[H1|[]]]; apply in_app_or in H2 as [H2|[H2|[]]].
      * apply (inv_uniq _ _ _ _ I); auto.
      * subst g2; simpl in *. specialize (Hnone g1 H1).
        assert (same_slot v ns g1 = true) by (apply same_slot_spec; split; congruence). congruence.
      * subst g1; simpl in *. specialize (Hnone g2 H2).
        assert (same_slot v ns g2 = true) by (apply same_slot_spec; split; congruence). congruence.
      * congruence.
    + intros j ej Hj Hej. assert (Hc : j < k \/ j = k) by lia. destruct Hc as [Hc|Hc].
      * destruct (inv_slot _ _ _ _ I j ej Hc Hej) as [g [Hg [Hgv [Hgs Hor]]]].
        exists g; repeat split; auto; [apply in_or_app; auto|].
        destruct Hor as [Hor|[Hlt [r [Hr Hrr]]]]; auto.
        right; split; auto. exists r; split; auto. apply in_or_app; auto.
      * subst j. rewrite Hk in Hej; inversion Hej; subst ej.
        eexists; split; [apply in_or_app; right; left; reflexivity|]. simpl; auto.
    + intros r Hr. apply in_app_or in Hr as [Hr|Hr]; auto.
      destruct (inv_sound _ _ _ _ I r Hr); split; auto.
    + intros g j ej Hg Hlt Hj Hej Hv Hp.
      apply in_app_or in Hg as [Hg|[Hg|[]]]; [|subst g; simpl in *; lia].
      assert (Hc : j < k \/ j = k) by lia. destruct Hc as [Hc|Hc].
      * destruct (inv_complete _ _ _ _ I g j ej Hg Hlt Hc Hej Hv Hp) as [r [Hr Hrr]].
        exists r; split; auto. apply in_or_app; auto.
      * subst j. rewrite Hk in Hej; inversion Hej; subst ej.
        assert (Hsh : shapes ns <> shapes (g_segs g)).
        { intros E. specialize (Hnone g Hg).
          assert (same_slot v ns g = true) by (apply same_slot_spec; split; auto). congruence. }
        destruct (walk_complete k v ns ix g Hg) as [r [Hr Hrr]]; auto.
        exists r; split; auto. apply in_or_app; auto.
Qed.

(* ------------------------------------------------------------------ *)
(* lifting the invariant over the whole loop                           *)

Lemma fold_inv es : forall post pre ix acc,
  es = pre ++ post -> Inv es (List.length pre) ix acc ->
  Inv es (List.length es)
      (fst (fold_left step (enumerate_from (List.length pre) post) (ix, acc)))
      (snd (fold_left step (enumerate_from (List.length pre) post) (ix, acc))).
Proof.
  induction post as [|e post IH]; intros pre ix acc Hes I.
  - simpl. rewrite app_nil_r in Hes. subst es. exact I.
  - cbn [enumerate_from fold_left].
    assert (Hk : nth_error es (List.length pre) = Some e).
    { rewrite Hes, nth_error_app2, Nat.sub_diag by lia. reflexivity. }
    pose proof (step_inv _ _ _ _ _ I Hk) as I'.
    destruct (step (ix, acc) (List.length pre, e)) as [ix' acc'] eqn:Es. simpl in I'.
    replace (S (List.length pre)) with (List.length (pre ++ [e])) in * by (rewrite app_length; simpl; lia).
    apply IH; auto. rewrite <- app_assoc. exact Hes.
Qed.

Definition final_index (es : list entry) : index :=
  fst (fold_left step (enumerate_from 0 es) ([], [])).

Lemma final_inv es : Inv es (List.length es) (final_index es) (raw_reports es).
Proof. apply (fold_inv es es [] [] []); [reflexivity | apply inv_init]. Qed.

Theorem raw_sound es r : In r (raw_reports es) -> rep_sound es r.
Proof. intros H. apply (inv_sound _ _ _ _ (final_inv es) r H). Qed.

Lemma pair_flagged es lo hi elo ehi :
  lo < hi -> nth_error es lo = Some elo -> nth_error es hi = Some ehi ->
  e_verb elo = e_verb ehi -> patterns_conflict (segs elo) (segs ehi) = true ->
  (exists r, In r (raw_reports es) /\ r_new r = hi) /\
  (exists r, In r (raw_reports es) /\ (r_new r = lo \/ r_old r = lo)).
Proof.
  intros Hlt Hlo Hhi Hv Hp. pose proof (final_inv es) as I.
  assert (Hhik : hi < List.length es) by (apply nth_error_Some; congruence).
  destruct (inv_slot _ _ _ _ I lo elo ltac:(lia) Hlo) as [g [Hg [Hgv [Hgs Hor]]]].
  assert (Hgle : g_idx g <= lo) by (destruct Hor as [?|[? _]]; lia).
  destruct (inv_complete _ _ _ _ I g hi ehi Hg ltac:(lia) Hhik Hhi) as [r [Hr [Hrn Hro]]].
  - congruence.
  - rewrite (same_shape_conflict _ _ _ Hgs), patterns_conflict_sym. exact Hp.
  - split; [exists r; auto|].
    destruct Hor as [Hor|[_ [r' [Hr' [Hn' _]]]]].
    + exists r; split; auto. right; congruence.
    + exists r'; auto.
Qed.

Theorem raw_complete es i j ei ej :
  i <> j -> nth_error es i = Some ei -> nth_error es j = Some ej ->
  e_verb ei = e_verb ej -> patterns_conflict (segs ei) (segs ej) = true ->
  exists r, In r (raw_reports es) /\ (r_new r = i \/ r_old r = i).
Proof.
  intros Hne Hi Hj Hv Hp. assert (Hc : i < j \/ j < i) by lia. destruct Hc as [Hc|Hc].
  - destruct (pair_flagged es i j ei ej Hc Hi Hj Hv Hp) as [_ H]. exact H.
  - rewrite patterns_conflict_sym in Hp.
    destruct (pair_flagged es j i ej ei Hc Hj Hi (eq_sym Hv) Hp) as [[r [Hr Hn]] _].
    exists r; auto.
Qed.

(* ------------------------------------------------------------------ *)
(* de-duplication keeps the set                                        *)

Lemma dedup_first_in {A} (eqb : A -> A -> bool)
      (H : forall x y, eqb x y = true <-> x = y) l : forall seen x,
  In x (dedup_first eqb seen l) <-> In x l /\ ~ In x seen.
Proof.
  induction l as [|y l IH]; intros seen x; simpl; [tauto|].
  destruct (mem eqb y seen) eqn:Em.
  - apply (mem_spec eqb H) in Em. rewrite IH. split.
    + intros [? ?]; auto.
    + intros [[E|E] Hn]; [subst; contradiction|auto].
  - assert (Hy : ~ In y seen).
    { intros Hin. apply (mem_spec eqb H) in Hin. congruence. }
    simpl. rewrite IH. simpl. split.
    + intros [E|[Hin Hn]]; [subst; auto|]. split; auto.
    + intros [[E|E] Hn]; [auto|].
      destruct (H y x) as [_ Hyx].
      destruct (eqb y x) eqn:Eyx.
      * left. apply H. exact Eyx.
      * right; split; auto. intros [E'|E']; [|contradiction].
        specialize (Hyx E'); discriminate.
Qed.

Lemma obs_eqb_spec x y : obs_eqb x y = true <-> x = y.
Proof.
  destruct x as [[a b] r], y as [[a' b'] r']; simpl.
  rewrite !andb_true_iff, !Nat.eqb_eq, str_eqb_spec. split.
  - intros [[-> ->] ->]; reflexivity.
  - intros E; inversion E; auto.
Qed.

Lemma obs_pairs_in es a b :
  In (a, b) (map fst (find_conflicts_obs es)) <->
  exists r, In r (raw_reports es) /\ a = c_a (canon es r) /\ b = c_b (canon es r).
Proof.
  unfold find_conflicts_obs. rewrite in_map_iff. split.
  - intros [[[a' b'] txt] [E Hin]]. simpl in E; inversion E; subst a' b'.
    apply (dedup_first_in obs_eqb obs_eqb_spec) in Hin as [Hin _].
    apply in_map_iff in Hin as [r [Er Hr]]. exists r; split; auto.
    unfold observe_report in Er. inversion Er; auto.
  - intros [r [Hr [-> ->]]]. exists (observe_report es r). split; [reflexivity|].
    apply (dedup_first_in obs_eqb obs_eqb_spec). split; [apply in_map; exact Hr|tauto].
Qed.

Lemma canon_ids es r :
  (c_a (canon es r) = r_new r /\ c_b (canon es r) = r_old r) \/
  (c_a (canon es r) = r_old r /\ c_b (canon es r) = r_new r).
Proof. unfold canon; destruct (str_gtb _ _); simpl; auto. Qed.

(* ------------------------------------------------------------------ *)
(* the property oracle means what the property says                    *)

Definition P_C15 (es : list entry) (pairs : list (nat * nat)) : Prop :=
  (forall a b, In (a, b) pairs ->
     a <> b /\ exists ea eb, nth_error es a = Some ea /\ nth_error es b = Some eb /\
               e_verb ea = e_verb eb /\ exists w, matches (segs ea) w /\ matches (segs eb) w) /\
  (forall i ei, nth_error es i = Some ei ->
     (exists j ej, j <> i /\ nth_error es j = Some ej /\ e_verb ei = e_verb ej /\
                   exists w, matches (segs ei) w /\ matches (segs ej) w) ->
     exists a b, In (a, b) pairs /\ (a = i \/ b = i)).

Lemma enumerate_from_in {A} (l : list A) : forall k j x,
  In (j, x) (enumerate_from k l) <-> k <= j /\ nth_error l (j - k) = Some x.
Proof.
  induction l as [|y l IH]; intros k j x; simpl.
  - split; [contradiction|]. intros [_ H]. destruct (j - k); discriminate.
  - rewrite IH. split.
    + intros [E|[Hle Hn]].
      * inversion E; subst. rewrite Nat.sub_diag. auto.
      * split; [lia|]. replace (j - k) with (S (j - S k)) by lia. exact Hn.
    + intros [Hle Hn]. destruct (j - k) as [|m] eqn:Em.
      * left. inversion Hn; subst. f_equal. lia.
      * right. split; [lia|]. replace (j - S k) with m by lia. exact Hn.
Qed.

Lemma pair_ok_spec es a b :
  pair_ok es (a, b) = true <->
  a <> b /\ exists ea eb, nth_error es a = Some ea /\ nth_error es b = Some eb /\
            e_verb ea = e_verb eb /\ patterns_conflict (segs ea) (segs eb) = true.
Proof.
  unfold pair_ok, overlap. rewrite !andb_true_iff, negb_true_iff, Nat.eqb_neq, !Nat.ltb_lt. split.
  - intros [[[Hne Ha] Hb] Hm].
    destruct (nth_error es a) as [ea|]; [|discriminate].
    destruct (nth_error es b) as [eb|]; [|discriminate].
    apply andb_true_iff in Hm as [Hv Hp]. apply str_eqb_spec in Hv.
    split; auto. exists ea, eb; auto.
  - intros [Hne [ea [eb [Ha [Hb [Hv Hp]]]]]].
    repeat split; auto; try (apply nth_error_Some; congruence).
    rewrite Ha, Hb, Hp, Hv, str_eqb_refl. reflexivity.
Qed.

Lemma offends_spec es i :
  offends es i = true <->
  exists ei j ej, nth_error es i = Some ei /\ j <> i /\ nth_error es j = Some ej /\
                  e_verb ei = e_verb ej /\ patterns_conflict (segs ei) (segs ej) = true.
Proof.
  unfold offends, overlap. split.
  - destruct (nth_error es i) as [ei|]; [|discriminate].
    rewrite existsb_exists. intros [[j ej] [Hin Hb]]. simpl in Hb.
    apply enumerate_from_in in Hin as [_ Hn]. rewrite Nat.sub_0_r in Hn.
    rewrite !andb_true_iff, negb_true_iff, Nat.eqb_neq, str_eqb_spec in Hb.
    destruct Hb as [[Hne Hv] Hp]. exists ei, j, ej; auto.
  - intros [ei [j [ej [Hi [Hne [Hj [Hv Hp]]]]]]]. rewrite Hi.
    apply existsb_exists. exists (j, ej). split.
    + apply enumerate_from_in. rewrite Nat.sub_0_r. split; [lia|auto].
    + simpl. rewrite Hp, Hv, str_eqb_refl, andb_true_r, andb_true_r.
      apply negb_true_iff, Nat.eqb_neq. exact Hne.
Qed.

Theorem prop_C15_spec es pairs : prop_C15 es pairs = true <-> P_C15 es pairs.
Proof.
  unfold prop_C15, P_C15. rewrite andb_true_iff, !forallb_forall. split.
  - intros [Hs Hc]. split.
    + intros a b Hin. specialize (Hs _ Hin). apply pair_ok_spec in Hs.
      destruct Hs as [Hne [ea [eb [Ha [Hb [Hv Hp]]]]]]. split; auto.
      exists ea, eb; repeat split; auto. apply overlap_spec; exact Hp.
    + intros i ei Hi [j [ej [Hne [Hj [Hv Hw]]]]].
      assert (Hlt : i < List.length es) by (apply nth_error_Some; congruence).
      specialize (Hc i ltac:(apply in_seq; lia)).
      assert (Ho : offends es i = true).
      { apply offends_spec. exists ei, j, ej; repeat split; auto. apply overlap_spec; exact Hw. }
      rewrite Ho in Hc. simpl in Hc. apply existsb_exists in Hc as [[a b] [Hin Hab]].
      exists a, b; split; auto. simpl in Hab.
      apply orb_true_iff in Hab as [E|E]; apply Nat.eqb_eq in E; auto.
  - intros [Hs Hc]. split.
    + intros [a b] Hin. apply pair_ok_spec. destruct (Hs a b Hin) as [Hne [ea [eb [Ha [Hb [Hv Hw]]]]]].
      split; auto. exists ea, eb; repeat split; auto. apply overlap_spec; exact Hw.
    + intros i Hin. destruct (offends es i) eqn:Ho; [|reflexivity]. simpl.
      apply offends_spec in Ho as [ei [j [ej [Hi [Hne [Hj [Hv Hp]]]]]]].
      destruct (Hc i ei Hi) as [a [b [Hab Hor]]].
      { exists j, ej; repeat split; auto. apply overlap_spec; exact Hp. }
      apply existsb_exists. exists (a, b); split; auto. simpl.
      apply orb_true_iff. destruct Hor as [E|E]; [left|right]; apply Nat.eqb_eq; auto.
Qed.

(* ------------------------------------------------------------------ *)
(* C15: soundness and completeness of the model, for every route list  *)

Theorem find_conflicts_P es : P_C15 es (map fst (find_conflicts_obs es)).
Proof.
  split.
  - intros a b Hin. apply obs_pairs_in in Hin as [r [Hr [Ea Eb]]].
    destruct (raw_sound es r Hr) as [Hlt [en [eo [Hn [Ho [Hv Hp]]]]]].
    destruct (canon_ids es r) as [[E1 E2]|[E1 E2]]; rewrite E1 in Ea; rewrite E2 in Eb; subst a b.
    + split; [lia|]. exists en, eo; repeat split; auto. apply overlap_spec; exact Hp.
    + split; [lia|]. exists eo, en; repeat split; auto. apply overlap_spec.
      rewrite patterns_conflict_sym; exact Hp.
  - intros i ei Hi [j [ej [Hne [Hj [Hv Hw]]]]]. apply overlap_spec in Hw.
    destruct (raw_complete es i j ei ej ltac:(auto) Hi Hj Hv Hw) as [r [Hr Hor]].
    exists (c_a (canon es r)), (c_b (canon es r)). split.
    + apply obs_pairs_in. exists r; auto.
    + destruct (canon_ids es r) as [[E1 E2]|[E1 E2]]; rewrite E1, E2; tauto.
Qed.

Theorem find_conflicts_prop es : prop_C15 es (map fst (find_conflicts_obs es)) = true.
Proof. apply prop_C15_spec, find_conflicts_P. Qed.

(* ------------------------------------------------------------------ *)
(* order independence: entries carry an identity                       *)

Definition flagged_ids (tes : list (nat * entry)) : list nat :=
  flat_map (fun ab : nat * nat => [nth (fst ab) (map fst tes) 0; nth (snd ab) (map fst tes) 0])
           (map fst (find_conflicts_obs (map snd tes))).

Definition offending_id (tes : list (nat * entry)) (id : nat) : Prop :=
  exists e id' e', In (id, e) tes /\ In (id', e') tes /\ id' <> id /\
                   e_verb e = e_verb e' /\ patterns_conflict (segs e) (segs e') = true.

Lemma tagged_nth (tes : list (nat * entry)) i id e :
  nth_error tes i = Some (id, e) ->
  nth_error (map snd tes) i = Some e /\ nth i (map fst tes) 0 = id.
Proof.
  intros H. split.
  - apply (map_nth_error snd) in H. exact H.
  - apply (map_nth_error fst) in H. apply nth_error_nth with (d := 0) in H. exact H.
Qed.

Lemma tagged_nth_inv (tes : list (nat * entry)) i e :
  nth_error (map snd tes) i = Some e -> exists id, nth_error tes i = Some (id, e).
Proof.
  rewrite nth_error_map. destruct (nth_error tes i) as [[id e']|]; simpl; [|discriminate].
  intros H; inversion H; subst. exists id; reflexivity.
Qed.

Theorem flagged_ids_spec tes id :
  NoDup (map fst tes) -> (In id (flagged_ids tes) <-> offending_id tes id).
Proof.
  intros Hnd. destruct (find_conflicts_P (map snd tes)) as [Hs Hc].
  unfold flagged_ids. rewrite in_flat_map. split.
  - intros [[a b] [Hin Hid]]. simpl in Hid.
    destruct (Hs a b Hin) as [Hne [ea [eb [Ha [Hb [Hv Hw]]]]]]. apply overlap_spec in Hw.
    destruct (tagged_nth_inv _ _ _ Ha) as [ida Ha']. destruct (tagged_nth_inv _ _ _ Hb) as [idb Hb'].
    destruct (tagged_nth _ _ _ _ Ha') as [_ Na]. destruct (tagged_nth _ _ _ _ Hb') as [_ Nb].
    assert (Hidne : ida <> idb).
    { intros E. apply Hne. subst idb.
      assert (La : a < List.length (map fst tes)) by (rewrite map_length; apply nth_error_Some; congruence).
      apply (proj1 (NoDup_nth_error (map fst tes)) Hnd a b La).
      apply (map_nth_error fst) in Ha'. apply (map_nth_error fst) in Hb'. simpl in *. congruence. }
    rewrite Na, Nb in Hid. destruct Hid as [E|[E|[]]]; subst id.
    + exists ea, idb, eb. repeat split; auto; try (eapply nth_error_In; eauto).
    + exists eb, ida, ea. repeat split; auto; try (eapply nth_error_In; eauto).
      rewrite patterns_conflict_sym; exact Hw.
  - intros [e [id' [e' [Hin [Hin' [Hne [Hv Hp]]]]]]].
    apply In_nth_error in Hin as [i Hi]. apply In_nth_error in Hin' as [j Hj].
    destruct (tagged_nth _ _ _ _ Hi) as [Ei Ni]. destruct (tagged_nth _ _ _ _ Hj) as [Ej Nj].
    assert (Hij : j <> i) by (intros E; subst j; rewrite Hi in Hj; inversion Hj; congruence).
    destruct (Hc i e Ei) as [a [b [Hab Hor]]].
    { exists j, e'. repeat split; auto. apply overlap_spec; exact Hp. }
    exists (a, b); split; auto. simpl. destruct Hor as [E|E]; rewrite E, Ni; auto.
Qed.

Theorem flagged_ids_perm tes tes' :
  Permutation tes tes' -> NoDup (map fst tes) ->
  forall id, In id (flagged_ids tes) <-> In id (flagged_ids tes').
Proof.
  intros Hp Hnd id.
  assert (Hnd' : NoDup (map fst tes')).
  { eapply Permutation_NoDup; [apply Permutation_map; exact Hp | exact Hnd]. }
  rewrite (flagged_ids_spec tes id Hnd), (flagged_ids_spec tes' id Hnd').
  unfold offending_id.
  split; intros [e [id' [e' [H1 [H2 H3]]]]]; exists e, id', e'; repeat split; try tauto.
  - eapply Permutation_in; eauto.
  - eapply Permutation_in; eauto.
  - eapply Permutation_in; [apply Permutation_sym|]; eauto.
  - eapply Permutation_in; [apply Permutation_sym|]; eauto.
Qed.

(* ------------------------------------------------------------------ *)
(* the pipeline level: warnings                                         *)

(* the statement about warnings, in the property's words *)
Definition offending (es : list entry) (i : nat) : Prop :=
  exists ei j ej, nth_error es i = Some ei /\ j <> i /\ nth_error es j = Some ej /\
                  e_verb ei = e_verb ej /\ exists w, matches (segs ei) w /\ matches (segs ej) w.

Definition P_C15_warned (es : list entry) (w : list nat) : Prop :=
  forall i, In i w <-> offending es i.

Lemma offends_offending es i : offends es i = true <-> offending es i.
Proof.
  rewrite offends_spec. unfold offending.
  split; intros [ei [j [ej [Hi [Hne [Hj [Hv Hp]]]]]]]; exists ei, j, ej; repeat split; auto;
    apply overlap_spec; exact Hp.
Qed.

Lemma offending_lt es i : offending es i -> i < List.length es.
Proof. intros [ei [_ [_ [Hi _]]]]. apply nth_error_Some. congruence. Qed.

Theorem prop_C15_warned_spec es w : prop_C15_warned es w = true <-> P_C15_warned es w.
Proof.
  unfold prop_C15_warned, P_C15_warned. rewrite andb_true_iff, !forallb_forall. split.
  - intros [Ha Hb] i. split.
    + intros Hin. assert (Hlt : i < List.length es) by (apply Nat.ltb_lt, Hb, Hin).
      specialize (Ha i ltac:(apply in_seq; lia)). apply Bool.eqb_prop in Ha.
      apply offends_offending. rewrite Ha. apply (mem_spec Nat.eqb Nat.eqb_eq). exact Hin.
    + intros Ho. pose proof (offending_lt _ _ Ho) as Hlt.
      specialize (Ha i ltac:(apply in_seq; lia)). apply Bool.eqb_prop in Ha.
      apply offends_offending in Ho. rewrite Ho in Ha.
      apply (mem_spec Nat.eqb Nat.eqb_eq). auto.
  - intros H. split.
    + intros i _. apply Bool.eqb_true_iff. apply Bool.eq_true_iff_eq.
      rewrite offends_offending, (mem_spec Nat.eqb Nat.eqb_eq). symmetry. apply H.
    + intros i Hin. apply Nat.ltb_lt. apply offending_lt, H, Hin.
Qed.

Lemma warned_in es i :
  In i (warned es) <-> exists a b, In (a, b) (map fst (find_conflicts_obs es)) /\ (a = i \/ b = i).
Proof.
  unfold warned. rewrite in_flat_map. split.
  - intros [[[a b] r] [Hin Hi]]. simpl in Hi. exists a, b. split.
    + apply in_map_iff. exists (a, b, r); auto.
    + destruct Hi as [E|[E|[]]]; auto.
  - intros [a [b [Hin Hor]]]. apply in_map_iff in Hin as [[[a' b'] r] [E Hin]].
    simpl in E. inversion E; subst a' b'. exists (a, b, r). split; auto. simpl. tauto.
Qed.

(* api.validator.go warns both ends of every conflict: with the conflicts of the model the warned
   entries are exactly the offending ones, for every route list *)
Theorem warned_P es : P_C15_warned es (warned es).
Proof.
  destruct (find_conflicts_P es) as [Hs Hc]. intros i. rewrite warned_in. split.
  - intros [a [b [Hin Hor]]].
    destruct (Hs a b Hin) as [Hne [ea [eb [Ha [Hb [Hv Hw]]]]]].
    destruct Hor as [E|E]; subst i.
    + exists ea, b, eb. repeat split; auto.
    + exists eb, a, ea. repeat split; auto. destruct Hw as [w [H1 H2]]. exists w; auto.
  - intros [ei [j [ej [Hi [Hne [Hj [Hv Hw]]]]]]].
    apply (Hc i ei Hi). exists j, ej. auto.
Qed.

Theorem warned_prop es : prop_C15_warned es (warned es) = true.
Proof. apply prop_C15_warned_spec, warned_P. Qed.

(* for every project: the methods the validator warns are exactly the methods whose mounted route
   overlaps with another same-verb mounted route *)
Theorem pipeline_full ms : prop_C15_pipeline ms (warned_methods ms) = true.
Proof.
  unfold prop_C15_pipeline, warned_methods.
  change (map mounted_entry ms) with (map impl_entry ms). apply warned_prop.
Qed.

Theorem pipeline_full_P ms : P_C15_warned (map mounted_entry ms) (warned_methods ms).
Proof. apply prop_C15_warned_spec. exact (pipeline_full ms). Qed.

(* non-vacuity: a concrete list on which all four report kinds and a triple duplicate occur *)
From Coq Require Import String.
Definition demo_entries : list entry :=
  let E (v p : string) := {| e_path := s p; e_verb := s v |} in
  [E "GET" "/a"; E "GET" "/a"; E "GET" "a/"; E "POST" "/a"; E "GET" "/{x}";
   E "GET" "/b/{y}"; E "GET" "/{z}/c"; E "GET" "/{u}/{w}"]%string.

Example demo_nonvacuous :
  map fst (find_conflicts_obs demo_entries) =
  [(1, 0); (0, 2); (0, 4); (5, 6); (5, 7); (7, 6); (7, 6)] /\
  prop_C15 demo_entries (map fst (find_conflicts_obs demo_entries)) = true /\
  prop_C15 demo_entries [(1, 0); (0, 4)] = false.
Proof. vm_compute. repeat split. Qed.

(* non-vacuity at the level of projects: controllers mounted under different prefixes *)
Definition M (p r v : string) : method := {| m_prefix := s p; m_route := s r; m_verb := s v |}.

(* same method routes under different prefixes: nothing collides, nobody is warned *)
Definition demo_apart : list method :=
  [M "/users" "/{id}" "GET"; M "/posts" "/{id}" "GET"]%string.
(* different method routes that are mounted at the same place: both are warned *)
Definition demo_across : list method :=
  [M "/a" "/b" "GET"; M "" "/a/b" "GET"]%string.

Definition demo_project : list method :=
  [M "/api" "/{id}" "GET"; M "/api" "/health" "GET"; M "/api" "/{id}" "POST";
   M "/api/" "x/{a}" "GET"; M "/api" "/{k}/{b}" "GET"; M "/api" "/y" "PUT";
   M "/v2" "/health" "GET"; M "" "/api/{z}" "POST"]%string.

Example demo_pipeline_nonvacuous :
  warned_methods demo_apart = [] /\
  prop_C15_pipeline demo_apart [] = true /\
  prop_C15_pipeline demo_apart [0; 1] = false /\
  warned_methods demo_across = [1; 0] /\
  prop_C15_pipeline demo_across [1; 0] = true /\
  prop_C15_pipeline demo_across [] = false /\
  warned_methods demo_project = [1; 0; 3; 4; 2; 7; 2; 7] /\
  prop_C15_pipeline demo_project (warned_methods demo_project) = true /\
  prop_C15_pipeline demo_project [0; 1; 3; 4] = false /\
  prop_C15_pipeline demo_project [0; 1; 2; 3; 4; 6; 7] = false.
Proof. vm_compute. repeat split. Qed.
