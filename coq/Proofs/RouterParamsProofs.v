From Gleece Require Import Base.Bytes Model.Project Model.Spec Model.Router Model.RouterParams.
Open Scope list_scope.

Lemma forallb_combine_Forall2 {A B} (f : A -> B -> bool) : forall (l : list A) (r : list B),
  List.length r = List.length l ->
  forallb (fun x => f (fst x) (snd x)) (combine l r) = true ->
  Forall2 (fun a b => f a b = true) l r.
Proof.
  induction l as [|a l IH]; intros [|b r] Hlen H; simpl in *; try discriminate; [constructor|].
  apply andb_true_iff in H as [H1 H2]. constructor; auto.
Qed.

(* what a successful per-run obligation says about one handler: parameter by parameter (in
   signature order, context parameters excluded) the generated code reads the declared location
   under the declared wire name, converts with the function and bit size of the declared type,
   validates with the reduced validator; and the controller is invoked with the arguments in
   signature order (dereferenced unless the parameter is a pointer; the request context for a
   context parameter) *)
Theorem handler_params_sound e m tps args :
  handler_params_ok e m tps args = true ->
  Forall2 (fun p t => tparam_ok e p t = true) (filter (fun p => negb (pa_ctx p)) (m_params m)) tps /\
  Forall2 (fun p a => arg_ok p a = true) (m_params m) args.
Proof.
  unfold handler_params_ok. rewrite !andb_true_iff, !Nat.eqb_eq. intros [[[L1 F1] L2] F2]. split.
  - apply (forallb_combine_Forall2 (tparam_ok e)); auto.
  - apply (forallb_combine_Forall2 arg_ok); auto.
Qed.

Theorem router_params_sound e p hs :
  router_params_ok e p hs = true ->
  Forall2 (fun cm h => handler_params_ok e (snd cm) (fst h) (snd h) = true) (routes_of p) hs.
Proof.
  unfold router_params_ok. rewrite andb_true_iff, Nat.eqb_eq. intros [L F].
  apply (forallb_combine_Forall2 (fun cm h => handler_params_ok e (snd cm) (fst h) (snd h))); auto.
Qed.

(* every string literal the handler hands to a request-reading expression for a parameter is
   that parameter's wire name *)
Lemma tparam_ok_wire e p t : tparam_ok e p t = true -> loc_eqb (pa_loc p) LBody = false ->
  forall w, In w (tp_wires t) -> w = wire_name p.
Proof.
  unfold tparam_ok. intros H Hb. rewrite Hb in H.
  apply andb_true_iff in H as [_ H].
  apply andb_true_iff in H as [H _]. apply andb_true_iff in H as [H _].
  apply andb_true_iff in H as [H _]. apply andb_true_iff in H as [_ Hf].
  intros w Hw. rewrite forallb_forall in Hf. apply str_eqb_spec. apply Hf. exact Hw.
Qed.
