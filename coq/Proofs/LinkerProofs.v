(* Proofs about Model/Linker.v (C10). *)
From Gleece Require Import Base.Bytes Model.Annot Model.Linker.
From Coq Require Import String.
Open Scope list_scope.

(* ---------------------------------------------------------------- basic reflections *)

Lemma smem_In x l : smem x l = true <-> In x l.
Proof. unfold smem. apply mem_spec. apply str_eqb_spec. Qed.

Lemma smem_false x l : smem x l = false <-> ~ In x l.
Proof.
  rewrite <- smem_In. destruct (smem x l); split; intros H; try discriminate; auto.
  exfalso; apply H; reflexivity.
Qed.

Lemma akind_eqb_spec a b : akind_eqb a b = true <-> a = b.
Proof.
  unfold akind_eqb. rewrite Nat.eqb_eq. split; [|intros ->; reflexivity].
  destruct a, b; simpl; intros H; try reflexivity; discriminate.
Qed.

Lemma akind_eqb_refl a : akind_eqb a a = true.
Proof. apply akind_eqb_spec; reflexivity. Qed.

Lemma kind_is_spec k a : kind_is k a = true <-> la_kind a = k.
Proof. unfold kind_is. rewrite akind_eqb_spec. split; congruence. Qed.

Lemma nodupb_spec l : nodupb l = true <-> NoDup l.
Proof.
  induction l as [|x t IH]; simpl.
  - split; [constructor | reflexivity].
  - rewrite andb_true_iff, negb_true_iff, smem_false, IH. split.
    + intros [H1 H2]; constructor; assumption.
    + intros H; inversion H; subst; split; assumption.
Qed.

Lemma subsetb_spec a b : subsetb a b = true <-> incl a b.
Proof.
  unfold subsetb, incl. rewrite forallb_forall. split; intros H x Hx.
  - apply smem_In, H, Hx.
  - apply smem_In, H, Hx.
Qed.

Lemma is_nil_spec {A} (l : list A) : is_nil l = true <-> l = [].
Proof. destruct l; simpl; split; congruence. Qed.

Lemma is_nil_false {A} (l : list A) : is_nil l = false <-> l <> [].
Proof. destruct l; simpl; split; congruence. Qed.

Lemma no_error_app a b : no_error (a ++ b) = no_error a && no_error b.
Proof. unfold no_error. rewrite existsb_app, negb_orb. reflexivity. Qed.

Lemma no_error_nil : no_error [] = true.
Proof. reflexivity. Qed.

Lemma no_error_In l : no_error l = true <-> forall d, In d l -> is_error d = false.
Proof.
  unfold no_error. rewrite negb_true_iff. split.
  - intros H d Hd. destruct (is_error d) eqn:E; [|reflexivity].
    assert (existsb is_error l = true) by (apply existsb_exists; eauto). congruence.
  - intros H. destruct (existsb is_error l) eqn:E; [|reflexivity].
    apply existsb_exists in E. destruct E as [d [Hd He]]. rewrite (H d Hd) in He. discriminate.
Qed.

(* a list of error diagnostics without errors is empty *)
Definition all_errors (l : list diag) : Prop := forall d, In d l -> is_error d = true.

Lemma all_errors_nil l : all_errors l -> no_error l = true -> l = [].
Proof.
  intros Ha Hn. destruct l as [|d t]; [reflexivity|].
  rewrite no_error_In in Hn. specialize (Ha d (or_introl eq_refl)). specialize (Hn d (or_introl eq_refl)).
  congruence.
Qed.

Lemma all_errors_app a b : all_errors a -> all_errors b -> all_errors (a ++ b).
Proof. intros Ha Hb d Hd. apply in_app_or in Hd. destruct Hd; auto. Qed.

Lemma all_errors_nil' : all_errors [].
Proof. intros d []. Qed.

Lemma all_errors_one c an : all_errors [err c an].
Proof. intros d [<-|[]]. reflexivity. Qed.

Lemma all_errors_if (b : bool) l : all_errors l -> all_errors (if b then l else []).
Proof. destruct b; [auto | intros; apply all_errors_nil']. Qed.

Lemma all_errors_if' (b : bool) l : all_errors l -> all_errors (if b then [] else l).
Proof. destruct b; [intros; apply all_errors_nil' | auto]. Qed.

(* index_from *)
Lemma index_from_app {A} i (a b : list A) :
  index_from i (a ++ b) = index_from i a ++ index_from (i + List.length a) b.
Proof.
  revert i; induction a as [|x a IH]; intros i; simpl.
  - rewrite Nat.add_0_r. reflexivity.
  - rewrite IH. replace (i + S (List.length a)) with (S i + List.length a) by lia. reflexivity.
Qed.

Lemma index_from_snd {A} i (l : list A) : map snd (index_from i l) = l.
Proof. revert i; induction l as [|x l IH]; intros i; simpl; [reflexivity | rewrite IH; reflexivity]. Qed.

Lemma index_from_In {A} i (l : list A) j x : In (j, x) (index_from i l) -> In x l.
Proof.
  intros H. rewrite <- (index_from_snd i l). apply in_map_iff. exists (j, x). split; [reflexivity | assumption].
Qed.

Lemma In_index_from {A} i (l : list A) x : In x l -> exists j, In (j, x) (index_from i l).
Proof.
  revert i; induction l as [|y l IH]; intros i H; [destruct H|].
  destruct H as [->|H]; simpl.
  - exists i; left; reflexivity.
  - destruct (IH (S i) H) as [j Hj]. exists j; right; assumption.
Qed.

(* ---------------------------------------------------------------- {names}: the two scanners agree *)

Lemma template_names_cons c t :
  template_names (c :: t) =
  (if beqb c c_lb then match take_name t with Some n => [n] | None => [] end else []) ++ template_names t.
Proof. reflexivity. Qed.

Lemma lb_ne_rb : beqb c_lb c_rb = false.
Proof. reflexivity. Qed.

Lemma rb_ne_lb : beqb c_rb c_lb = false.
Proof. reflexivity. Qed.

Lemma eup_both t :
  eup None t = template_names t
  /\ forall acc, eup (Some acc) t =
       (match take_name t with Some n => [rev acc ++ n] | None => [] end) ++ template_names t.
Proof.
  induction t as [|c t [IHn IHs]].
  - split; [reflexivity | intros acc; reflexivity].
  - split.
    + cbn [eup template_names]. unfold str in *. destruct (beqb c c_lb) eqn:E1.
      * rewrite (IHs []). destruct (take_name t); reflexivity.
      * destruct (beqb c c_rb); simpl; apply IHn.
    + intros acc. cbn [eup template_names take_name]. unfold str in *. destruct (beqb c c_lb) eqn:E1.
      * apply beqb_spec in E1; subst c. rewrite lb_ne_rb. rewrite (IHs []).
        destruct (take_name t); reflexivity.
      * destruct (beqb c c_rb) eqn:E2.
        -- rewrite IHn. simpl. rewrite app_nil_r. reflexivity.
        -- rewrite (IHs (c :: acc)). destruct (take_name t) as [n|]; simpl; [|reflexivity].
           rewrite <- app_assoc. reflexivity.
Qed.

(* extractUrlParams computes the {names} of the property text *)
Lemma extract_url_params_spec t : extract_url_params t = template_names t.
Proof. apply eup_both. Qed.

Lemma template_names_no_brace p t :
  has_brace p = false -> template_names (p ++ t) = template_names t.
Proof.
  induction p as [|c p IH]; simpl; intros H; [reflexivity|].
  apply orb_false_iff in H. destruct H as [H1 H2]. apply orb_false_iff in H1. destruct H1 as [H1 _].
  rewrite H1. simpl. apply IH, H2.
Qed.
