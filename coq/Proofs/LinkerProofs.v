(* Proofs about Model/Linker.v (C10). *)
From Gleece Require Import Base.Bytes Model.Annot Model.Linker.
From Coq Require Import String.
Open Scope list_scope.

(* ---------------------------------------------------------------- basic reflections *)

Lemma smem_In x l : smem x l = true <-> In x l.
Proof. unfold smem. apply mem_spec. apply str_eqb_spec. Qed.

Lemma smem_false x l : smem x l = false <-> ~ In x l.
Proof.
  rewrite <- smem_In. destruct (smem x l); split; intros H; try discriminate; auto.
  exfalso; apply H; reflexivity.
Qed.

Lemma akind_eqb_spec a b : akind_eqb a b = true <-> a = b.
Proof.
  unfold akind_eqb. rewrite Nat.eqb_eq. split; [|intros ->; reflexivity].
  destruct a, b; simpl; intros H; try reflexivity; discriminate.
Qed.

Lemma akind_eqb_refl a : akind_eqb a a = true.
Proof. apply akind_eqb_spec; reflexivity. Qed.

Lemma kind_is_spec k a : kind_is k a = true <-> la_kind a = k.
Proof. unfold kind_is. rewrite akind_eqb_spec. split; congruence. Qed.

Lemma nodupb_spec l : nodupb l = true <-> NoDup l.
Proof.
  induction l as [|x t IH]; simpl.
  - split; [constructor | reflexivity].
  - rewrite andb_true_iff, negb_true_iff, smem_false, IH. split.
    + intros [H1 H2]; constructor; assumption.
    + intros H; inversion H; subst; split; assumption.
Qed.

Lemma subsetb_spec a b : subsetb a b = true <-> incl a b.
Proof.
  unfold subsetb, incl. rewrite forallb_forall. split; intros H x Hx.
  - apply smem_In, H, Hx.
  - apply smem_In, H, Hx.
Qed.

Lemma is_nil_spec {A} (l : list A) : is_nil l = true <-> l = [].
Proof. destruct l; simpl; split; congruence. Qed.

Lemma is_nil_false {A} (l : list A) : is_nil l = false <-> l <> [].
Proof. destruct l; simpl; split; congruence. Qed.

Lemma no_error_app a b : no_error (a ++ b) = no_error a && no_error b.
Proof. unfold no_error. rewrite existsb_app, negb_orb. reflexivity. Qed.

Lemma no_error_nil : no_error [] = true.
Proof. reflexivity. Qed.

Lemma no_error_In l : no_error l = true <-> forall d, In d l -> is_error d = false.
Proof.
  unfold no_error. rewrite negb_true_iff. split.
  - intros H d Hd. destruct (is_error d) eqn:E; [|reflexivity].
    assert (existsb is_error l = true) by (apply existsb_exists; eauto). congruence.
  - intros H. destruct (existsb is_error l) eqn:E; [|reflexivity].
    apply existsb_exists in E. destruct E as [d [Hd He]]. rewrite (H d Hd) in He. discriminate.
Qed.

(* a list of error diagnostics without errors is empty *)
Definition all_errors (l : list diag) : Prop := forall d, In d l -> is_error d = true.

Lemma all_errors_nil l : all_errors l -> no_error l = true -> l = [].
Proof.
  intros Ha Hn. destruct l as [|d t]; [reflexivity|].
  rewrite no_error_In in Hn. specialize (Ha d (or_introl eq_refl)). specialize (Hn d (or_introl eq_refl)).
  congruence.
Qed.

Lemma all_errors_app a b : all_errors a -> all_errors b -> all_errors (a ++ b).
Proof. intros Ha Hb d Hd. apply in_app_or in Hd. destruct Hd; auto. Qed.

Lemma all_errors_nil' : all_errors [].
Proof. intros d []. Qed.

Lemma all_errors_one c an : all_errors [err c an].
Proof. intros d [<-|[]]. reflexivity. Qed.

Lemma all_errors_if (b : bool) l : all_errors l -> all_errors (if b then l else []).
Proof. destruct b; [auto | intros; apply all_errors_nil']. Qed.

Lemma all_errors_if' (b : bool) l : all_errors l -> all_errors (if b then [] else l).
Proof. destruct b; [intros; apply all_errors_nil' | auto]. Qed.

(* index_from *)
Lemma index_from_app {A} i (a b : list A) :
  index_from i (a ++ b) = index_from i a ++ index_from (i + List.length a) b.
Proof.
  revert i; induction a as [|x a IH]; intros i; simpl.
  - rewrite Nat.add_0_r. reflexivity.
  - rewrite IH. replace (i + S (List.length a)) with (S i + List.length a) by lia. reflexivity.
Qed.

Lemma index_from_snd {A} i (l : list A) : map snd (index_from i l) = l.
Proof. revert i; induction l as [|x l IH]; intros i; simpl; [reflexivity | rewrite IH; reflexivity]. Qed.

Lemma index_from_In {A} i (l : list A) j x : In (j, x) (index_from i l) -> In x l.
Proof.
  intros H. rewrite <- (index_from_snd i l). apply in_map_iff. exists (j, x). split; [reflexivity | assumption].
Qed.

Lemma In_index_from {A} i (l : list A) x : In x l -> exists j, In (j, x) (index_from i l).
Proof.
  revert i; induction l as [|y l IH]; intros i H; [destruct H|].
  destruct H as [->|H]; simpl.
  - exists i; left; reflexivity.
  - destruct (IH (S i) H) as [j Hj]. exists j; right; assumption.
Qed.

(* ---------------------------------------------------------------- {names}: the two scanners agree *)

Lemma template_names_cons c t :
  template_names (c :: t) =
  (if beqb c c_lb then match take_name t with Some n => [n] | None => [] end else []) ++ template_names t.
Proof. reflexivity. Qed.

Lemma lb_ne_rb : beqb c_lb c_rb = false.
Proof. reflexivity. Qed.

Lemma rb_ne_lb : beqb c_rb c_lb = false.
Proof. reflexivity. Qed.

Lemma eup_both t :
  eup None t = template_names t
  /\ forall acc, eup (Some acc) t =
       (match take_name t with Some n => [rev acc ++ n] | None => [] end) ++ template_names t.
Proof.
  induction t as [|c t [IHn IHs]].
  - split; [reflexivity | intros acc; reflexivity].
  - split.
    + cbn [eup template_names]. unfold str in *. destruct (beqb c c_lb) eqn:E1.
      * rewrite (IHs []). destruct (take_name t); reflexivity.
      * destruct (beqb c c_rb); simpl; apply IHn.
    + intros acc. cbn [eup template_names take_name]. unfold str in *. destruct (beqb c c_lb) eqn:E1.
      * apply beqb_spec in E1; subst c. rewrite lb_ne_rb. rewrite (IHs []).
        destruct (take_name t); reflexivity.
      * destruct (beqb c c_rb) eqn:E2.
        -- rewrite IHn. simpl. rewrite app_nil_r. reflexivity.
        -- rewrite (IHs (c :: acc)). destruct (take_name t) as [n|]; simpl; [|reflexivity].
           rewrite <- app_assoc. reflexivity.
Qed.

(* extractUrlParams computes the {names} of the property text *)
Lemma extract_url_params_spec t : extract_url_params t = template_names t.
Proof. apply eup_both. Qed.

Lemma template_names_no_brace p t :
  has_brace p = false -> template_names (p ++ t) = template_names t.
Proof.
  induction p as [|c p IH]; simpl; intros H; [reflexivity|].
  apply orb_false_iff in H. destruct H as [H1 H2]. apply orb_false_iff in H1. destruct H1 as [H1 _].
  rewrite H1. simpl. apply IH, H2.
Qed.

(* ---------------------------------------------------------------- CommonValidator *)

Definition all_known (l : list lattr) : Prop := forall a, In a l -> la_kind a <> KUnknown.

(* when attribute [a], preceded by [pre], gets no error-severity diagnostic *)
Definition attr_ok (pre : list lattr) (a : lattr) : Prop :=
  la_value a <> []
  /\ (la_kind a = KBody -> ~ In KForm (map la_kind pre))
  /\ (la_kind a = KForm -> ~ In KBody (map la_kind pre))
  /\ (is_param_kind (la_kind a) = true -> ~ In (la_value a) (map la_value pre))
  /\ (la_kind a = KMethod -> In (la_value a) supported_verbs).

Fixpoint attrs_ok (pre l : list lattr) : Prop :=
  match l with
  | [] => True
  | a :: t => attr_ok pre a /\ attrs_ok (pre ++ [a]) t
  end.

Lemma attrs_ok_split pre l :
  attrs_ok pre l <-> forall l1 a l2, l = l1 ++ a :: l2 -> attr_ok (pre ++ l1) a.
Proof.
  revert pre; induction l as [|x t IH]; intros pre; simpl.
  - split; [|auto]. intros _ l1 a l2 H. destruct l1; discriminate.
  - rewrite IH. split.
    + intros [H0 H] l1 a l2 E. destruct l1 as [|y l1]; simpl in E; inversion E; subst.
      * rewrite app_nil_r. assumption.
      * specialize (H l1 a l2 eq_refl). rewrite <- app_assoc in H. exact H.
    + intros H. split.
      * specialize (H [] x t eq_refl). rewrite app_nil_r in H. exact H.
      * intros l1 a l2 E. subst t. specialize (H (x :: l1) a l2 eq_refl).
        rewrite <- app_assoc. exact H.
Qed.

Lemma count_kind_pos k seen : Nat.ltb 0 (count_kind k seen) = true <-> In k seen.
Proof.
  unfold count_kind. rewrite Nat.ltb_lt. induction seen as [|x t IH]; simpl.
  - split; [lia | tauto].
  - destruct (akind_eqb k x) eqn:E; simpl.
    + apply akind_eqb_spec in E; subst. split; [auto | lia].
    + rewrite IH. split; [auto|]. intros [->|H]; [|assumption].
      rewrite akind_eqb_refl in E; discriminate.
Qed.

Lemma count_kind_pos_false k seen : Nat.ltb 0 (count_kind k seen) = false <-> ~ In k seen.
Proof.
  rewrite <- count_kind_pos. destruct (Nat.ltb 0 (count_kind k seen)); split; intros H; try discriminate; auto.
  exfalso; apply H; reflexivity.
Qed.

Lemma verb_diags_ok i v : no_error (verb_diags i v) = true <-> In v supported_verbs.
Proof.
  unfold verb_diags. destruct (smem v supported_verbs) eqn:E.
  - apply smem_In in E. split; auto.
  - apply smem_false in E. destruct (smem v other_http_verbs); simpl; split; intros H; try discriminate; contradiction.
Qed.

Lemma no_error_if_err (c : bool) x y : no_error (if c then [err x y] else []) = negb c.
Proof. destruct c; reflexivity. Qed.

Lemma no_error_if_warn (c : bool) x y : no_error (if c then [warn x y] else []) = true.
Proof. destruct c; reflexivity. Qed.

Lemma verb_diags_b i v : no_error (verb_diags i v) = smem v supported_verbs.
Proof.
  unfold verb_diags. destruct (smem v supported_verbs); [reflexivity|].
  destruct (smem v other_http_verbs); reflexivity.
Qed.

(* the error-relevant part of validateAnnotation, without positions *)
Definition attr_okb (seen : list akind) (uniq : list str) (a : lattr) : bool :=
  match rule_of (la_kind a) with
  | None => false
  | Some ru =>
      negb (ru_requires_value ru && is_nil (la_value a))
      && negb (existsb (fun k => Nat.ltb 0 (count_kind k seen)) (ru_mutex ru))
      && negb (ru_unique ru && negb (is_nil (la_value a)) && smem (la_value a) uniq)
      && match la_kind a with KMethod => smem (la_value a) supported_verbs | _ => true end
  end.

Lemma common_attr_okb seen uniq i a : no_error (common_attr seen uniq i a) = attr_okb seen uniq a.
Proof.
  unfold common_attr, attr_okb. destruct (rule_of (la_kind a)) as [ru|]; [|reflexivity].
  rewrite !no_error_app, !no_error_if_err, no_error_if_warn.
  assert (E : no_error (match la_alias a, ru_props ru with
         | ANone, _ => []
         | _, PropsNone => [warn CPropsShouldNotExist (AnComment i)]
         | _, PropsNoName => [warn CPropShouldNotExist (AnComment i)]
         | AStr _, PropsName => []
         | ANonStr, PropsName => [warn CPropInvalidValue (AnComment i)]
         end) = true).
  { destruct (la_alias a), (ru_props ru); reflexivity. }
  rewrite E.
  destruct (la_kind a); rewrite ?verb_diags_b; simpl; rewrite ?andb_true_r, ?andb_assoc; reflexivity.
Qed.

Lemma common_attr_ok pre seen uniq i a :
  la_kind a <> KUnknown ->
  (forall k, In k seen <-> In k (map la_kind pre)) ->
  (forall v, In v uniq <-> In v (map la_value pre)) ->
  (no_error (common_attr (la_kind a :: seen) uniq i a) = true <-> attr_ok pre a).
Proof.
  intros Hk Hseen Huniq. rewrite common_attr_okb. unfold attr_ok, attr_okb.
  assert (Hm : forall k, k <> la_kind a ->
             (negb (Nat.ltb 0 (count_kind k (la_kind a :: seen))) = true <-> ~ In k (map la_kind pre))).
  { intros k Hne. rewrite negb_true_iff, count_kind_pos_false. simpl. rewrite Hseen. split.
    - intros H H'. apply H. right; assumption.
    - intros H [E|H']; [congruence | contradiction]. }
  assert (Hu : negb (smem (la_value a) uniq) = true <-> ~ In (la_value a) (map la_value pre)).
  { rewrite negb_true_iff, smem_false, Huniq. tauto. }
  assert (Hv : negb (is_nil (la_value a)) = true <-> la_value a <> []).
  { rewrite negb_true_iff. apply is_nil_false. }
  destruct (la_kind a) eqn:K; try congruence;
    cbn [rule_of ru_requires_value ru_allows_multiple ru_unique ru_mutex ru_props existsb is_param_kind andb orb negb];
    rewrite ?orb_false_r, ?andb_true_r, ?andb_true_iff.
  - (* Method *) rewrite Hv, smem_In. split.
    + intros [H1 H2]. repeat split; try discriminate; auto.
    + intros (H1 & _ & _ & _ & H5). split; auto.
  - (* Route *) rewrite Hv. split.
    + intros H1. repeat split; try discriminate; auto.
    + intros (H1 & _). auto.
  - (* Path *) destruct (is_nil (la_value a)) eqn:Ev; simpl.
    + apply is_nil_spec in Ev. split; [intros [H _]; discriminate | intros [H _]; congruence].
    + apply is_nil_false in Ev. rewrite Hu. split.
      * intros [_ H]. repeat split; try discriminate; auto.
      * intros (_ & _ & _ & H & _). split; auto.
  - (* Query *) destruct (is_nil (la_value a)) eqn:Ev; simpl.
    + apply is_nil_spec in Ev. split; [intros [H _]; discriminate | intros [H _]; congruence].
    + apply is_nil_false in Ev. rewrite Hu. split.
      * intros [_ H]. repeat split; try discriminate; auto.
      * intros (_ & _ & _ & H & _). split; auto.
  - (* Header *) destruct (is_nil (la_value a)) eqn:Ev; simpl.
    + apply is_nil_spec in Ev. split; [intros [H _]; discriminate | intros [H _]; congruence].
    + apply is_nil_false in Ev. rewrite Hu. split.
      * intros [_ H]. repeat split; try discriminate; auto.
      * intros (_ & _ & _ & H & _). split; auto.
  - (* Form *) rewrite (Hm KBody) by discriminate.
    destruct (is_nil (la_value a)) eqn:Ev; simpl.
    + apply is_nil_spec in Ev. split; [intros [[H _] _]; discriminate | intros [H _]; congruence].
    + apply is_nil_false in Ev. rewrite Hu. split.
      * intros [[_ H2] H3]. repeat split; try discriminate; auto.
      * intros (_ & _ & H3 & H4 & _). repeat split; auto.
  - (* Body *) rewrite (Hm KForm) by discriminate.
    destruct (is_nil (la_value a)) eqn:Ev; simpl.
    + apply is_nil_spec in Ev. split; [intros [[H _] _]; discriminate | intros [H _]; congruence].
    + apply is_nil_false in Ev. rewrite Hu. split.
      * intros [[_ H2] H3]. repeat split; try discriminate; auto.
      * intros (_ & H2 & _ & H4 & _). repeat split; auto.
  - (* Security *) rewrite Hv. split.
    + intros H1. repeat split; try discriminate; auto.
    + intros (H1 & _). auto.
Qed.

Lemma rule_of_known k : k <> KUnknown -> exists ru, rule_of k = Some ru.
Proof. destruct k; intros H; try congruence; eexists; reflexivity. Qed.

Lemma common_go_ok : forall l pre seen uniq i,
  all_known (pre ++ l) ->
  (forall k, In k seen <-> In k (map la_kind pre)) ->
  (forall v, In v uniq <-> In v (map la_value pre)) ->
  (no_error (common_go seen uniq (index_from i l)) = true <-> attrs_ok pre l).
Proof.
  induction l as [|a t IH]; intros pre seen uniq i Hk Hs Hu; simpl.
  - split; auto.
  - assert (Ka : la_kind a <> KUnknown) by (apply Hk; apply in_or_app; right; left; reflexivity).
    destruct (rule_of_known _ Ka) as [ru Eru]. rewrite Eru.
    rewrite no_error_app, andb_true_iff.
    rewrite (common_attr_ok pre seen uniq i a Ka Hs Hu).
    rewrite (IH (pre ++ [a]) (la_kind a :: seen) (la_value a :: uniq) (S i)).
    + tauto.
    + rewrite <- app_assoc. exact Hk.
    + intros k. rewrite map_app, in_app_iff. simpl. rewrite Hs. tauto.
    + intros v. rewrite map_app, in_app_iff. simpl. rewrite Hu. tauto.
Qed.

Lemma common_diags_ok r :
  all_known (r_attrs r) -> (no_error (common_diags r) = true <-> attrs_ok [] (r_attrs r)).
Proof.
  intros Hk. unfold common_diags, indexed. apply common_go_ok; simpl; auto; tauto.
Qed.

(* ---------------------------------------------------------------- AnnotationLinkValidator *)

Lemma url_go_errors ri referenced : forall url witnessed, all_errors (url_go ri referenced witnessed url).
Proof.
  induction url as [|u t IH]; intros w; simpl; [apply all_errors_nil'|].
  repeat apply all_errors_app; auto.
  - apply all_errors_if, all_errors_one.
  - apply all_errors_if', all_errors_one.
Qed.

Lemma url_go_nil ri referenced : forall url witnessed,
  url_go ri referenced witnessed url = [] <->
  (forall u, In u url -> In u referenced) /\ NoDup url /\ (forall u, In u url -> ~ In u witnessed).
Proof.
  induction url as [|u t IH]; intros w; simpl.
  - split; [intros _; repeat split; [tauto | constructor | tauto] | reflexivity].
  - destruct (smem u w) eqn:Ew.
    + apply smem_In in Ew. simpl. split; [discriminate|].
      intros (_ & _ & H). exfalso. apply (H u); auto.
    + apply smem_false in Ew. simpl. destruct (smem u referenced) eqn:Er.
      * apply smem_In in Er. simpl. rewrite IH. split.
        -- intros (H1 & H2 & H3). repeat split.
           ++ intros x [<-|Hx]; auto.
           ++ constructor; [|assumption]. intros Hu. apply (H3 u Hu). left; reflexivity.
           ++ intros x [<-|Hx]; [assumption|]. intros Hw. apply (H3 x Hx). right; assumption.
        -- intros (H1 & H2 & H3). inversion H2; subst. repeat split; auto.
           intros x Hx [<-|Hw]; [contradiction|]. apply (H3 x); auto.
      * apply smem_false in Er. simpl. split; [discriminate|].
        intros (H & _). exfalso. apply Er, H. left; reflexivity.
Qed.

Definition real_aliases (l : list (nat * lattr)) : list str :=
  flat_map (fun ia => match la_alias (snd ia) with AStr (c :: x) => [c :: x] | _ => [] end) l.

Definition pvalues (l : list (nat * lattr)) : list str := map (fun ia => la_value (snd ia)) l.

Lemma all_errors_cons c an l : all_errors l -> all_errors (err c an :: l).
Proof. intros H d [<-|Hd]; [reflexivity | auto]. Qed.

Ltac ae :=
  repeat first [ assumption | apply all_errors_nil' | apply all_errors_one | apply all_errors_cons
               | apply all_errors_app
               | match goal with |- all_errors (if ?c then _ else _) => destruct c end ].

Lemma pass2_go_errors fn url : forall l sF sR sA, all_errors (fst (pass2_go fn url sF sR sA l)).
Proof.
  induction l as [|[i a] t IH]; intros sF sR sA; simpl; [apply all_errors_nil'|].
  destruct (la_alias a) as [|x|]; [|destruct (is_nil x)|];
    match goal with |- context [pass2_go fn url ?f ?r ?s t] => specialize (IH f r s); destruct (pass2_go fn url f r s t) end;
    simpl in *; ae.
Qed.

Definition p2_d1 (fn sF : list str) (i : nat) (a : lattr) : list diag :=
  if smem (la_value a) fn then (if smem (la_value a) sF then [err CMultipleParamRefs (AnValue i)] else [])
  else [err CPathInvalidRef (AnValue i)].
Definition p2_d2 (sR : list str) (i : nat) (a : lattr) : list diag :=
  if smem (la_value a) sR then [err CDuplicatePathParam (AnComment i)] else [].
Definition p2_d3 (url sA : list str) (i : nat) (a : lattr) : list diag :=
  match la_alias a with
  | ANonStr => [err CPropInvalidValue (AnProps i)]
  | AStr x => if is_nil x then []
              else (if smem x sA then [err CDuplicatePathAliasRef (AnComment i)] else [])
                   ++ (if smem x url then [] else [err CPathInvalidRef (AnComment i)])
  | ANone => []
  end.
Definition p2_sF (fn sF : list str) (a : lattr) := if smem (la_value a) fn then la_value a :: sF else sF.
Definition p2_sR (sR : list str) (a : lattr) := if smem (la_value a) sR then sR else la_value a :: sR.
Definition p2_sA (sA : list str) (a : lattr) :=
  match la_alias a with
  | AStr x => if is_nil x then sA else if smem x sA then sA else x :: sA
  | _ => sA
  end.

Lemma pass2_go_cons fn url sF sR sA i a t :
  pass2_go fn url sF sR sA ((i, a) :: t) =
  (p2_d1 fn sF i a ++ p2_d2 sR i a ++ p2_d3 url sA i a
     ++ fst (pass2_go fn url (p2_sF fn sF a) (p2_sR sR a) (p2_sA sA a) t),
   snd (pass2_go fn url (p2_sF fn sF a) (p2_sR sR a) (p2_sA sA a) t)).
Proof.
  cbn [pass2_go]. unfold p2_d1, p2_d2, p2_d3, p2_sF, p2_sR, p2_sA.
  destruct (la_alias a) as [|x|]; [|destruct (is_nil x)|];
    match goal with |- context [pass2_go fn url ?f ?r ?s t] => destruct (pass2_go fn url f r s t) end; reflexivity.
Qed.

Lemma pass2_snd fn url : forall l sF sR sA v,
  In v (snd (pass2_go fn url sF sR sA l)) <-> In v sF \/ (In v (pvalues l) /\ In v fn).
Proof.
  induction l as [|[i a] t IH]; intros sF sR sA v.
  - simpl. tauto.
  - rewrite pass2_go_cons. cbn [snd]. rewrite IH. unfold p2_sF, pvalues. cbn [map snd In].
    destruct (smem (la_value a) fn) eqn:E.
    + apply smem_In in E. simpl. split.
      * intros [[<-|H]|[H1 H2]]; auto.
      * intros [H|[[<-|H1] H2]]; auto.
    + apply smem_false in E. split.
      * intros [H|[H1 H2]]; auto.
      * intros [H|[[<-|H1] H2]]; auto. contradiction.
Qed.

Lemma p2_d1_nil fn sF i a : p2_d1 fn sF i a = [] <-> In (la_value a) fn /\ ~ In (la_value a) sF.
Proof.
  unfold p2_d1. destruct (smem (la_value a) fn) eqn:E1.
  - apply smem_In in E1. destruct (smem (la_value a) sF) eqn:E2.
    + apply smem_In in E2. split; [discriminate | tauto].
    + apply smem_false in E2. tauto.
  - apply smem_false in E1. split; [discriminate | tauto].
Qed.

Lemma p2_d2_nil sR i a : p2_d2 sR i a = [] <-> ~ In (la_value a) sR.
Proof.
  unfold p2_d2. destruct (smem (la_value a) sR) eqn:E.
  - apply smem_In in E. split; [discriminate | tauto].
  - apply smem_false in E. tauto.
Qed.

Definition real_alias_of (a : lattr) : list str :=
  match la_alias a with AStr (c :: x) => [c :: x] | _ => [] end.

Lemma p2_d3_nil url sA i a :
  p2_d3 url sA i a = [] <->
  la_alias a <> ANonStr /\ (forall x, In x (real_alias_of a) -> ~ In x sA /\ In x url).
Proof.
  unfold p2_d3, real_alias_of. destruct (la_alias a) as [|x|].
  - split; [intros _; split; [discriminate | intros x []] | reflexivity].
  - destruct x as [|c x]; simpl.
    + split; [intros _; split; [discriminate | intros x []] | reflexivity].
    + destruct (smem (c :: x) sA) eqn:E1.
      * apply smem_In in E1. split; [discriminate|]. intros [_ H]. destruct (H (c :: x)); [left; reflexivity | contradiction].
      * apply smem_false in E1. destruct (smem (c :: x) url) eqn:E2.
        -- apply smem_In in E2. simpl. split; [|reflexivity]. intros _. split; [discriminate|].
           intros y [<-|[]]. split; assumption.
        -- apply smem_false in E2. simpl. split; [discriminate|]. intros [_ H].
           destruct (H (c :: x)); [left; reflexivity | contradiction].
  - split; [discriminate | intros [H _]; congruence].
Qed.

Lemma p2_sA_In sA a x : ~ (exists y, In y (real_alias_of a) /\ In y sA) ->
  (In x (p2_sA sA a) <-> In x (real_alias_of a) \/ In x sA).
Proof.
  unfold p2_sA, real_alias_of. intros Hn. destruct (la_alias a) as [|y|]; [simpl; tauto| |simpl; tauto].
  destruct y as [|c y]; simpl; [tauto|].
  destruct (smem (c :: y) sA) eqn:E.
  - apply smem_In in E. exfalso. apply Hn. exists (c :: y). split; [left; reflexivity | assumption].
  - simpl. tauto.
Qed.

Lemma real_aliases_cons i a t : real_aliases ((i, a) :: t) = real_alias_of a ++ real_aliases t.
Proof. reflexivity. Qed.

Lemma NoDup_app_iff {A} (l1 l2 : list A) :
  NoDup (l1 ++ l2) <-> NoDup l1 /\ NoDup l2 /\ (forall x, In x l1 -> In x l2 -> False).
Proof.
  induction l1 as [|a l1 IH]; simpl.
  - split; [intros H; repeat split; [constructor | assumption | tauto] | tauto].
  - split.
    + intros H. inversion H as [|? ? Hn Hd]; subst. apply IH in Hd. destruct Hd as (H1 & H2 & H3).
      repeat split; auto.
      * constructor; [|assumption]. intros Hi. apply Hn, in_or_app. left; assumption.
      * intros x [<-|Hx] Hx2; [apply Hn, in_or_app; right; assumption | eauto].
    + intros (H1 & H2 & H3). inversion H1 as [|? ? Hn Hd]; subst. constructor.
      * intros Hi. apply in_app_or in Hi. destruct Hi as [Hi|Hi]; [contradiction | apply (H3 a); auto].
      * apply IH. repeat split; auto. intros x Hx. apply H3. right; assumption.
Qed.

Lemma pass2_nil fn url : forall l sF sR sA,
  incl sF sR ->
  (fst (pass2_go fn url sF sR sA l) = [] <->
   (forall v, In v (pvalues l) -> In v fn)
   /\ NoDup (pvalues l) /\ (forall v, In v (pvalues l) -> ~ In v sR)
   /\ (forall ia, In ia l -> la_alias (snd ia) <> ANonStr)
   /\ NoDup (real_aliases l) /\ (forall x, In x (real_aliases l) -> ~ In x sA /\ In x url)).
Proof.
  induction l as [|[i a] t IH]; intros sF sR sA Hincl.
  - simpl. split; [|reflexivity]. intros _. repeat split; try constructor; simpl; tauto.
  - rewrite pass2_go_cons. cbn [fst].
    split.
    + intros H. apply app_eq_nil in H. destruct H as [H1 H]. apply app_eq_nil in H. destruct H as [H2 H].
      apply app_eq_nil in H. destruct H as [H3 H4].
      apply p2_d1_nil in H1. destruct H1 as [H1 H1']. apply p2_d2_nil in H2. apply p2_d3_nil in H3. destruct H3 as [H3 H3'].
      unfold p2_sF, p2_sR in H4.
      assert (E1 : smem (la_value a) fn = true) by (apply smem_In; assumption).
      assert (E2 : smem (la_value a) sR = false) by (apply smem_false; assumption).
      rewrite E1, E2 in H4.
      apply IH in H4; [|intros z [<-|Hz]; [left; reflexivity | right; apply Hincl, Hz]].
      destruct H4 as (G1 & G2 & G3 & G4 & G5 & G6).
      assert (Hdisj : ~ (exists y, In y (real_alias_of a) /\ In y sA)).
      { intros [y [Hy1 Hy2]]. destruct (H3' y Hy1). contradiction. }
      unfold pvalues in *. cbn [map snd]. repeat split.
      * intros v [<-|Hv]; auto.
      * constructor; [|assumption]. intros Hv. apply (G3 _ Hv). left; reflexivity.
      * intros v [<-|Hv]; [assumption|]. intros Hs. apply (G3 v Hv). right; assumption.
      * intros ia [<-|Hia]; [assumption | auto].
      * rewrite real_aliases_cons. apply NoDup_app_iff. repeat split; auto.
        -- unfold real_alias_of. destruct (la_alias a) as [|[|c y]|]; repeat constructor; simpl; tauto.
        -- intros x Hx1 Hx2. destruct (G6 x Hx2) as [Hn _]. apply Hn. apply p2_sA_In; auto.
      * rewrite real_aliases_cons in H. apply in_app_or in H. destruct H as [H|H]; [apply H3', H|].
        destruct (G6 x H) as [Hn _]. intros Hs. apply Hn. apply p2_sA_In; auto.
      * rewrite real_aliases_cons in H. apply in_app_or in H. destruct H as [H|H]; [apply H3', H | apply G6, H].
    + intros (G1 & G2 & G3 & G4 & G5 & G6). unfold pvalues in *. cbn [map snd] in *.
      inversion G2 as [|? ? Hnot Hnd]; subst.
      rewrite real_aliases_cons in G5, G6.
      assert (H1 : p2_d1 fn sF i a = []).
      { apply p2_d1_nil. split; [apply G1; left; reflexivity|]. intros Hs. apply (G3 (la_value a)); [left; reflexivity | apply Hincl, Hs]. }
      assert (H2 : p2_d2 sR i a = []) by (apply p2_d2_nil, G3; left; reflexivity).
      assert (H3 : p2_d3 url sA i a = []).
      { apply p2_d3_nil. split; [apply (G4 (i, a)); left; reflexivity|]. intros x Hx. apply G6, in_or_app; left; assumption. }
      rewrite H1, H2, H3. simpl.
      unfold p2_sF, p2_sR.
      assert (E1 : smem (la_value a) fn = true) by (apply smem_In, G1; left; reflexivity).
      assert (E2 : smem (la_value a) sR = false) by (apply smem_false, G3; left; reflexivity).
      rewrite E1, E2.
      assert (Hdisj : ~ (exists y, In y (real_alias_of a) /\ In y sA)).
      { intros [y [Hy1 Hy2]]. destruct (G6 y); [apply in_or_app; left; assumption | contradiction]. }
      apply IH; [intros z [<-|Hz]; [left; reflexivity | right; apply Hincl, Hz]|].
      repeat split.
      * intros v Hv. apply G1. right; assumption.
      * assumption.
      * intros v Hv [<-|Hs]; [contradiction | apply (G3 v); [right; assumption | assumption]].
      * intros ia Hia. apply G4. right; assumption.
      * apply NoDup_app_iff in G5. tauto.
      * intros Hs. apply p2_sA_In in Hs; auto. destruct Hs as [Hs|Hs].
        -- apply NoDup_app_iff in G5. destruct G5 as (_ & _ & G5). apply (G5 x Hs H).
        -- destruct (G6 x); [apply in_or_app; right; assumption | contradiction].
      * apply G6, in_or_app; right; assumption.
Qed.

Lemma pass3_go_errors fn : forall l sF, all_errors (fst (pass3_go fn sF l)).
Proof.
  induction l as [|[i a] t IH]; intros sF; simpl; [apply all_errors_nil'|].
  destruct (is_nil (la_value a)); [apply IH|].
  destruct (smem (la_value a) fn); [apply IH|].
  specialize (IH sF). destruct (pass3_go fn sF t). simpl in *. ae.
Qed.

Lemma pass3_nil fn : forall l sF,
  fst (pass3_go fn sF l) = [] <-> (forall v, In v (pvalues l) -> v = [] \/ In v fn).
Proof.
  induction l as [|[i a] t IH]; intros sF; simpl.
  - split; [intros _ v [] | reflexivity].
  - destruct (is_nil (la_value a)) eqn:E0.
    + apply is_nil_spec in E0. rewrite IH. split.
      * intros H v [<-|Hv]; auto.
      * intros H v Hv. apply H. right; assumption.
    + destruct (smem (la_value a) fn) eqn:E1.
      * apply smem_In in E1. rewrite IH. split.
        -- intros H v [<-|Hv]; auto.
        -- intros H v Hv. apply H. right; assumption.
      * apply smem_false in E1. apply is_nil_false in E0.
        destruct (pass3_go fn sF t). simpl. split; [discriminate|].
        intros H. exfalso. destruct (H (la_value a)); [left; reflexivity | contradiction | contradiction].
Qed.

Lemma pass3_snd fn : forall l sF v,
  In v (snd (pass3_go fn sF l)) <-> In v sF \/ (In v (pvalues l) /\ v <> [] /\ In v fn).
Proof.
  induction l as [|[i a] t IH]; intros sF v; simpl.
  - tauto.
  - destruct (is_nil (la_value a)) eqn:E0.
    + apply is_nil_spec in E0. rewrite IH. split.
      * intros [H|(H1 & H2 & H3)]; auto.
      * intros [H|([<-|H1] & H2 & H3)]; auto. contradiction.
    + apply is_nil_false in E0. destruct (smem (la_value a) fn) eqn:E1.
      * apply smem_In in E1. rewrite IH. simpl. split.
        -- intros [[<-|H]|(H1 & H2 & H3)]; auto.
        -- intros [H|([<-|H1] & H2 & H3)]; auto.
      * apply smem_false in E1. specialize (IH sF v). destruct (pass3_go fn sF t). simpl in *. rewrite IH. split.
        -- intros [H|(H1 & H2 & H3)]; auto.
        -- intros [H|([<-|H1] & H2 & H3)]; auto. contradiction.
Qed.

Lemma uniq_first_In x l : In x (uniq_first l) <-> In x l.
Proof.
  induction l as [|y t IH]; simpl; [tauto|].
  rewrite filter_In, IH, negb_true_iff. split.
  - intros [H|[H _]]; auto.
  - intros [H|H]; auto. destruct (str_eqb y x) eqn:E.
    + apply str_eqb_spec in E. auto.
    + right. split; auto.
Qed.

Lemma pass4_errors r sF : all_errors (pass4 r sF).
Proof.
  unfold pass4. intros d Hd. apply in_flat_map in Hd. destruct Hd as [name [_ Hd]].
  destruct (smem name sF); [destruct Hd|].
  destruct (first_param name (indexed (r_params r))) as [[j p]|]; [|destruct Hd].
  destruct (is_ctx p); [destruct Hd|]. destruct Hd as [<-|[]]. reflexivity.
Qed.

Lemma pass4_nil r sF :
  pass4 r sF = [] <->
  (forall name, In name (fnames r) -> In name sF \/
     match first_param name (indexed (r_params r)) with Some (_, p) => is_ctx p = true | None => True end).
Proof.
  unfold pass4. split.
  - intros H name Hn. apply (proj2 (uniq_first_In _ _)) in Hn.
    assert (E : (if smem name sF then []
        else match first_param name (indexed (r_params r)) with
             | Some (j, p) => if is_ctx p then [] else [err CUnreferencedParam (AnParam j)]
             | None => [] end) = []).
    { destruct (smem name sF) eqn:E; [reflexivity|].
      destruct (first_param name (indexed (r_params r))) as [[j p]|] eqn:F; [|reflexivity].
      destruct (is_ctx p) eqn:C; [reflexivity|]. exfalso.
      assert (Hin : In (err CUnreferencedParam (AnParam j))
                (flat_map (fun name => if smem name sF then []
                   else match first_param name (indexed (r_params r)) with
                        | Some (j, p) => if is_ctx p then [] else [err CUnreferencedParam (AnParam j)]
                        | None => [] end) (uniq_first (fnames r)))).
      { apply in_flat_map. exists name. split; [assumption|]. rewrite E, F, C. left; reflexivity. }
      rewrite H in Hin. destruct Hin. }
    destruct (smem name sF) eqn:E1; [left; apply smem_In; assumption|]. right.
    destruct (first_param name (indexed (r_params r))) as [[j p]|]; [|exact I].
    destruct (is_ctx p); [reflexivity | discriminate].
  - intros H. destruct (flat_map _ _) as [|d l] eqn:E; [reflexivity|]. exfalso.
    assert (Hd : In d (d :: l)) by (left; reflexivity). rewrite <- E in Hd.
    apply in_flat_map in Hd. destruct Hd as [name [Hn Hd]]. apply (proj1 (uniq_first_In _ _)) in Hn.
    destruct (H name Hn) as [Hs|Hc].
    + apply smem_In in Hs. rewrite Hs in Hd. destruct Hd.
    + destruct (smem name sF); [destruct Hd|].
      destruct (first_param name (indexed (r_params r))) as [[j p]|]; [|destruct Hd].
      rewrite Hc in Hd. destruct Hd.
Qed.

Lemma dedup_first_In seen l d : In d (dedup_first seen l) -> In d l.
Proof.
  revert seen; induction l as [|x t IH]; intros seen; simpl; [tauto|].
  destruct (mem diag_eqb x seen).
  - intros H. right. eapply IH, H.
  - intros [<-|H]; [left; reflexivity | right; eapply IH, H].
Qed.

Lemma dedup_first_nil l : dedup_first [] l = [] <-> l = [].
Proof. destruct l; simpl; split; congruence. Qed.

Lemma pass1_errors r : all_errors (pass1 r).
Proof.
  unfold pass1. destruct (flat_map alias_diag (path_attrs r)) as [|d l] eqn:E.
  - apply url_go_errors.
  - rewrite <- E. intros x Hx. apply in_flat_map in Hx. destruct Hx as [ia [_ Hx]].
    unfold alias_diag in Hx. destruct (la_alias (snd ia)); try destruct Hx. subst. reflexivity. destruct H.
Qed.

Lemma link_raw_errors r : all_errors (link_raw r).
Proof.
  unfold link_raw.
  pose proof (pass2_go_errors (fnames r) (link_url r) (path_attrs r) [] [] []) as H2.
  destruct (pass2_go (fnames r) (link_url r) [] [] [] (path_attrs r)) as [d2 sf2].
  pose proof (pass3_go_errors (fnames r) (nonpath_attrs r) sf2) as H3.
  destruct (pass3_go (fnames r) sf2 (nonpath_attrs r)) as [d3 sf3].
  simpl in *. repeat apply all_errors_app; auto using pass1_errors, pass4_errors.
Qed.

(* the link validator reports nothing exactly when its four passes report nothing *)
Lemma link_diags_ok r :
  no_error (link_diags r) = true <->
  pass1 r = []
  /\ fst (pass2_go (fnames r) (link_url r) [] [] [] (path_attrs r)) = []
  /\ fst (pass3_go (fnames r) (snd (pass2_go (fnames r) (link_url r) [] [] [] (path_attrs r))) (nonpath_attrs r)) = []
  /\ pass4 r (snd (pass3_go (fnames r) (snd (pass2_go (fnames r) (link_url r) [] [] [] (path_attrs r))) (nonpath_attrs r))) = [].
Proof.
  assert (E : link_raw r =
    pass1 r ++ fst (pass2_go (fnames r) (link_url r) [] [] [] (path_attrs r))
    ++ fst (pass3_go (fnames r) (snd (pass2_go (fnames r) (link_url r) [] [] [] (path_attrs r))) (nonpath_attrs r))
    ++ pass4 r (snd (pass3_go (fnames r) (snd (pass2_go (fnames r) (link_url r) [] [] [] (path_attrs r))) (nonpath_attrs r)))).
  { unfold link_raw. destruct (pass2_go (fnames r) (link_url r) [] [] [] (path_attrs r)) as [d2 sf2]. simpl.
    destruct (pass3_go (fnames r) sf2 (nonpath_attrs r)) as [d3 sf3]. reflexivity. }
  unfold link_diags. split.
  - intros H. assert (Hn : dedup_first [] (link_raw r) = []).
    { apply all_errors_nil; [|assumption]. intros d Hd. apply (link_raw_errors r d). eapply dedup_first_In, Hd. }
    apply (proj1 (dedup_first_nil _)) in Hn. rewrite E in Hn.
    apply app_eq_nil in Hn. destruct Hn as [H1 Hn]. apply app_eq_nil in Hn. destruct Hn as [H2 Hn].
    apply app_eq_nil in Hn. tauto.
  - intros (H1 & H2 & H3 & H4). rewrite E, H1, H2, H3, H4. reflexivity.
Qed.

(* ---------------------------------------------------------------- lookups *)

Lemma first_by_value_some v attrs a :
  first_by_value v attrs = Some a -> In a attrs /\ la_value a = v.
Proof.
  unfold first_by_value. intros H. apply find_some in H. destruct H as [H1 H2].
  apply str_eqb_spec in H2. auto.
Qed.

Lemma first_by_value_none v attrs :
  first_by_value v attrs = None <-> ~ In v (map la_value attrs).
Proof.
  unfold first_by_value. induction attrs as [|x t IH]; simpl; [tauto|].
  destruct (str_eqb (la_value x) v) eqn:E.
  - apply str_eqb_spec in E. split; [discriminate | intros H; exfalso; apply H; auto].
  - apply str_eqb_neq in E. rewrite IH. tauto.
Qed.

Lemma first_by_value_app pre a post :
  ~ In (la_value a) (map la_value pre) -> first_by_value (la_value a) (pre ++ a :: post) = Some a.
Proof.
  unfold first_by_value. induction pre as [|x t IH]; simpl; intros H.
  - rewrite str_eqb_refl. reflexivity.
  - destruct (str_eqb (la_value x) (la_value a)) eqn:E.
    + apply str_eqb_spec in E. exfalso. apply H. left; assumption.
    + apply IH. intros Hi. apply H. right; assumption.
Qed.

Lemma find_param_some v r p : find_param v r = Some p -> In p (r_params r) /\ fp_name p = v.
Proof.
  unfold find_param. intros H. apply find_some in H. destruct H as [H1 H2].
  apply str_eqb_spec in H2. auto.
Qed.

Lemma find_param_In v r : In v (fnames r) <-> exists p, find_param v r = Some p.
Proof.
  unfold find_param, fnames. induction (r_params r) as [|x t IH]; simpl.
  - split; [tauto | intros [p H]; discriminate].
  - destruct (str_eqb (fp_name x) v) eqn:E.
    + apply str_eqb_spec in E. split; [intros _; eauto | auto].
    + apply str_eqb_neq in E. rewrite <- IH. tauto.
Qed.

Lemma find_param_nodup r p :
  NoDup (fnames r) -> In p (r_params r) -> find_param (fp_name p) r = Some p.
Proof.
  unfold find_param, fnames. induction (r_params r) as [|x t IH]; simpl; intros Hn Hp; [destruct Hp|].
  inversion Hn as [|? ? Hx Hd]; subst. destruct Hp as [->|Hp].
  - rewrite str_eqb_refl. reflexivity.
  - destruct (str_eqb (fp_name x) (fp_name p)) eqn:E.
    + apply str_eqb_spec in E. exfalso. apply Hx. rewrite E. apply in_map. assumption.
    + apply IH; assumption.
Qed.

Lemma first_param_some name l j p :
  first_param name l = Some (j, p) -> In (j, p) l /\ fp_name p = name.
Proof.
  unfold first_param. intros H. apply find_some in H. destruct H as [H1 H2]. apply str_eqb_spec in H2. auto.
Qed.

Lemma first_param_In name i ps :
  In name (map fp_name ps) -> exists j p, first_param name (index_from i ps) = Some (j, p).
Proof.
  unfold first_param. revert i; induction ps as [|x t IH]; intros i; simpl; [tauto|].
  intros [E|H].
  - rewrite E, str_eqb_refl. eauto.
  - destruct (str_eqb (fp_name x) name); [eauto | apply IH, H].
Qed.

Lemma filter_le1 {A} (f : A -> bool) l x y :
  (List.length (filter f l) <= 1)%nat -> In x l -> In y l -> f x = true -> f y = true -> x = y.
Proof.
  induction l as [|z t IH]; simpl; intros Hl Hx Hy Fx Fy; [destruct Hx|].
  destruct (f z) eqn:Fz; simpl in Hl.
  - assert (Ht : filter f t = []) by (destruct (filter f t); [reflexivity | simpl in Hl; lia]).
    assert (Hno : forall w, In w t -> f w = true -> False).
    { intros w Hw Fw. assert (In w (filter f t)) by (apply filter_In; auto). rewrite Ht in H. destruct H. }
    destruct Hx as [<-|Hx], Hy as [<-|Hy]; try reflexivity; exfalso; eauto.
  - destruct Hx as [<-|Hx]; [congruence|]. destruct Hy as [<-|Hy]; [congruence|]. auto.
Qed.

Lemma filter_nil_iff {A} (f : A -> bool) l : filter f l = [] <-> forall x, In x l -> f x = false.
Proof.
  induction l as [|z t IH]; simpl; [split; [intros _ x [] | reflexivity]|].
  destruct (f z) eqn:Fz.
  - split; [discriminate|]. intros H. rewrite (H z) in Fz; [discriminate | auto].
  - rewrite IH. split; [intros H x [<-|Hx]; auto | intros H x Hx; auto].
Qed.

(* at most one element satisfies f when no element satisfying f is preceded by another one *)
Lemma filter_le1_intro {A} (f : A -> bool) l :
  (forall l1 a l2, l = l1 ++ a :: l2 -> f a = true -> forall b, In b l1 -> f b = false) ->
  (List.length (filter f l) <= 1)%nat.
Proof.
  induction l as [|z t IH] using rev_ind; intros H; simpl; [lia|].
  rewrite filter_app. rewrite app_length. simpl. destruct (f z) eqn:Fz; simpl.
  - assert (Ht : filter f t = []).
    { apply filter_nil_iff. intros x Hx. apply (H t z [] eq_refl Fz x Hx). }
    rewrite Ht. simpl. lia.
  - rewrite Nat.add_0_r. apply IH. intros l1 a l2 E Fa b Hb. subst t.
    apply (H l1 a (l2 ++ [z])); [rewrite <- app_assoc; reflexivity | assumption | assumption].
Qed.

(* ---------------------------------------------------------------- validateParams *)

Definition pi_of (attrs : list lattr) (p : fparam) : list passed :=
  if is_ctx p then []
  else match first_by_value (fp_name p) attrs with
       | Some a => match passed_of (la_kind a) with Some pi => [pi] | None => [] end
       | None => []
       end.

Definition pis (attrs : list lattr) (l : list (nat * fparam)) : list passed :=
  flat_map (fun jp => pi_of attrs (snd jp)) l.

Definition type_diag (j : nat) (p : fparam) (pi : passed) : list diag :=
  match pi with PBody => validate_body_param j p | _ => validate_nonbody_param j p pi end.

Definition bodies (l : list passed) : nat := List.length (filter is_pbody l).
Definition forms (l : list passed) : nat := List.length (filter is_pform l).

Lemma bodies_app a b : bodies (a ++ b) = bodies a + bodies b.
Proof. unfold bodies. rewrite filter_app, app_length. reflexivity. Qed.
Lemma forms_app a b : forms (a ++ b) = forms a + forms b.
Proof. unfold forms. rewrite filter_app, app_length. reflexivity. Qed.

Lemma existsb_count {A} (f : A -> bool) l : existsb f l = false <-> List.length (filter f l) = 0.
Proof.
  induction l as [|x t IH]; simpl; [tauto|]. destruct (f x); simpl; [split; [discriminate | lia] | exact IH].
Qed.

Lemma type_diag_errors j p pi : all_errors (type_diag j p pi).
Proof.
  unfold type_diag, validate_body_param, validate_nonbody_param. destruct pi; ae.
Qed.

Lemma validate_combination_errors pr j pi : all_errors (validate_combination pr j pi).
Proof. unfold validate_combination. destruct pi; ae. Qed.

Lemma params_go_cons attrs processed j p t :
  params_go attrs processed ((j, p) :: t) =
  match pi_of attrs p with
  | [] => if is_ctx p then params_go attrs processed t
          else match first_by_value (fp_name p) attrs with
               | None => params_go attrs processed t
               | Some _ => None
               end
  | pi :: _ =>
      match params_go attrs (processed ++ [pi]) t with
      | None => None
      | Some rest => Some (type_diag j p pi ++ validate_combination processed j pi ++ rest)
      end
  end.
Proof.
  cbn [params_go]. unfold pi_of, type_diag. destruct (is_ctx p); [reflexivity|].
  destruct (first_by_value (fp_name p) attrs) as [a|]; [|reflexivity].
  destruct (passed_of (la_kind a)) as [pi|]; [|reflexivity].
  destruct (params_go attrs (processed ++ [pi]) t); [|reflexivity]. destruct pi; reflexivity.
Qed.

(* what a clean run of validateParams tells *)
Lemma params_go_sound attrs : forall l processed d,
  params_go attrs processed l = Some d -> no_error d = true ->
  (bodies processed <= 1)%nat ->
  (forall j p a, In (j, p) l -> is_ctx p = false -> first_by_value (fp_name p) attrs = Some a ->
     exists pi, passed_of (la_kind a) = Some pi /\ type_diag j p pi = [])
  /\ (bodies (processed ++ pis attrs l) <= 1)%nat.
Proof.
  induction l as [|[j p] t IH]; intros processed d Hgo Hne Hb.
  - split; [intros j p a []|]. simpl. rewrite app_nil_r. assumption.
  - rewrite params_go_cons in Hgo. unfold pis. cbn [flat_map snd]. fold (pis attrs t).
    destruct (pi_of attrs p) as [|pi rest] eqn:Epi.
    + assert (Hskip : params_go attrs processed t = Some d /\
                      (is_ctx p = false -> first_by_value (fp_name p) attrs = None)).
      { destruct (is_ctx p); [split; [assumption | discriminate]|].
        destruct (first_by_value (fp_name p) attrs); [discriminate | auto]. }
      destruct Hskip as [Hgo' Hnone]. destruct (IH processed d Hgo' Hne Hb) as [IH1 IH2].
      split; [|simpl; assumption].
      intros j' p' a [E|Hin] Hc Hf; [|eauto]. inversion E; subst. rewrite (Hnone Hc) in Hf. discriminate.
    + destruct (params_go attrs (processed ++ [pi]) t) as [dt|] eqn:Egt; [|discriminate].
      inversion Hgo; subst d. rewrite !no_error_app in Hne.
      apply andb_true_iff in Hne. destruct Hne as [Ht Hne]. apply andb_true_iff in Hne. destruct Hne as [Hc Hr].
      assert (Ht0 : type_diag j p pi = []) by (apply all_errors_nil; [apply type_diag_errors | assumption]).
      assert (Hc0 : validate_combination processed j pi = [])
        by (apply all_errors_nil; [apply validate_combination_errors | assumption]).
      assert (Hrest : rest = []).
      { unfold pi_of in Epi. destruct (is_ctx p); [discriminate|].
        destruct (first_by_value (fp_name p) attrs) as [a|]; [|discriminate].
        destruct (passed_of (la_kind a)); inversion Epi; reflexivity. }
      subst rest.
      assert (Hb' : (bodies (processed ++ [pi]) <= 1)%nat).
      { rewrite bodies_app. unfold validate_combination in Hc0. destruct pi; unfold bodies at 2; simpl; try lia.
        destruct (existsb is_pbody processed) eqn:Eb; [discriminate|].
        apply existsb_count in Eb. unfold bodies. lia. }
      destruct (IH (processed ++ [pi]) dt Egt Hr Hb') as [IH1 IH2].
      split.
      * intros j' p' a [E|Hin] Hctx Hf; [|eauto]. inversion E; subst j' p'.
        unfold pi_of in Epi. rewrite Hctx, Hf in Epi.
        destruct (passed_of (la_kind a)) as [pi'|]; [|discriminate]. inversion Epi; subst. eauto.
      * rewrite <- app_assoc in IH2. exact IH2.
Qed.

Definition combo_ok (l : list passed) : Prop :=
  (bodies l <= 1)%nat /\ (bodies l = 0 \/ forms l = 0)%nat.

Lemma params_go_complete attrs : forall l processed,
  (forall j p, In (j, p) l -> is_ctx p = false ->
     exists a pi, first_by_value (fp_name p) attrs = Some a /\ passed_of (la_kind a) = Some pi /\ type_diag j p pi = []) ->
  combo_ok (processed ++ pis attrs l) ->
  params_go attrs processed l = Some [].
Proof.
  induction l as [|[j p] t IH]; intros processed H Hc; [reflexivity|].
  rewrite params_go_cons. unfold pis in Hc. cbn [flat_map snd] in Hc. fold (pis attrs t) in Hc.
  destruct (is_ctx p) eqn:Ectx.
  - unfold pi_of in *. rewrite Ectx in *. simpl in Hc. apply IH; [|assumption].
    intros j' p' Hin. apply H. right; assumption.
  - destruct (H j p (or_introl eq_refl) Ectx) as (a & pi & Hf & Hp & Ht).
    assert (Epi : pi_of attrs p = [pi]) by (unfold pi_of; rewrite Ectx, Hf, Hp; reflexivity).
    rewrite Epi in *. rewrite (IH (processed ++ [pi])).
    + rewrite Ht. simpl. rewrite app_nil_r.
      assert (Hv : validate_combination processed j pi = []).
      { destruct Hc as [Hc1 Hc2]. rewrite bodies_app in *. rewrite forms_app in Hc2.
        unfold validate_combination. destruct pi; try reflexivity.
        - destruct (existsb is_pbody processed) eqn:E1.
          + exfalso. assert (bodies processed <> 0) by (unfold bodies; intros E0; apply existsb_count in E0; congruence).
            rewrite bodies_app in Hc1. unfold bodies at 2 in Hc1. simpl in Hc1. lia.
          + destruct (existsb is_pform processed) eqn:E2; [|reflexivity].
            exfalso. assert (forms processed <> 0) by (unfold forms; intros E0; apply existsb_count in E0; congruence).
            rewrite bodies_app in Hc2. unfold bodies at 2 in Hc2. simpl in Hc2. lia.
        - destruct (existsb is_pbody processed) eqn:E1; [|reflexivity].
          exfalso. assert (bodies processed <> 0) by (unfold bodies; intros E0; apply existsb_count in E0; congruence).
          rewrite forms_app in Hc2. unfold forms at 2 in Hc2. simpl in Hc2. lia. }
      rewrite Hv. reflexivity.
    + intros j' p' Hin. apply H. right; assumption.
    + rewrite <- app_assoc. exact Hc.
Qed.

(* ---------------------------------------------------------------- views of the attribute list *)

Lemma filter_indexed {A} (f : A -> bool) i (l : list A) :
  map snd (filter (fun ia => f (snd ia)) (index_from i l)) = filter f l.
Proof.
  revert i; induction l as [|x t IH]; intros i; simpl; [reflexivity|].
  destruct (f x); simpl; rewrite IH; reflexivity.
Qed.

Lemma path_attrs_snd r : map snd (path_attrs r) = attrs_of KPath r.
Proof. unfold path_attrs, attrs_of, indexed. apply filter_indexed. Qed.

Lemma pvalues_map l : pvalues l = map la_value (map snd l).
Proof. unfold pvalues. rewrite map_map. reflexivity. Qed.

Lemma real_aliases_map l : real_aliases l = flat_map real_alias_of (map snd l).
Proof.
  unfold real_aliases. induction l as [|x t IH]; simpl; [reflexivity|]. rewrite IH. reflexivity.
Qed.

Lemma filter_filter {A} (f g : A -> bool) l : filter f (filter g l) = filter (fun x => g x && f x) l.
Proof.
  induction l as [|x t IH]; simpl; [reflexivity|]. destruct (g x); simpl; [destruct (f x)|]; rewrite IH; reflexivity.
Qed.

Lemma find_filter {A} (f : A -> bool) l : find f l = hd_error (filter f l).
Proof. induction l as [|x t IH]; simpl; [reflexivity|]. destruct (f x); [reflexivity | exact IH]. Qed.

Lemma nonpath_attrs_In r a :
  In a (r_attrs r) -> is_nonpath_kind (la_kind a) = true -> is_blank (la_value a) = false ->
  In (la_value a) (pvalues (nonpath_attrs r)).
Proof.
  intros Hin Hk Hb. destruct (In_index_from 0 _ _ Hin) as [i Hi].
  unfold pvalues. apply in_map_iff. exists (i, a). split; [reflexivity|].
  unfold nonpath_attrs. apply filter_In. split; [exact Hi|]. simpl. rewrite Hk, Hb. reflexivity.
Qed.

Lemma nonpath_attrs_inv r v :
  In v (pvalues (nonpath_attrs r)) ->
  exists a, In a (r_attrs r) /\ la_value a = v /\ is_nonpath_kind (la_kind a) = true /\ is_blank v = false.
Proof.
  unfold pvalues. intros H. apply in_map_iff in H. destruct H as [[i a] [E H]]. simpl in E. subst v.
  unfold nonpath_attrs in H. apply filter_In in H. destruct H as [H1 H2]. simpl in H2.
  apply andb_true_iff in H2. destruct H2 as [H2 H3]. apply negb_true_iff in H3.
  exists a. repeat split; auto. eapply index_from_In, H1.
Qed.

Lemma attrs_of_In k r a : In a (attrs_of k r) <-> In a (r_attrs r) /\ la_kind a = k.
Proof. unfold attrs_of. rewrite filter_In, kind_is_spec. tauto. Qed.

Lemma param_attrs_In r a : In a (param_attrs r) <-> In a (r_attrs r) /\ is_param_kind (la_kind a) = true.
Proof. unfold param_attrs. rewrite filter_In. tauto. Qed.

Lemma path_pvalues r : pvalues (path_attrs r) = map la_value (attrs_of KPath r).
Proof. rewrite pvalues_map, path_attrs_snd. reflexivity. Qed.

(* exactly one @Route: the link validator and the outputs read the same template *)
Lemma single_route r a :
  attrs_of KRoute r = [a] -> link_url r = template_names (la_value a) /\ the_route r = la_value a.
Proof.
  intros H. split.
  - unfold link_url, link_route.
    assert (E : map snd (filter (fun ia => kind_is KRoute (snd ia)) (indexed (r_attrs r))) = [a]).
    { unfold indexed. rewrite filter_indexed. exact H. }
    destruct (filter (fun ia => kind_is KRoute (snd ia)) (indexed (r_attrs r))) as [|[i b] [|y t]]; try discriminate.
    simpl in E. inversion E; subst. simpl. apply extract_url_params_spec.
  - unfold the_route, first_value. rewrite find_filter. unfold attrs_of in H. rewrite H. reflexivity.
Qed.

Lemma template_names_slash t : template_names (x2f :: t) = template_names t.
Proof. reflexivity. Qed.

Lemma full_template_names r :
  has_brace (r_prefix r) = false -> template_names (full_template r) = template_names (the_route r).
Proof.
  intros H. unfold full_template. rewrite template_names_no_brace by assumption. apply template_names_slash.
Qed.

Lemma nodup_name_eq ps p p' :
  NoDup (map fp_name ps) -> In p ps -> In p' ps -> fp_name p = fp_name p' -> p = p'.
Proof.
  induction ps as [|x t IH]; simpl; intros Hn Hp Hp' E; [destruct Hp|].
  inversion Hn as [|? ? Hx Hd]; subst.
  destruct Hp as [->|Hp], Hp' as [->|Hp']; auto.
  - exfalso. apply Hx. rewrite E. apply in_map; assumption.
  - exfalso. apply Hx. rewrite <- E. apply in_map; assumption.
Qed.

Lemma pis_index attrs i l : pis attrs (index_from i l) = flat_map (pi_of attrs) l.
Proof.
  revert i; induction l as [|x t IH]; intros i; simpl; [reflexivity|]. unfold pis in *. simpl. rewrite IH. reflexivity.
Qed.

Lemma bodies_flat_one attrs l x :
  In x l -> pi_of attrs x = [PBody] -> (1 <= bodies (flat_map (pi_of attrs) l))%nat.
Proof.
  intros Hin E. apply in_split in Hin. destruct Hin as [l1 [l2 ->]].
  rewrite flat_map_app. simpl. rewrite E. rewrite bodies_app. simpl. unfold bodies at 2. simpl. lia.
Qed.

Lemma bodies_flat_two attrs l x y :
  In x l -> In y l -> x <> y -> pi_of attrs x = [PBody] -> pi_of attrs y = [PBody] ->
  (2 <= bodies (flat_map (pi_of attrs) l))%nat.
Proof.
  intros Hx Hy Hne Ex Ey. apply in_split in Hx. destruct Hx as [l1 [l2 ->]].
  rewrite flat_map_app. simpl. rewrite Ex. rewrite bodies_app. simpl.
  assert (Hy' : In y l1 \/ In y l2).
  { apply in_app_or in Hy. destruct Hy as [Hy|[Hy|Hy]]; auto. congruence. }
  rewrite bodies_app. unfold bodies at 2. simpl.
  destruct Hy' as [Hy'|Hy'].
  - pose proof (bodies_flat_one attrs l1 y Hy' Ey). lia.
  - pose proof (bodies_flat_one attrs l2 y Hy' Ey). lia.
Qed.
