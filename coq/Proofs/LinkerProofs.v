(* Proofs about Model/Linker.v (C10). *)
From Gleece Require Import Base.Bytes Model.Annot Model.Linker.
From Coq Require Import String.
Open Scope list_scope.

(* ---------------------------------------------------------------- basic reflections *)

Lemma smem_In x l : smem x l = true <-> In x l.
Proof. unfold smem. apply mem_spec. apply str_eqb_spec. Qed.

Lemma smem_false x l : smem x l = false <-> ~ In x l.
Proof.
  rewrite <- smem_In. destruct (smem x l); split; intros H; try discriminate; auto.
  exfalso; apply H; reflexivity.
Qed.

Lemma akind_eqb_spec a b : akind_eqb a b = true <-> a = b.
Proof.
  unfold akind_eqb. rewrite Nat.eqb_eq. split; [|intros ->; reflexivity].
  destruct a, b; simpl; intros H; try reflexivity; discriminate.
Qed.

Lemma akind_eqb_refl a : akind_eqb a a = true.
Proof. apply akind_eqb_spec; reflexivity. Qed.

Lemma kind_is_spec k a : kind_is k a = true <-> la_kind a = k.
Proof. unfold kind_is. rewrite akind_eqb_spec. split; congruence. Qed.

Lemma nodupb_spec l : nodupb l = true <-> NoDup l.
Proof.
  induction l as [|x t IH]; simpl.
  - split; [constructor | reflexivity].
  - rewrite andb_true_iff, negb_true_iff, smem_false, IH. split.
    + intros [H1 H2]; constructor; assumption.
    + intros H; inversion H; subst; split; assumption.
Qed.

Lemma subsetb_spec a b : subsetb a b = true <-> incl a b.
Proof.
  unfold subsetb, incl. rewrite forallb_forall. split; intros H x Hx.
  - apply smem_In, H, Hx.
  - apply smem_In, H, Hx.
Qed.

Lemma is_nil_spec {A} (l : list A) : is_nil l = true <-> l = [].
Proof. destruct l; simpl; split; congruence. Qed.

Lemma is_nil_false {A} (l : list A) : is_nil l = false <-> l <> [].
Proof. destruct l; simpl; split; congruence. Qed.

Lemma no_error_app a b : no_error (a ++ b) = no_error a && no_error b.
Proof. unfold no_error. rewrite existsb_app, negb_orb. reflexivity. Qed.

Lemma no_error_nil : no_error [] = true.
Proof. reflexivity. Qed.

Lemma no_error_In l : no_error l = true <-> forall d, In d l -> is_error d = false.
Proof.
  unfold no_error. rewrite negb_true_iff. split.
  - intros H d Hd. destruct (is_error d) eqn:E; [|reflexivity].
    assert (existsb is_error l = true) by (apply existsb_exists; eauto). congruence.
  - intros H. destruct (existsb is_error l) eqn:E; [|reflexivity].
    apply existsb_exists in E. destruct E as [d [Hd He]]. rewrite (H d Hd) in He. discriminate.
Qed.

(* a list of error diagnostics without errors is empty *)
Definition all_errors (l : list diag) : Prop := forall d, In d l -> is_error d = true.

Lemma all_errors_nil l : all_errors l -> no_error l = true -> l = [].
Proof.
  intros Ha Hn. destruct l as [|d t]; [reflexivity|].
  rewrite no_error_In in Hn. specialize (Ha d (or_introl eq_refl)). specialize (Hn d (or_introl eq_refl)).
  congruence.
Qed.

Lemma all_errors_app a b : all_errors a -> all_errors b -> all_errors (a ++ b).
Proof. intros Ha Hb d Hd. apply in_app_or in Hd. destruct Hd; auto. Qed.

Lemma all_errors_nil' : all_errors [].
Proof. intros d []. Qed.

Lemma all_errors_one c an : all_errors [err c an].
Proof. intros d [<-|[]]. reflexivity. Qed.

Lemma all_errors_if (b : bool) l : all_errors l -> all_errors (if b then l else []).
Proof. destruct b; [auto | intros; apply all_errors_nil']. Qed.

Lemma all_errors_if' (b : bool) l : all_errors l -> all_errors (if b then [] else l).
Proof. destruct b; [intros; apply all_errors_nil' | auto]. Qed.

(* index_from *)
Lemma index_from_app {A} i (a b : list A) :
  index_from i (a ++ b) = index_from i a ++ index_from (i + List.length a) b.
Proof.
  revert i; induction a as [|x a IH]; intros i; simpl.
  - rewrite Nat.add_0_r. reflexivity.
  - rewrite IH. replace (i + S (List.length a)) with (S i + List.length a) by lia. reflexivity.
Qed.

Lemma index_from_snd {A} i (l : list A) : map snd (index_from i l) = l.
Proof. revert i; induction l as [|x l IH]; intros i; simpl; [reflexivity | rewrite IH; reflexivity]. Qed.

Lemma index_from_In {A} i (l : list A) j x : In (j, x) (index_from i l) -> In x l.
Proof.
  intros H. rewrite <- (index_from_snd i l). apply in_map_iff. exists (j, x). split; [reflexivity | assumption].
Qed.

Lemma In_index_from {A} i (l : list A) x : In x l -> exists j, In (j, x) (index_from i l).
Proof.
  revert i; induction l as [|y l IH]; intros i H; [destruct H|].
  destruct H as [->|H]; simpl.
  - exists i; left; reflexivity.
  - destruct (IH (S i) H) as [j Hj]. exists j; right; assumption.
Qed.

(* ---------------------------------------------------------------- {names}: the two scanners agree *)

Lemma template_names_cons c t :
  template_names (c :: t) =
  (if beqb c c_lb then match take_name t with Some n => [n] | None => [] end else []) ++ template_names t.
Proof. reflexivity. Qed.

Lemma lb_ne_rb : beqb c_lb c_rb = false.
Proof. reflexivity. Qed.

Lemma rb_ne_lb : beqb c_rb c_lb = false.
Proof. reflexivity. Qed.

Lemma eup_both t :
  eup None t = template_names t
  /\ forall acc, eup (Some acc) t =
       (match take_name t with Some n => [rev acc ++ n] | None => [] end) ++ template_names t.
Proof.
  induction t as [|c t [IHn IHs]].
  - split; [reflexivity | intros acc; reflexivity].
  - split.
    + cbn [eup template_names]. unfold str in *. destruct (beqb c c_lb) eqn:E1.
      * rewrite (IHs []). destruct (take_name t); reflexivity.
      * destruct (beqb c c_rb); simpl; apply IHn.
    + intros acc. cbn [eup template_names take_name]. unfold str in *. destruct (beqb c c_lb) eqn:E1.
      * apply beqb_spec in E1; subst c. rewrite lb_ne_rb. rewrite (IHs []).
        destruct (take_name t); reflexivity.
      * destruct (beqb c c_rb) eqn:E2.
        -- rewrite IHn. simpl. rewrite app_nil_r. reflexivity.
        -- rewrite (IHs (c :: acc)). destruct (take_name t) as [n|]; simpl; [|reflexivity].
           rewrite <- app_assoc. reflexivity.
Qed.

(* extractUrlParams computes the {names} of the property text *)
Lemma extract_url_params_spec t : extract_url_params t = template_names t.
Proof. apply eup_both. Qed.

Lemma template_names_no_brace p t :
  has_brace p = false -> template_names (p ++ t) = template_names t.
Proof.
  induction p as [|c p IH]; simpl; intros H; [reflexivity|].
  apply orb_false_iff in H. destruct H as [H1 H2]. apply orb_false_iff in H1. destruct H1 as [H1 _].
  rewrite H1. simpl. apply IH, H2.
Qed.

(* ---------------------------------------------------------------- CommonValidator *)

Definition all_known (l : list lattr) : Prop := forall a, In a l -> la_kind a <> KUnknown.

(* when attribute [a], preceded by [pre], gets no error-severity diagnostic *)
Definition attr_ok (pre : list lattr) (a : lattr) : Prop :=
  (la_kind a <> KHidden -> la_value a <> [])
  /\ (la_kind a = KBody -> ~ In KForm (map la_kind pre))
  /\ (la_kind a = KForm -> ~ In KBody (map la_kind pre))
  /\ (is_param_kind (la_kind a) = true -> ~ In (la_value a) (map la_value pre))
  /\ (la_kind a = KMethod -> In (la_value a) supported_verbs).

Fixpoint attrs_ok (pre l : list lattr) : Prop :=
  match l with
  | [] => True
  | a :: t => attr_ok pre a /\ attrs_ok (pre ++ [a]) t
  end.

Lemma attrs_ok_split pre l :
  attrs_ok pre l <-> forall l1 a l2, l = l1 ++ a :: l2 -> attr_ok (pre ++ l1) a.
Proof.
  revert pre; induction l as [|x t IH]; intros pre; simpl.
  - split; [|auto]. intros _ l1 a l2 H. destruct l1; discriminate.
  - rewrite IH. split.
    + intros [H0 H] l1 a l2 E. destruct l1 as [|y l1]; simpl in E; inversion E; subst.
      * rewrite app_nil_r. assumption.
      * specialize (H l1 a l2 eq_refl). rewrite <- app_assoc in H. exact H.
    + intros H. split.
      * specialize (H [] x t eq_refl). rewrite app_nil_r in H. exact H.
      * intros l1 a l2 E. subst t. specialize (H (x :: l1) a l2 eq_refl).
        rewrite <- app_assoc. exact H.
Qed.

Lemma count_kind_pos k seen : Nat.ltb 0 (count_kind k seen) = true <-> In k seen.
Proof.
  unfold count_kind. rewrite Nat.ltb_lt. induction seen as [|x t IH]; simpl.
  - split; [lia | tauto].
  - destruct (akind_eqb k x) eqn:E; simpl.
    + apply akind_eqb_spec in E; subst. split; [auto | lia].
    + rewrite IH. split; [auto|]. intros [->|H]; [|assumption].
      rewrite akind_eqb_refl in E; discriminate.
Qed.

Lemma count_kind_pos_false k seen : Nat.ltb 0 (count_kind k seen) = false <-> ~ In k seen.
Proof.
  rewrite <- count_kind_pos. destruct (Nat.ltb 0 (count_kind k seen)); split; intros H; try discriminate; auto.
  exfalso; apply H; reflexivity.
Qed.

Lemma verb_diags_ok i v : no_error (verb_diags i v) = true <-> In v supported_verbs.
Proof.
  unfold verb_diags. destruct (smem v supported_verbs) eqn:E.
  - apply smem_In in E. split; auto.
  - apply smem_false in E. destruct (smem v other_http_verbs); simpl; split; intros H; try discriminate; contradiction.
Qed.

Lemma no_error_if_err (c : bool) x y : no_error (if c then [err x y] else []) = negb c.
Proof. destruct c; reflexivity. Qed.

Lemma no_error_if_warn (c : bool) x y : no_error (if c then [warn x y] else []) = true.
Proof. destruct c; reflexivity. Qed.

Lemma verb_diags_b i v : no_error (verb_diags i v) = smem v supported_verbs.
Proof.
  unfold verb_diags. destruct (smem v supported_verbs); [reflexivity|].
  destruct (smem v other_http_verbs); reflexivity.
Qed.

(* the error-relevant part of validateAnnotation, without positions *)
Definition attr_okb (seen : list akind) (uniq : list str) (a : lattr) : bool :=
  match rule_of (la_kind a) with
  | None => false
  | Some ru =>
      negb (ru_requires_value ru && is_nil (la_value a))
      && negb (existsb (fun k => Nat.ltb 0 (count_kind k seen)) (ru_mutex ru))
      && negb (ru_unique ru && negb (is_nil (la_value a)) && smem (la_value a) uniq)
      && match la_kind a with KMethod => smem (la_value a) supported_verbs | _ => true end
  end.

Lemma common_attr_okb seen uniq i a : no_error (common_attr seen uniq i a) = attr_okb seen uniq a.
Proof.
  unfold common_attr, attr_okb. destruct (rule_of (la_kind a)) as [ru|]; [|reflexivity].
  rewrite !no_error_app, !no_error_if_err, no_error_if_warn.
  assert (E : no_error (props_diags i a (ru_props ru)) = true).
  { unfold props_diags. destruct (la_alias a), (la_xprop a), (ru_props ru); reflexivity. }
  rewrite E.
  destruct (la_kind a); rewrite ?verb_diags_b; simpl; rewrite ?andb_true_r, ?andb_assoc; reflexivity.
Qed.

Lemma ne_imp (k : akind) (P : Prop) : k <> KHidden -> ((k <> KHidden -> P) <-> P).
Proof. tauto. Qed.

Lemma common_attr_ok pre seen uniq i a :
  la_kind a <> KUnknown ->
  (forall k, In k seen <-> In k (map la_kind pre)) ->
  (forall v, In v uniq <-> In v (map la_value pre)) ->
  (no_error (common_attr (la_kind a :: seen) uniq i a) = true <-> attr_ok pre a).
Proof.
  intros Hk Hseen Huniq. rewrite common_attr_okb. unfold attr_ok, attr_okb.
  assert (Hm : forall k, k <> la_kind a ->
             (negb (Nat.ltb 0 (count_kind k (la_kind a :: seen))) = true <-> ~ In k (map la_kind pre))).
  { intros k Hne. rewrite negb_true_iff, count_kind_pos_false. simpl. rewrite Hseen. split.
    - intros H H'. apply H. right; assumption.
    - intros H [E|H']; [congruence | contradiction]. }
  assert (Hu : negb (smem (la_value a) uniq) = true <-> ~ In (la_value a) (map la_value pre)).
  { rewrite negb_true_iff, smem_false, Huniq. tauto. }
  assert (Hv : negb (is_nil (la_value a)) = true <-> la_value a <> []).
  { rewrite negb_true_iff. apply is_nil_false. }
  destruct (la_kind a) eqn:K; try congruence;
    cbn [rule_of ru_requires_value ru_allows_multiple ru_unique ru_mutex ru_props existsb is_param_kind andb orb negb];
    rewrite ?orb_false_r, ?andb_true_r, ?andb_true_iff; try (rewrite ne_imp by discriminate).
  - (* Method *) rewrite Hv, smem_In. split.
    + intros [H1 H2]. repeat split; try discriminate; auto.
    + intros (H1 & _ & _ & _ & H5). split; auto.
  - (* Route *) rewrite Hv. split.
    + intros H1. repeat split; try discriminate; auto.
    + intros (H1 & _). auto.
  - (* Path *) destruct (is_nil (la_value a)) eqn:Ev; simpl.
    + apply is_nil_spec in Ev. split; [intros [H _]; discriminate | intros [H _]; congruence].
    + apply is_nil_false in Ev. rewrite Hu. split.
      * intros [_ H]. repeat split; try discriminate; auto.
      * intros (_ & _ & _ & H & _). split; auto.
  - (* Query *) destruct (is_nil (la_value a)) eqn:Ev; simpl.
    + apply is_nil_spec in Ev. split; [intros [H _]; discriminate | intros [H _]; congruence].
    + apply is_nil_false in Ev. rewrite Hu. split.
      * intros [_ H]. repeat split; try discriminate; auto.
      * intros (_ & _ & _ & H & _). split; auto.
  - (* Header *) destruct (is_nil (la_value a)) eqn:Ev; simpl.
    + apply is_nil_spec in Ev. split; [intros [H _]; discriminate | intros [H _]; congruence].
    + apply is_nil_false in Ev. rewrite Hu. split.
      * intros [_ H]. repeat split; try discriminate; auto.
      * intros (_ & _ & _ & H & _). split; auto.
  - (* Form *) rewrite (Hm KBody) by discriminate.
    destruct (is_nil (la_value a)) eqn:Ev; simpl.
    + apply is_nil_spec in Ev. split; [intros [[H _] _]; discriminate | intros [H _]; congruence].
    + apply is_nil_false in Ev. rewrite Hu. split.
      * intros [[_ H2] H3]. repeat split; try discriminate; auto.
      * intros (_ & _ & H3 & H4 & _). repeat split; auto.
  - (* Body *) rewrite (Hm KForm) by discriminate.
    destruct (is_nil (la_value a)) eqn:Ev; simpl.
    + apply is_nil_spec in Ev. split; [intros [[H _] _]; discriminate | intros [H _]; congruence].
    + apply is_nil_false in Ev. rewrite Hu. split.
      * intros [[_ H2] H3]. repeat split; try discriminate; auto.
      * intros (_ & H2 & _ & H4 & _). repeat split; auto.
  - (* Security *) rewrite Hv. split.
    + intros H1. repeat split; try discriminate; auto.
    + intros (H1 & _). auto.
  - (* Hidden *) split; [|reflexivity]. intros _. repeat split; try discriminate. congruence.
Qed.

Lemma rule_of_known k : k <> KUnknown -> exists ru, rule_of k = Some ru.
Proof. destruct k; intros H; try congruence; eexists; reflexivity. Qed.

Lemma common_go_ok : forall l pre seen uniq i,
  all_known (pre ++ l) ->
  (forall k, In k seen <-> In k (map la_kind pre)) ->
  (forall v, In v uniq <-> In v (map la_value pre)) ->
  (no_error (common_go seen uniq (index_from i l)) = true <-> attrs_ok pre l).
Proof.
  induction l as [|a t IH]; intros pre seen uniq i Hk Hs Hu; simpl.
  - split; auto.
  - assert (Ka : la_kind a <> KUnknown) by (apply Hk; apply in_or_app; right; left; reflexivity).
    destruct (rule_of_known _ Ka) as [ru Eru]. rewrite Eru.
    rewrite no_error_app, andb_true_iff.
    rewrite (common_attr_ok pre seen uniq i a Ka Hs Hu).
    rewrite (IH (pre ++ [a]) (la_kind a :: seen) (la_value a :: uniq) (S i)).
    + tauto.
    + rewrite <- app_assoc. exact Hk.
    + intros k. rewrite map_app, in_app_iff. simpl. rewrite Hs. tauto.
    + intros v. rewrite map_app, in_app_iff. simpl. rewrite Hu. tauto.
Qed.

Lemma common_diags_ok r :
  all_known (r_attrs r) -> (no_error (common_diags r) = true <-> attrs_ok [] (r_attrs r)).
Proof.
  intros Hk. unfold common_diags, indexed. apply common_go_ok; simpl; auto; tauto.
Qed.

(* ---------------------------------------------------------------- AnnotationLinkValidator *)

Lemma url_go_errors ri referenced : forall url witnessed, all_errors (url_go ri referenced witnessed url).
Proof.
  induction url as [|u t IH]; intros w; simpl; [apply all_errors_nil'|].
  repeat apply all_errors_app; auto.
  - apply all_errors_if, all_errors_one.
  - apply all_errors_if', all_errors_one.
Qed.

Lemma url_go_nil ri referenced : forall url witnessed,
  url_go ri referenced witnessed url = [] <->
  (forall u, In u url -> In u referenced) /\ NoDup url /\ (forall u, In u url -> ~ In u witnessed).
Proof.
  induction url as [|u t IH]; intros w; simpl.
  - split; [intros _; repeat split; [tauto | constructor | tauto] | reflexivity].
  - destruct (smem u w) eqn:Ew.
    + apply smem_In in Ew. simpl. split; [discriminate|].
      intros (_ & _ & H). exfalso. apply (H u); auto.
    + apply smem_false in Ew. simpl. destruct (smem u referenced) eqn:Er.
      * apply smem_In in Er. simpl. rewrite IH. split.
        -- intros (H1 & H2 & H3). repeat split.
           ++ intros x [<-|Hx]; auto.
           ++ constructor; [|assumption]. intros Hu. apply (H3 u Hu). left; reflexivity.
           ++ intros x [<-|Hx]; [assumption|]. intros Hw. apply (H3 x Hx). right; assumption.
        -- intros (H1 & H2 & H3). inversion H2; subst. repeat split; auto.
           intros x Hx [<-|Hw]; [contradiction|]. apply (H3 x); auto.
      * apply smem_false in Er. simpl. split; [discriminate|].
        intros (H & _). exfalso. apply Er, H. left; reflexivity.
Qed.

Definition real_aliases (l : list (nat * lattr)) : list str :=
  flat_map (fun ia => match la_alias (snd ia) with AStr (c :: x) => [c :: x] | _ => [] end) l.

Definition pvalues (l : list (nat * lattr)) : list str := map (fun ia => la_value (snd ia)) l.

Lemma all_errors_cons c an l : all_errors l -> all_errors (err c an :: l).
Proof. intros H d [<-|Hd]; [reflexivity | auto]. Qed.

Ltac ae :=
  repeat first [ assumption | apply all_errors_nil' | apply all_errors_one | apply all_errors_cons
               | apply all_errors_app
               | match goal with |- all_errors (if ?c then _ else _) => destruct c end ].

Lemma pass2_go_errors fn url : forall l sF sR sA, all_errors (fst (pass2_go fn url sF sR sA l)).
Proof.
  induction l as [|[i a] t IH]; intros sF sR sA; simpl; [apply all_errors_nil'|].
  destruct (la_alias a) as [|x|]; [|destruct (is_nil x)|];
    match goal with |- context [pass2_go fn url ?f ?r ?s t] => specialize (IH f r s); destruct (pass2_go fn url f r s t) end;
    simpl in *; ae.
Qed.

Definition p2_d1 (fn sF : list str) (i : nat) (a : lattr) : list diag :=
  if smem (la_value a) fn then (if smem (la_value a) sF then [err CMultipleParamRefs (AnValue i)] else [])
  else [err CPathInvalidRef (AnValue i)].
Definition p2_d2 (sR : list str) (i : nat) (a : lattr) : list diag :=
  if smem (la_value a) sR then [err CDuplicatePathParam (AnComment i)] else [].
Definition p2_d3 (url sA : list str) (i : nat) (a : lattr) : list diag :=
  match la_alias a with
  | ANonStr => [err CPropInvalidValue (AnProps i)]
  | AStr x => if is_nil x then []
              else (if smem x sA then [err CDuplicatePathAliasRef (AnComment i)] else [])
                   ++ (if smem x url then [] else [err CPathInvalidRef (AnComment i)])
  | ANone => []
  end.
Definition p2_sF (fn sF : list str) (a : lattr) := if smem (la_value a) fn then la_value a :: sF else sF.
Definition p2_sR (sR : list str) (a : lattr) := if smem (la_value a) sR then sR else la_value a :: sR.
Definition p2_sA (sA : list str) (a : lattr) :=
  match la_alias a with
  | AStr x => if is_nil x then sA else if smem x sA then sA else x :: sA
  | _ => sA
  end.

Lemma pass2_go_cons fn url sF sR sA i a t :
  pass2_go fn url sF sR sA ((i, a) :: t) =
  (p2_d1 fn sF i a ++ p2_d2 sR i a ++ p2_d3 url sA i a
     ++ fst (pass2_go fn url (p2_sF fn sF a) (p2_sR sR a) (p2_sA sA a) t),
   snd (pass2_go fn url (p2_sF fn sF a) (p2_sR sR a) (p2_sA sA a) t)).
Proof.
  cbn [pass2_go]. unfold p2_d1, p2_d2, p2_d3, p2_sF, p2_sR, p2_sA.
  destruct (la_alias a) as [|x|]; [|destruct (is_nil x)|];
    match goal with |- context [pass2_go fn url ?f ?r ?s t] => destruct (pass2_go fn url f r s t) end; reflexivity.
Qed.

Lemma pass2_snd fn url : forall l sF sR sA v,
  In v (snd (pass2_go fn url sF sR sA l)) <-> In v sF \/ (In v (pvalues l) /\ In v fn).
Proof.
  induction l as [|[i a] t IH]; intros sF sR sA v.
  - simpl. tauto.
  - rewrite pass2_go_cons. cbn [snd]. rewrite IH. unfold p2_sF, pvalues. cbn [map snd In].
    destruct (smem (la_value a) fn) eqn:E.
    + apply smem_In in E. simpl. split.
      * intros [[<-|H]|[H1 H2]]; auto.
      * intros [H|[[<-|H1] H2]]; auto.
    + apply smem_false in E. split.
      * intros [H|[H1 H2]]; auto.
      * intros [H|[[<-|H1] H2]]; auto. contradiction.
Qed.

Lemma p2_d1_nil fn sF i a : p2_d1 fn sF i a = [] <-> In (la_value a) fn /\ ~ In (la_value a) sF.
Proof.
  unfold p2_d1. destruct (smem (la_value a) fn) eqn:E1.
  - apply smem_In in E1. destruct (smem (la_value a) sF) eqn:E2.
    + apply smem_In in E2. split; [discriminate | tauto].
    + apply smem_false in E2. tauto.
  - apply smem_false in E1. split; [discriminate | tauto].
Qed.

Lemma p2_d2_nil sR i a : p2_d2 sR i a = [] <-> ~ In (la_value a) sR.
Proof.
  unfold p2_d2. destruct (smem (la_value a) sR) eqn:E.
  - apply smem_In in E. split; [discriminate | tauto].
  - apply smem_false in E. tauto.
Qed.

Definition real_alias_of (a : lattr) : list str :=
  match la_alias a with AStr (c :: x) => [c :: x] | _ => [] end.

Lemma p2_d3_nil url sA i a :
  p2_d3 url sA i a = [] <->
  la_alias a <> ANonStr /\ (forall x, In x (real_alias_of a) -> ~ In x sA /\ In x url).
Proof.
  unfold p2_d3, real_alias_of. destruct (la_alias a) as [|x|].
  - split; [intros _; split; [discriminate | intros x []] | reflexivity].
  - destruct x as [|c x]; simpl.
    + split; [intros _; split; [discriminate | intros x []] | reflexivity].
    + destruct (smem (c :: x) sA) eqn:E1.
      * apply smem_In in E1. split; [discriminate|]. intros [_ H]. destruct (H (c :: x)); [left; reflexivity | contradiction].
      * apply smem_false in E1. destruct (smem (c :: x) url) eqn:E2.
        -- apply smem_In in E2. simpl. split; [|reflexivity]. intros _. split; [discriminate|].
           intros y [<-|[]]. split; assumption.
        -- apply smem_false in E2. simpl. split; [discriminate|]. intros [_ H].
           destruct (H (c :: x)); [left; reflexivity | contradiction].
  - split; [discriminate | intros [H _]; congruence].
Qed.

Lemma p2_sA_In sA a x : ~ (exists y, In y (real_alias_of a) /\ In y sA) ->
  (In x (p2_sA sA a) <-> In x (real_alias_of a) \/ In x sA).
Proof.
  unfold p2_sA, real_alias_of. intros Hn. destruct (la_alias a) as [|y|]; [simpl; tauto| |simpl; tauto].
  destruct y as [|c y]; simpl; [tauto|].
  destruct (smem (c :: y) sA) eqn:E.
  - apply smem_In in E. exfalso. apply Hn. exists (c :: y). split; [left; reflexivity | assumption].
  - simpl. tauto.
Qed.

Lemma real_aliases_cons i a t : real_aliases ((i, a) :: t) = real_alias_of a ++ real_aliases t.
Proof. reflexivity. Qed.

Lemma NoDup_app_iff {A} (l1 l2 : list A) :
  NoDup (l1 ++ l2) <-> NoDup l1 /\ NoDup l2 /\ (forall x, In x l1 -> In x l2 -> False).
Proof.
  induction l1 as [|a l1 IH]; simpl.
  - split; [intros H; repeat split; [constructor | assumption | tauto] | tauto].
  - split.
    + intros H. inversion H as [|? ? Hn Hd]; subst. apply IH in Hd. destruct Hd as (H1 & H2 & H3).
      repeat split; auto.
      * constructor; [|assumption]. intros Hi. apply Hn, in_or_app. left; assumption.
      * intros x [<-|Hx] Hx2; [apply Hn, in_or_app; right; assumption | eauto].
    + intros (H1 & H2 & H3). inversion H1 as [|? ? Hn Hd]; subst. constructor.
      * intros Hi. apply in_app_or in Hi. destruct Hi as [Hi|Hi]; [contradiction | apply (H3 a); auto].
      * apply IH. repeat split; auto. intros x Hx. apply H3. right; assumption.
Qed.

Lemma pass2_nil fn url : forall l sF sR sA,
  incl sF sR ->
  (fst (pass2_go fn url sF sR sA l) = [] <->
   (forall v, In v (pvalues l) -> In v fn)
   /\ NoDup (pvalues l) /\ (forall v, In v (pvalues l) -> ~ In v sR)
   /\ (forall ia, In ia l -> la_alias (snd ia) <> ANonStr)
   /\ NoDup (real_aliases l) /\ (forall x, In x (real_aliases l) -> ~ In x sA /\ In x url)).
Proof.
  induction l as [|[i a] t IH]; intros sF sR sA Hincl.
  - simpl. split; [|reflexivity]. intros _. repeat split; try constructor; simpl; tauto.
  - rewrite pass2_go_cons. cbn [fst].
    split.
    + intros H. apply app_eq_nil in H. destruct H as [H1 H]. apply app_eq_nil in H. destruct H as [H2 H].
      apply app_eq_nil in H. destruct H as [H3 H4].
      apply p2_d1_nil in H1. destruct H1 as [H1 H1']. apply p2_d2_nil in H2. apply p2_d3_nil in H3. destruct H3 as [H3 H3'].
      unfold p2_sF, p2_sR in H4.
      assert (E1 : smem (la_value a) fn = true) by (apply smem_In; assumption).
      assert (E2 : smem (la_value a) sR = false) by (apply smem_false; assumption).
      rewrite E1, E2 in H4.
      apply IH in H4; [|intros z [<-|Hz]; [left; reflexivity | right; apply Hincl, Hz]].
      destruct H4 as (G1 & G2 & G3 & G4 & G5 & G6).
      assert (Hdisj : ~ (exists y, In y (real_alias_of a) /\ In y sA)).
      { intros [y [Hy1 Hy2]]. destruct (H3' y Hy1). contradiction. }
      unfold pvalues in *. cbn [map snd]. repeat split.
      * intros v [<-|Hv]; auto.
      * constructor; [|assumption]. intros Hv. apply (G3 _ Hv). left; reflexivity.
      * intros v [<-|Hv]; [assumption|]. intros Hs. apply (G3 v Hv). right; assumption.
      * intros ia [<-|Hia]; [assumption | auto].
      * rewrite real_aliases_cons. apply NoDup_app_iff. repeat split; auto.
        -- unfold real_alias_of. destruct (la_alias a) as [|[|c y]|]; repeat constructor; simpl; tauto.
        -- intros x Hx1 Hx2. destruct (G6 x Hx2) as [Hn _]. apply Hn. apply p2_sA_In; auto.
      * rewrite real_aliases_cons in H. apply in_app_or in H. destruct H as [H|H]; [apply H3', H|].
        destruct (G6 x H) as [Hn _]. intros Hs. apply Hn. apply p2_sA_In; auto.
      * rewrite real_aliases_cons in H. apply in_app_or in H. destruct H as [H|H]; [apply H3', H | apply G6, H].
    + intros (G1 & G2 & G3 & G4 & G5 & G6). unfold pvalues in *. cbn [map snd] in *.
      inversion G2 as [|? ? Hnot Hnd]; subst.
      rewrite real_aliases_cons in G5, G6.
      assert (H1 : p2_d1 fn sF i a = []).
      { apply p2_d1_nil. split; [apply G1; left; reflexivity|]. intros Hs. apply (G3 (la_value a)); [left; reflexivity | apply Hincl, Hs]. }
      assert (H2 : p2_d2 sR i a = []) by (apply p2_d2_nil, G3; left; reflexivity).
      assert (H3 : p2_d3 url sA i a = []).
      { apply p2_d3_nil. split; [apply (G4 (i, a)); left; reflexivity|]. intros x Hx. apply G6, in_or_app; left; assumption. }
      rewrite H1, H2, H3. simpl.
      unfold p2_sF, p2_sR.
      assert (E1 : smem (la_value a) fn = true) by (apply smem_In, G1; left; reflexivity).
      assert (E2 : smem (la_value a) sR = false) by (apply smem_false, G3; left; reflexivity).
      rewrite E1, E2.
      assert (Hdisj : ~ (exists y, In y (real_alias_of a) /\ In y sA)).
      { intros [y [Hy1 Hy2]]. destruct (G6 y); [apply in_or_app; left; assumption | contradiction]. }
      apply IH; [intros z [<-|Hz]; [left; reflexivity | right; apply Hincl, Hz]|].
      repeat split.
      * intros v Hv. apply G1. right; assumption.
      * assumption.
      * intros v Hv [<-|Hs]; [contradiction | apply (G3 v); [right; assumption | assumption]].
      * intros ia Hia. apply G4. right; assumption.
      * apply NoDup_app_iff in G5. tauto.
      * intros Hs. apply p2_sA_In in Hs; auto. destruct Hs as [Hs|Hs].
        -- apply NoDup_app_iff in G5. destruct G5 as (_ & _ & G5). apply (G5 x Hs H).
        -- destruct (G6 x); [apply in_or_app; right; assumption | contradiction].
      * apply G6, in_or_app; right; assumption.
Qed.

Lemma pass3_go_errors fn : forall l sF, all_errors (fst (pass3_go fn sF l)).
Proof.
  induction l as [|[i a] t IH]; intros sF; simpl; [apply all_errors_nil'|].
  destruct (is_nil (la_value a)); [apply IH|].
  destruct (smem (la_value a) fn); [apply IH|].
  specialize (IH sF). destruct (pass3_go fn sF t). simpl in *. ae.
Qed.

Lemma pass3_nil fn : forall l sF,
  fst (pass3_go fn sF l) = [] <-> (forall v, In v (pvalues l) -> v = [] \/ In v fn).
Proof.
  induction l as [|[i a] t IH]; intros sF; simpl.
  - split; [intros _ v [] | reflexivity].
  - destruct (is_nil (la_value a)) eqn:E0.
    + apply is_nil_spec in E0. rewrite IH. split.
      * intros H v [<-|Hv]; auto.
      * intros H v Hv. apply H. right; assumption.
    + destruct (smem (la_value a) fn) eqn:E1.
      * apply smem_In in E1. rewrite IH. split.
        -- intros H v [<-|Hv]; auto.
        -- intros H v Hv. apply H. right; assumption.
      * apply smem_false in E1. apply is_nil_false in E0.
        destruct (pass3_go fn sF t). simpl. split; [discriminate|].
        intros H. exfalso. destruct (H (la_value a)); [left; reflexivity | contradiction | contradiction].
Qed.

Lemma pass3_snd fn : forall l sF v,
  In v (snd (pass3_go fn sF l)) <-> In v sF \/ (In v (pvalues l) /\ v <> [] /\ In v fn).
Proof.
  induction l as [|[i a] t IH]; intros sF v; simpl.
  - tauto.
  - destruct (is_nil (la_value a)) eqn:E0.
    + apply is_nil_spec in E0. rewrite IH. split.
      * intros [H|(H1 & H2 & H3)]; auto.
      * intros [H|([<-|H1] & H2 & H3)]; auto. contradiction.
    + apply is_nil_false in E0. destruct (smem (la_value a) fn) eqn:E1.
      * apply smem_In in E1. rewrite IH. simpl. split.
        -- intros [[<-|H]|(H1 & H2 & H3)]; auto.
        -- intros [H|([<-|H1] & H2 & H3)]; auto.
      * apply smem_false in E1. specialize (IH sF v). destruct (pass3_go fn sF t). simpl in *. rewrite IH. split.
        -- intros [H|(H1 & H2 & H3)]; auto.
        -- intros [H|([<-|H1] & H2 & H3)]; auto. contradiction.
Qed.

Lemma uniq_first_In x l : In x (uniq_first l) <-> In x l.
Proof.
  induction l as [|y t IH]; simpl; [tauto|].
  rewrite filter_In, IH, negb_true_iff. split.
  - intros [H|[H _]]; auto.
  - intros [H|H]; auto. destruct (str_eqb y x) eqn:E.
    + apply str_eqb_spec in E. auto.
    + right. split; auto.
Qed.

Lemma pass4_errors r sF : all_errors (pass4 r sF).
Proof.
  unfold pass4. intros d Hd. apply in_flat_map in Hd. destruct Hd as [name [_ Hd]].
  destruct (smem name sF); [destruct Hd|].
  destruct (first_param name (indexed (r_params r))) as [[j p]|]; [|destruct Hd].
  destruct (is_ctx p); [destruct Hd|]. destruct Hd as [<-|[]]. reflexivity.
Qed.

Lemma pass4_nil r sF :
  pass4 r sF = [] <->
  (forall name, In name (fnames r) -> In name sF \/
     match first_param name (indexed (r_params r)) with Some (_, p) => is_ctx p = true | None => True end).
Proof.
  unfold pass4. split.
  - intros H name Hn. apply (proj2 (uniq_first_In _ _)) in Hn.
    assert (E : (if smem name sF then []
        else match first_param name (indexed (r_params r)) with
             | Some (j, p) => if is_ctx p then [] else [err CUnreferencedParam (AnParam j)]
             | None => [] end) = []).
    { destruct (smem name sF) eqn:E; [reflexivity|].
      destruct (first_param name (indexed (r_params r))) as [[j p]|] eqn:F; [|reflexivity].
      destruct (is_ctx p) eqn:C; [reflexivity|]. exfalso.
      assert (Hin : In (err CUnreferencedParam (AnParam j))
                (flat_map (fun name => if smem name sF then []
                   else match first_param name (indexed (r_params r)) with
                        | Some (j, p) => if is_ctx p then [] else [err CUnreferencedParam (AnParam j)]
                        | None => [] end) (uniq_first (fnames r)))).
      { apply in_flat_map. exists name. split; [assumption|]. rewrite E, F, C. left; reflexivity. }
      rewrite H in Hin. destruct Hin. }
    destruct (smem name sF) eqn:E1; [left; apply smem_In; assumption|]. right.
    destruct (first_param name (indexed (r_params r))) as [[j p]|]; [|exact I].
    destruct (is_ctx p); [reflexivity | discriminate].
  - intros H. destruct (flat_map _ _) as [|d l] eqn:E; [reflexivity|]. exfalso.
    assert (Hd : In d (d :: l)) by (left; reflexivity). rewrite <- E in Hd.
    apply in_flat_map in Hd. destruct Hd as [name [Hn Hd]]. apply (proj1 (uniq_first_In _ _)) in Hn.
    destruct (H name Hn) as [Hs|Hc].
    + apply smem_In in Hs. rewrite Hs in Hd. destruct Hd.
    + destruct (smem name sF); [destruct Hd|].
      destruct (first_param name (indexed (r_params r))) as [[j p]|]; [|destruct Hd].
      rewrite Hc in Hd. destruct Hd.
Qed.

Lemma dedup_first_In seen l d : In d (dedup_first seen l) -> In d l.
Proof.
  revert seen; induction l as [|x t IH]; intros seen; simpl; [tauto|].
  destruct (mem diag_eqb x seen).
  - intros H. right. eapply IH, H.
  - intros [<-|H]; [left; reflexivity | right; eapply IH, H].
Qed.

Lemma dedup_first_nil l : dedup_first [] l = [] <-> l = [].
Proof. destruct l; simpl; split; congruence. Qed.

Lemma pass1_errors r : all_errors (pass1 r).
Proof.
  unfold pass1. destruct (flat_map alias_diag (path_attrs r)) as [|d l] eqn:E.
  - apply url_go_errors.
  - rewrite <- E. intros x Hx. apply in_flat_map in Hx. destruct Hx as [ia [_ Hx]].
    unfold alias_diag in Hx. destruct (la_alias (snd ia)); try destruct Hx. subst. reflexivity. destruct H.
Qed.

Lemma link_raw_errors r : all_errors (link_raw r).
Proof.
  unfold link_raw.
  pose proof (pass2_go_errors (fnames r) (link_url r) (path_attrs r) [] [] []) as H2.
  destruct (pass2_go (fnames r) (link_url r) [] [] [] (path_attrs r)) as [d2 sf2].
  pose proof (pass3_go_errors (fnames r) (nonpath_attrs r) sf2) as H3.
  destruct (pass3_go (fnames r) sf2 (nonpath_attrs r)) as [d3 sf3].
  simpl in *. repeat apply all_errors_app; auto using pass1_errors, pass4_errors.
Qed.

(* the link validator reports nothing exactly when its four passes report nothing *)
Lemma link_diags_ok r :
  no_error (link_diags r) = true <->
  pass1 r = []
  /\ fst (pass2_go (fnames r) (link_url r) [] [] [] (path_attrs r)) = []
  /\ fst (pass3_go (fnames r) (snd (pass2_go (fnames r) (link_url r) [] [] [] (path_attrs r))) (nonpath_attrs r)) = []
  /\ pass4 r (snd (pass3_go (fnames r) (snd (pass2_go (fnames r) (link_url r) [] [] [] (path_attrs r))) (nonpath_attrs r))) = [].
Proof.
  assert (E : link_raw r =
    pass1 r ++ fst (pass2_go (fnames r) (link_url r) [] [] [] (path_attrs r))
    ++ fst (pass3_go (fnames r) (snd (pass2_go (fnames r) (link_url r) [] [] [] (path_attrs r))) (nonpath_attrs r))
    ++ pass4 r (snd (pass3_go (fnames r) (snd (pass2_go (fnames r) (link_url r) [] [] [] (path_attrs r))) (nonpath_attrs r)))).
  { unfold link_raw. destruct (pass2_go (fnames r) (link_url r) [] [] [] (path_attrs r)) as [d2 sf2]. simpl.
    destruct (pass3_go (fnames r) sf2 (nonpath_attrs r)) as [d3 sf3]. reflexivity. }
  unfold link_diags. split.
  - intros H. assert (Hn : dedup_first [] (link_raw r) = []).
    { apply all_errors_nil; [|assumption]. intros d Hd. apply (link_raw_errors r d). eapply dedup_first_In, Hd. }
    apply (proj1 (dedup_first_nil _)) in Hn. rewrite E in Hn.
    apply app_eq_nil in Hn. destruct Hn as [H1 Hn]. apply app_eq_nil in Hn. destruct Hn as [H2 Hn].
    apply app_eq_nil in Hn. tauto.
  - intros (H1 & H2 & H3 & H4). rewrite E, H1, H2, H3, H4. reflexivity.
Qed.

(* ---------------------------------------------------------------- lookups *)

Lemma first_by_value_some v attrs a :
  first_by_value v attrs = Some a -> In a attrs /\ la_value a = v.
Proof.
  unfold first_by_value. intros H. apply find_some in H. destruct H as [H1 H2].
  apply str_eqb_spec in H2. auto.
Qed.

Lemma first_by_value_none v attrs :
  first_by_value v attrs = None <-> ~ In v (map la_value attrs).
Proof.
  unfold first_by_value. induction attrs as [|x t IH]; simpl; [tauto|].
  destruct (str_eqb (la_value x) v) eqn:E.
  - apply str_eqb_spec in E. split; [discriminate | intros H; exfalso; apply H; auto].
  - apply str_eqb_neq in E. rewrite IH. tauto.
Qed.

Lemma first_by_value_app pre a post :
  ~ In (la_value a) (map la_value pre) -> first_by_value (la_value a) (pre ++ a :: post) = Some a.
Proof.
  unfold first_by_value. induction pre as [|x t IH]; simpl; intros H.
  - rewrite str_eqb_refl. reflexivity.
  - destruct (str_eqb (la_value x) (la_value a)) eqn:E.
    + apply str_eqb_spec in E. exfalso. apply H. left; assumption.
    + apply IH. intros Hi. apply H. right; assumption.
Qed.

Lemma find_param_some v r p : find_param v r = Some p -> In p (r_params r) /\ fp_name p = v.
Proof.
  unfold find_param. intros H. apply find_some in H. destruct H as [H1 H2].
  apply str_eqb_spec in H2. auto.
Qed.

Lemma find_param_In v r : In v (fnames r) <-> exists p, find_param v r = Some p.
Proof.
  unfold find_param, fnames. induction (r_params r) as [|x t IH]; simpl.
  - split; [tauto | intros [p H]; discriminate].
  - destruct (str_eqb (fp_name x) v) eqn:E.
    + apply str_eqb_spec in E. split; [intros _; eauto | auto].
    + apply str_eqb_neq in E. rewrite <- IH. tauto.
Qed.

Lemma find_param_nodup r p :
  NoDup (fnames r) -> In p (r_params r) -> find_param (fp_name p) r = Some p.
Proof.
  unfold find_param, fnames. induction (r_params r) as [|x t IH]; simpl; intros Hn Hp; [destruct Hp|].
  inversion Hn as [|? ? Hx Hd]; subst. destruct Hp as [->|Hp].
  - rewrite str_eqb_refl. reflexivity.
  - destruct (str_eqb (fp_name x) (fp_name p)) eqn:E.
    + apply str_eqb_spec in E. exfalso. apply Hx. rewrite E. apply in_map. assumption.
    + apply IH; assumption.
Qed.

Lemma first_param_some name l j p :
  first_param name l = Some (j, p) -> In (j, p) l /\ fp_name p = name.
Proof.
  unfold first_param. intros H. apply find_some in H. destruct H as [H1 H2]. apply str_eqb_spec in H2. auto.
Qed.

Lemma first_param_In name i ps :
  In name (map fp_name ps) -> exists j p, first_param name (index_from i ps) = Some (j, p).
Proof.
  unfold first_param. revert i; induction ps as [|x t IH]; intros i; simpl; [tauto|].
  intros [E|H].
  - rewrite E, str_eqb_refl. eauto.
  - destruct (str_eqb (fp_name x) name); [eauto | apply IH, H].
Qed.

Lemma filter_le1 {A} (f : A -> bool) l x y :
  (List.length (filter f l) <= 1)%nat -> In x l -> In y l -> f x = true -> f y = true -> x = y.
Proof.
  induction l as [|z t IH]; simpl; intros Hl Hx Hy Fx Fy; [destruct Hx|].
  destruct (f z) eqn:Fz; simpl in Hl.
  - assert (Ht : filter f t = []) by (destruct (filter f t); [reflexivity | simpl in Hl; lia]).
    assert (Hno : forall w, In w t -> f w = true -> False).
    { intros w Hw Fw. assert (In w (filter f t)) by (apply filter_In; auto). rewrite Ht in H. destruct H. }
    destruct Hx as [<-|Hx], Hy as [<-|Hy]; try reflexivity; exfalso; eauto.
  - destruct Hx as [<-|Hx]; [congruence|]. destruct Hy as [<-|Hy]; [congruence|]. auto.
Qed.

Lemma filter_nil_iff {A} (f : A -> bool) l : filter f l = [] <-> forall x, In x l -> f x = false.
Proof.
  induction l as [|z t IH]; simpl; [split; [intros _ x [] | reflexivity]|].
  destruct (f z) eqn:Fz.
  - split; [discriminate|]. intros H. rewrite (H z) in Fz; [discriminate | auto].
  - rewrite IH. split; [intros H x [<-|Hx]; auto | intros H x Hx; auto].
Qed.

(* at most one element satisfies f when no element satisfying f is preceded by another one *)
Lemma filter_le1_intro {A} (f : A -> bool) l :
  (forall l1 a l2, l = l1 ++ a :: l2 -> f a = true -> forall b, In b l1 -> f b = false) ->
  (List.length (filter f l) <= 1)%nat.
Proof.
  induction l as [|z t IH] using rev_ind; intros H; simpl; [lia|].
  rewrite filter_app. rewrite app_length. simpl. destruct (f z) eqn:Fz; simpl.
  - assert (Ht : filter f t = []).
    { apply filter_nil_iff. intros x Hx. apply (H t z [] eq_refl Fz x Hx). }
    rewrite Ht. simpl. lia.
  - rewrite Nat.add_0_r. apply IH. intros l1 a l2 E Fa b Hb. subst t.
    apply (H l1 a (l2 ++ [z])); [rewrite <- app_assoc; reflexivity | assumption | assumption].
Qed.

(* ---------------------------------------------------------------- validateParams *)

Definition pi_of (attrs : list lattr) (p : fparam) : list passed :=
  if is_ctx p then []
  else match first_by_value (fp_name p) attrs with
       | Some a => match passed_of (la_kind a) with Some pi => [pi] | None => [] end
       | None => []
       end.

Definition pis (attrs : list lattr) (l : list (nat * fparam)) : list passed :=
  flat_map (fun jp => pi_of attrs (snd jp)) l.

Definition type_diag (j : nat) (p : fparam) (pi : passed) : list diag :=
  match pi with PBody => validate_body_param j p | _ => validate_nonbody_param j p pi end.

Definition bodies (l : list passed) : nat := List.length (filter is_pbody l).
Definition forms (l : list passed) : nat := List.length (filter is_pform l).

Lemma bodies_app a b : bodies (a ++ b) = bodies a + bodies b.
Proof. unfold bodies. rewrite filter_app, app_length. reflexivity. Qed.
Lemma forms_app a b : forms (a ++ b) = forms a + forms b.
Proof. unfold forms. rewrite filter_app, app_length. reflexivity. Qed.

Lemma existsb_count {A} (f : A -> bool) l : existsb f l = false <-> List.length (filter f l) = 0.
Proof.
  induction l as [|x t IH]; simpl; [tauto|]. destruct (f x); simpl; [split; [discriminate | lia] | exact IH].
Qed.

Lemma type_diag_errors j p pi : all_errors (type_diag j p pi).
Proof.
  unfold type_diag, validate_body_param, validate_nonbody_param. destruct pi; ae.
Qed.

Lemma validate_combination_errors pr j pi : all_errors (validate_combination pr j pi).
Proof. unfold validate_combination. destruct pi; ae. Qed.

Lemma params_go_cons attrs processed j p t :
  params_go attrs processed ((j, p) :: t) =
  match pi_of attrs p with
  | [] => if is_ctx p then params_go attrs processed t
          else match first_by_value (fp_name p) attrs with
               | None => params_go attrs processed t
               | Some _ => None
               end
  | pi :: _ =>
      match params_go attrs (processed ++ [pi]) t with
      | None => None
      | Some rest => Some (type_diag j p pi ++ validate_combination processed j pi ++ rest)
      end
  end.
Proof.
  cbn [params_go]. unfold pi_of, type_diag. destruct (is_ctx p); [reflexivity|].
  destruct (first_by_value (fp_name p) attrs) as [a|]; [|reflexivity].
  destruct (passed_of (la_kind a)) as [pi|]; [|reflexivity].
  destruct (params_go attrs (processed ++ [pi]) t); [|reflexivity]. destruct pi; reflexivity.
Qed.

(* what a clean run of validateParams tells *)
Lemma params_go_sound attrs : forall l processed d,
  params_go attrs processed l = Some d -> no_error d = true ->
  (bodies processed <= 1)%nat ->
  (forall j p a, In (j, p) l -> is_ctx p = false -> first_by_value (fp_name p) attrs = Some a ->
     exists pi, passed_of (la_kind a) = Some pi /\ type_diag j p pi = [])
  /\ (bodies (processed ++ pis attrs l) <= 1)%nat.
Proof.
  induction l as [|[j p] t IH]; intros processed d Hgo Hne Hb.
  - split; [intros j p a []|]. simpl. rewrite app_nil_r. assumption.
  - rewrite params_go_cons in Hgo. unfold pis. cbn [flat_map snd]. fold (pis attrs t).
    destruct (pi_of attrs p) as [|pi rest] eqn:Epi.
    + assert (Hskip : params_go attrs processed t = Some d /\
                      (is_ctx p = false -> first_by_value (fp_name p) attrs = None)).
      { destruct (is_ctx p); [split; [assumption | discriminate]|].
        destruct (first_by_value (fp_name p) attrs); [discriminate | auto]. }
      destruct Hskip as [Hgo' Hnone]. destruct (IH processed d Hgo' Hne Hb) as [IH1 IH2].
      split; [|simpl; assumption].
      intros j' p' a [E|Hin] Hc Hf; [|eauto]. inversion E; subst. rewrite (Hnone Hc) in Hf. discriminate.
    + destruct (params_go attrs (processed ++ [pi]) t) as [dt|] eqn:Egt; [|discriminate].
      inversion Hgo; subst d. rewrite !no_error_app in Hne.
      apply andb_true_iff in Hne. destruct Hne as [Ht Hne]. apply andb_true_iff in Hne. destruct Hne as [Hc Hr].
      assert (Ht0 : type_diag j p pi = []) by (apply all_errors_nil; [apply type_diag_errors | assumption]).
      assert (Hc0 : validate_combination processed j pi = [])
        by (apply all_errors_nil; [apply validate_combination_errors | assumption]).
      assert (Hrest : rest = []).
      { unfold pi_of in Epi. destruct (is_ctx p); [discriminate|].
        destruct (first_by_value (fp_name p) attrs) as [a|]; [|discriminate].
        destruct (passed_of (la_kind a)); inversion Epi; reflexivity. }
      subst rest.
      assert (Hb' : (bodies (processed ++ [pi]) <= 1)%nat).
      { rewrite bodies_app. unfold validate_combination in Hc0. destruct pi; unfold bodies at 2; simpl; try lia.
        destruct (existsb is_pbody processed) eqn:Eb; [discriminate|].
        apply existsb_count in Eb. unfold bodies. lia. }
      destruct (IH (processed ++ [pi]) dt Egt Hr Hb') as [IH1 IH2].
      split.
      * intros j' p' a [E|Hin] Hctx Hf; [|eauto]. inversion E; subst j' p'.
        unfold pi_of in Epi. rewrite Hctx, Hf in Epi.
        destruct (passed_of (la_kind a)) as [pi'|]; [|discriminate]. inversion Epi; subst. eauto.
      * rewrite <- app_assoc in IH2. exact IH2.
Qed.

Definition combo_ok (l : list passed) : Prop :=
  (bodies l <= 1)%nat /\ (bodies l = 0 \/ forms l = 0)%nat.

Lemma params_go_complete attrs : forall l processed,
  (forall j p, In (j, p) l -> is_ctx p = false ->
     exists a pi, first_by_value (fp_name p) attrs = Some a /\ passed_of (la_kind a) = Some pi /\ type_diag j p pi = []) ->
  combo_ok (processed ++ pis attrs l) ->
  params_go attrs processed l = Some [].
Proof.
  induction l as [|[j p] t IH]; intros processed H Hc; [reflexivity|].
  rewrite params_go_cons. unfold pis in Hc. cbn [flat_map snd] in Hc. fold (pis attrs t) in Hc.
  destruct (is_ctx p) eqn:Ectx.
  - unfold pi_of in *. rewrite Ectx in *. simpl in Hc. apply IH; [|assumption].
    intros j' p' Hin. apply H. right; assumption.
  - destruct (H j p (or_introl eq_refl) Ectx) as (a & pi & Hf & Hp & Ht).
    assert (Epi : pi_of attrs p = [pi]) by (unfold pi_of; rewrite Ectx, Hf, Hp; reflexivity).
    rewrite Epi in *. rewrite (IH (processed ++ [pi])).
    + rewrite Ht. simpl. rewrite app_nil_r.
      assert (Hv : validate_combination processed j pi = []).
      { destruct Hc as [Hc1 Hc2]. rewrite bodies_app in *. rewrite forms_app in Hc2.
        unfold validate_combination. destruct pi; try reflexivity.
        - destruct (existsb is_pbody processed) eqn:E1.
          + exfalso. assert (bodies processed <> 0) by (unfold bodies; intros E0; apply existsb_count in E0; congruence).
            rewrite bodies_app in Hc1. unfold bodies at 2 in Hc1. simpl in Hc1. lia.
          + destruct (existsb is_pform processed) eqn:E2; [|reflexivity].
            exfalso. assert (forms processed <> 0) by (unfold forms; intros E0; apply existsb_count in E0; congruence).
            rewrite bodies_app in Hc2. unfold bodies at 2 in Hc2. simpl in Hc2. lia.
        - destruct (existsb is_pbody processed) eqn:E1; [|reflexivity].
          exfalso. assert (bodies processed <> 0) by (unfold bodies; intros E0; apply existsb_count in E0; congruence).
          rewrite forms_app in Hc2. unfold forms at 2 in Hc2. simpl in Hc2. lia. }
      rewrite Hv. reflexivity.
    + intros j' p' Hin. apply H. right; assumption.
    + rewrite <- app_assoc. exact Hc.
Qed.

(* ---------------------------------------------------------------- views of the attribute list *)

Lemma filter_indexed {A} (f : A -> bool) i (l : list A) :
  map snd (filter (fun ia => f (snd ia)) (index_from i l)) = filter f l.
Proof.
  revert i; induction l as [|x t IH]; intros i; simpl; [reflexivity|].
  destruct (f x); simpl; rewrite IH; reflexivity.
Qed.

Lemma path_attrs_snd r : map snd (path_attrs r) = attrs_of KPath r.
Proof. unfold path_attrs, attrs_of, indexed. apply filter_indexed. Qed.

Lemma pvalues_map l : pvalues l = map la_value (map snd l).
Proof. unfold pvalues. rewrite map_map. reflexivity. Qed.

Lemma real_aliases_map l : real_aliases l = flat_map real_alias_of (map snd l).
Proof.
  unfold real_aliases. induction l as [|x t IH]; simpl; [reflexivity|]. rewrite IH. reflexivity.
Qed.

Lemma filter_filter {A} (f g : A -> bool) l : filter f (filter g l) = filter (fun x => g x && f x) l.
Proof.
  induction l as [|x t IH]; simpl; [reflexivity|]. destruct (g x); simpl; [destruct (f x)|]; rewrite IH; reflexivity.
Qed.

Lemma find_filter {A} (f : A -> bool) l : find f l = hd_error (filter f l).
Proof. induction l as [|x t IH]; simpl; [reflexivity|]. destruct (f x); [reflexivity | exact IH]. Qed.

Lemma nonpath_attrs_In r a :
  In a (r_attrs r) -> is_nonpath_kind (la_kind a) = true -> is_blank (la_value a) = false ->
  In (la_value a) (pvalues (nonpath_attrs r)).
Proof.
  intros Hin Hk Hb. destruct (In_index_from 0 _ _ Hin) as [i Hi].
  unfold pvalues. apply in_map_iff. exists (i, a). split; [reflexivity|].
  unfold nonpath_attrs. apply filter_In. split; [exact Hi|]. simpl. rewrite Hk, Hb. reflexivity.
Qed.

Lemma nonpath_attrs_inv r v :
  In v (pvalues (nonpath_attrs r)) ->
  exists a, In a (r_attrs r) /\ la_value a = v /\ is_nonpath_kind (la_kind a) = true /\ is_blank v = false.
Proof.
  unfold pvalues. intros H. apply in_map_iff in H. destruct H as [[i a] [E H]]. simpl in E. subst v.
  unfold nonpath_attrs in H. apply filter_In in H. destruct H as [H1 H2]. simpl in H2.
  apply andb_true_iff in H2. destruct H2 as [H2 H3]. apply negb_true_iff in H3.
  exists a. repeat split; auto. eapply index_from_In, H1.
Qed.

Lemma attrs_of_In k r a : In a (attrs_of k r) <-> In a (r_attrs r) /\ la_kind a = k.
Proof. unfold attrs_of. rewrite filter_In, kind_is_spec. tauto. Qed.

Lemma param_attrs_In r a : In a (param_attrs r) <-> In a (r_attrs r) /\ is_param_kind (la_kind a) = true.
Proof. unfold param_attrs. rewrite filter_In. tauto. Qed.

Lemma path_pvalues r : pvalues (path_attrs r) = map la_value (attrs_of KPath r).
Proof. rewrite pvalues_map, path_attrs_snd. reflexivity. Qed.

(* exactly one @Route: the link validator and the outputs read the same template *)
Lemma single_route r a :
  attrs_of KRoute r = [a] -> link_url r = template_names (la_value a) /\ the_route r = la_value a.
Proof.
  intros H. split.
  - unfold link_url, link_route.
    assert (E : map snd (filter (fun ia => kind_is KRoute (snd ia)) (indexed (r_attrs r))) = [a]).
    { unfold indexed. rewrite filter_indexed. exact H. }
    destruct (filter (fun ia => kind_is KRoute (snd ia)) (indexed (r_attrs r))) as [|[i b] [|y t]]; try discriminate.
    simpl in E. inversion E; subst. simpl. apply extract_url_params_spec.
  - unfold the_route, first_value. rewrite find_filter. unfold attrs_of in H. rewrite H. reflexivity.
Qed.

Lemma template_names_slash t : template_names (x2f :: t) = template_names t.
Proof. reflexivity. Qed.

Lemma full_template_names r :
  has_brace (r_prefix r) = false -> template_names (full_template r) = template_names (the_route r).
Proof.
  intros H. unfold full_template. rewrite template_names_no_brace by assumption. apply template_names_slash.
Qed.

Lemma nodup_name_eq ps p p' :
  NoDup (map fp_name ps) -> In p ps -> In p' ps -> fp_name p = fp_name p' -> p = p'.
Proof.
  induction ps as [|x t IH]; simpl; intros Hn Hp Hp' E; [destruct Hp|].
  inversion Hn as [|? ? Hx Hd]; subst.
  destruct Hp as [->|Hp], Hp' as [->|Hp']; auto.
  - exfalso. apply Hx. rewrite E. apply in_map; assumption.
  - exfalso. apply Hx. rewrite <- E. apply in_map; assumption.
Qed.

Lemma pis_index attrs i l : pis attrs (index_from i l) = flat_map (pi_of attrs) l.
Proof.
  revert i; induction l as [|x t IH]; intros i; simpl; [reflexivity|]. unfold pis in *. simpl. rewrite IH. reflexivity.
Qed.

Lemma bodies_flat_one attrs l x :
  In x l -> pi_of attrs x = [PBody] -> (1 <= bodies (flat_map (pi_of attrs) l))%nat.
Proof.
  intros Hin E. apply in_split in Hin. destruct Hin as [l1 [l2 ->]].
  rewrite flat_map_app. cbn [flat_map]. rewrite E. rewrite !bodies_app.
  change (bodies [PBody]) with 1. lia.
Qed.

Lemma bodies_flat_two attrs l x y :
  In x l -> In y l -> x <> y -> pi_of attrs x = [PBody] -> pi_of attrs y = [PBody] ->
  (2 <= bodies (flat_map (pi_of attrs) l))%nat.
Proof.
  intros Hx Hy Hne Ex Ey. apply in_split in Hx. destruct Hx as [l1 [l2 ->]].
  assert (Hy' : In y l1 \/ In y l2).
  { apply in_app_or in Hy. destruct Hy as [Hy|[Hy|Hy]]; auto. congruence. }
  rewrite flat_map_app. cbn [flat_map]. rewrite Ex. rewrite !bodies_app.
  change (bodies [PBody]) with 1.
  destruct Hy' as [Hy'|Hy'].
  - pose proof (bodies_flat_one attrs l1 y Hy' Ey). lia.
  - pose proof (bodies_flat_one attrs l2 y Hy' Ey). lia.
Qed.

(* ---------------------------------------------------------------- acceptance, scope *)

Lemma accepted_iff r :
  accepted r = true <->
  is_endpoint r = true
  /\ exists dp dr, params_diags r = Some dp /\ rets_diags r = Some dr
     /\ no_error (common_diags r) = true /\ no_error dp = true /\ no_error dr = true
     /\ no_error (link_diags r) = true /\ reduce_ok r = true.
Proof.
  unfold accepted, validate. destruct (is_endpoint r); simpl.
  - destruct (params_diags r) as [dp|].
    + destruct (rets_diags r) as [dr|].
      * rewrite !no_error_app, !andb_true_iff. split.
        -- intros [(H1 & H2 & H3 & H4) H5]. split; [reflexivity|]. exists dp, dr. tauto.
        -- intros [_ (dp' & dr' & E1 & E2 & H)]. inversion E1; inversion E2; subst. tauto.
      * split; [discriminate|]. intros [_ (dp' & dr' & _ & E & _)]. discriminate.
    + split; [discriminate|]. intros [_ (dp' & dr' & E & _)]. discriminate.
  - split; [discriminate | intros [H _]; discriminate].
Qed.

Record scope_facts (r : route) : Prop := {
  sc_known : all_known (r_attrs r);
  sc_alias : forall a, In a (r_attrs r) -> la_alias a <> ANonStr;
  sc_value : forall a, In a (r_attrs r) -> la_kind a = KRoute \/ la_kind a = KSecurity -> la_value a <> [];
  sc_nodup : NoDup (fnames r);
  sc_names : forall p, In p (r_params r) -> is_blank (fp_name p) = false;
  sc_noctx : forall a p, In a (param_attrs r) -> find_param (la_value a) r = Some p -> is_ctx p = false }.

Lemma in_scope_facts r : in_scope r = true -> scope_facts r.
Proof.
  unfold in_scope. rewrite !andb_true_iff. intros [[[[[H1 H2] H3] H4] H5] H6].
  rewrite forallb_forall in H1, H2, H3, H5, H6. constructor.
  - intros a Ha E. specialize (H1 a Ha). rewrite E in H1. discriminate.
  - intros a Ha E. specialize (H2 a Ha). rewrite E in H2. discriminate.
  - intros a Ha Hk E. specialize (H3 a Ha). rewrite E in H3. destruct Hk as [K|K]; rewrite K in H3; discriminate.
  - apply nodupb_spec. assumption.
  - intros p Hp. specialize (H5 p Hp). apply negb_true_iff in H5. assumption.
  - intros a p Ha E. specialize (H6 a Ha). rewrite E in H6. apply negb_true_iff in H6. assumption.
Qed.

Lemma existsb_false {A} (f : A -> bool) l : existsb f l = false <-> forall x, In x l -> f x = false.
Proof.
  split.
  - intros H x Hx. destruct (f x) eqn:E; [|reflexivity].
    assert (existsb f l = true) by (apply existsb_exists; eauto). congruence.
  - intros H. destruct (existsb f l) eqn:E; [|reflexivity].
    apply existsb_exists in E. destruct E as [x [Hx Fx]]. rewrite (H x Hx) in Fx. discriminate.
Qed.

Lemma real_alias_of_spec a x : In x (real_alias_of a) <-> real_alias a = true /\ la_alias a = AStr x.
Proof.
  unfold real_alias_of, real_alias. destruct (la_alias a) as [|[|c y]|]; simpl; split; try tauto; try (intros [H _]; discriminate).
  - intros [<-|[]]. auto.
  - intros [_ E]. inversion E. auto.
Qed.

Lemma binding_real a : real_alias a = true -> la_alias a = AStr (binding a).
Proof. unfold real_alias, binding. destruct (la_alias a) as [|[|c y]|]; try discriminate. reflexivity. Qed.

Lemma binding_not_real a : real_alias a = false -> binding a = la_value a.
Proof. unfold real_alias, binding. destruct (la_alias a) as [|[|c y]|]; try discriminate; reflexivity. Qed.

(* the bindings of the @Path annotations are pairwise distinct *)
Lemma bindings_nodup (pa : list lattr) :
  NoDup (map la_value pa) -> NoDup (flat_map real_alias_of pa) ->
  (forall a b, In a pa -> In b pa -> real_alias a = true -> real_alias b = false -> la_value b <> binding a) ->
  NoDup (map binding pa).
Proof.
  induction pa as [|a t IH]; simpl; intros Hv Hr Hs; [constructor|].
  inversion Hv as [|? ? Hva Hvt]; subst. apply NoDup_app_iff in Hr. destruct Hr as (Hr1 & Hr2 & Hr3).
  constructor.
  - intros Hin. apply in_map_iff in Hin. destruct Hin as [b [Eb Hb]].
    destruct (real_alias a) eqn:Ra, (real_alias b) eqn:Rb.
    + apply (Hr3 (binding a)).
      * apply real_alias_of_spec. split; [assumption | apply binding_real; assumption].
      * apply in_flat_map. exists b. split; [assumption|]. apply real_alias_of_spec. split; [assumption|].
        rewrite <- Eb. apply binding_real; assumption.
    + apply (Hs a b); auto. rewrite <- Eb. symmetry. apply binding_not_real; assumption.
    + apply (Hs b a); auto. rewrite Eb. symmetry. apply binding_not_real; assumption.
    + apply Hva. rewrite (binding_not_real _ Ra) in Eb. rewrite (binding_not_real _ Rb) in Eb.
      rewrite <- Eb. apply in_map; assumption.
  - apply IH; auto.
Qed.

(* ---------------------------------------------------------------- soundness (partial) *)

Lemma nonbody_case j k p pi :
  passed_of k = Some pi -> k <> KBody -> validate_nonbody_param j p pi = [] -> loose_param k p = false ->
  nonbody_type_ok k p = true.
Proof.
  destruct p as [n b sh]. unfold validate_nonbody_param, loose_param, nonbody_type_ok, param_meta. simpl.
  intros Hp Hk Hv Hl.
  destruct k; simpl in Hp; inversion Hp; subst pi; try congruence;
    destruct b, sh; simpl in *; try reflexivity; try discriminate.
Qed.

Lemma sf3_In r v :
  In v (snd (pass3_go (fnames r) (snd (pass2_go (fnames r) (link_url r) [] [] [] (path_attrs r))) (nonpath_attrs r))) <->
  (In v (pvalues (path_attrs r)) /\ In v (fnames r))
  \/ (In v (pvalues (nonpath_attrs r)) /\ v <> [] /\ In v (fnames r)).
Proof. rewrite pass3_snd, pass2_snd. simpl. tauto. Qed.

Lemma in_two_split {A} (l : list A) x y :
  In x l -> In y l -> x <> y ->
  (exists l1 l2 l3, l = l1 ++ x :: l2 ++ y :: l3) \/ (exists l1 l2 l3, l = l1 ++ y :: l2 ++ x :: l3).
Proof.
  intros Hx Hy Hne. apply in_split in Hx. destruct Hx as [l1 [l2 ->]].
  apply in_app_or in Hy. destruct Hy as [Hy|[Hy|Hy]]; [|congruence|].
  - apply in_split in Hy. destruct Hy as [m1 [m2 ->]]. right. exists m1, m2, l2. rewrite <- app_assoc. reflexivity.
  - apply in_split in Hy. destruct Hy as [m1 [m2 ->]]. left. exists l1, m1, m2. reflexivity.
Qed.

Theorem sound_partial r :
  in_scope r = true -> sound_excl r = false -> accepted r = true -> well_linked r = true.
Proof.
  intros Hscope Hexcl Hacc.
  pose proof (in_scope_facts r Hscope) as SC.
  apply accepted_iff in Hacc. destruct Hacc as [Hend (dp & dr & Epar & Eret & Hcom & Hdp & Hdr & Hlink & Hred)].
  (* the excluded classes *)
  unfold sound_excl in Hexcl. repeat (apply orb_false_iff in Hexcl; destruct Hexcl as [Hexcl ?X]).
  rename Hexcl into Xprefix. rename X3 into Xbare. rename X2 into Xtwo. rename X1 into Xshadow.
  rename X0 into Xloose. rename X into Xblank.
  (* CommonValidator *)
  apply (common_diags_ok r (sc_known r SC)) in Hcom. rewrite attrs_ok_split in Hcom. simpl in Hcom.
  assert (Hfirst : forall a, In a (r_attrs r) -> is_param_kind (la_kind a) = true ->
                     first_by_value (la_value a) (r_attrs r) = Some a).
  { intros a Ha Hk. apply in_split in Ha. destruct Ha as [l1 [l2 E]]. rewrite E.
    apply first_by_value_app. apply (Hcom l1 a l2 E). assumption. }
  (* link validator *)
  apply link_diags_ok in Hlink. destruct Hlink as (P1 & P2 & P3 & P4).
  apply pass2_nil in P2; [|intros x []]. destruct P2 as (P2v & P2n & _ & _ & P2a & P2u).
  rewrite pass3_nil in P3. rewrite pass4_nil in P4.
  rewrite path_pvalues in P2v, P2n. rewrite real_aliases_map, path_attrs_snd in P2a, P2u.
  (* one @Route *)
  assert (Hroute : exists ra, attrs_of KRoute r = [ra]).
  { unfold sx_two_routes in Xtwo. apply Nat.ltb_ge in Xtwo.
    unfold is_endpoint in Hend. apply andb_true_iff in Hend. destruct Hend as [_ Hend].
    unfold first_value in Hend. rewrite find_filter in Hend. fold (attrs_of KRoute r) in Hend.
    destruct (attrs_of KRoute r) as [|ra [|rb t]]; simpl in *; try discriminate; [exists ra; reflexivity | lia]. }
  destruct Hroute as [ra Hra]. destruct (single_route r ra Hra) as [Eurl Eroute].
  assert (Enames : template_names (full_template r) = link_url r).
  { rewrite full_template_names by exact Xprefix. rewrite Eurl, Eroute. reflexivity. }
  assert (P1' : (forall u, In u (link_url r) -> In u (map path_key (attrs_of KPath r))) /\ NoDup (link_url r)).
  { unfold pass1 in P1.
    assert (Ead : flat_map alias_diag (path_attrs r) = []).
    { destruct (flat_map alias_diag (path_attrs r)) as [|d l] eqn:E; [reflexivity|]. exfalso.
      assert (Hd : In d (d :: l)) by (left; reflexivity). rewrite <- E in Hd. apply in_flat_map in Hd.
      destruct Hd as [[i a] [Hia Hd]]. unfold alias_diag in Hd. simpl in Hd.
      destruct (la_alias a) eqn:Ea; simpl in Hd; try contradiction.
      apply (sc_alias r SC a); [|assumption].
      unfold path_attrs in Hia. apply filter_In in Hia. destruct Hia as [Hia _]. eapply index_from_In, Hia. }
    rewrite Ead in P1. apply url_go_nil in P1. destruct P1 as (Q1 & Q2 & _). split; [|assumption].
    intros u Hu. specialize (Q1 u Hu). rewrite <- path_attrs_snd, map_map. exact Q1. }
  destruct P1' as [P1r P1n].
  assert (Hnonblank : forall a, In a (r_attrs r) -> is_nonpath_kind (la_kind a) = true -> is_blank (la_value a) = false).
  { intros a Ha K. destruct (is_blank (la_value a)) eqn:Eb; [|reflexivity]. exfalso.
    pose proof Ha as Hin. apply in_split in Ha. destruct Ha as [l1 [l2 E]]. destruct (Hcom l1 a l2 E) as (Hne & _).
    unfold sx_blank_value in Xblank. rewrite existsb_false in Xblank.
    specialize (Xblank a Hin). rewrite K, Eb in Xblank. simpl in Xblank.
    rewrite andb_true_r in Xblank. apply negb_false_iff in Xblank. apply is_nil_spec in Xblank. apply Hne; [|assumption].
    intros Kh. rewrite Kh in K. discriminate. }
  assert (Href : forall a, In a (r_attrs r) -> is_param_kind (la_kind a) = true -> In (la_value a) (fnames r)).
  { intros a Ha Hk. destruct (is_nonpath_kind (la_kind a)) eqn:Knp.
    - pose proof (Hnonblank a Ha Knp) as Hnb.
      pose proof (nonpath_attrs_In r a Ha Knp Hnb) as Hv.
      destruct (P3 _ Hv) as [E0|Hf]; [|assumption]. exfalso. rewrite E0 in Hnb. discriminate.
    - assert (K : la_kind a = KPath) by (destruct (la_kind a); simpl in *; congruence).
      apply P2v. apply in_map. apply attrs_of_In. auto. }
  pose proof Epar as Tsound. unfold params_diags in Tsound.
  apply (params_go_sound (r_attrs r) (indexed (r_params r)) [] dp) in Tsound; [|assumption|unfold bodies; simpl; lia].
  destruct Tsound as [Ttype Tbody]. simpl in Tbody. unfold indexed in Tbody. rewrite pis_index in Tbody.
  unfold well_linked. rewrite !andb_true_iff. repeat split.
  - (* a route *) exact Hend.
  - (* one-to-one *)
    unfold one_to_one. rewrite Enames.
    assert (Hb : NoDup (map binding (attrs_of KPath r))).
    { apply bindings_nodup; auto.
      intros a b Ha Hb Ra Rb E. unfold sx_alias_shadow in Xshadow. rewrite existsb_false in Xshadow.
      specialize (Xshadow a Ha). rewrite Ra in Xshadow. simpl in Xshadow. rewrite existsb_false in Xshadow.
      specialize (Xshadow b Hb). rewrite Rb, E, str_eqb_refl in Xshadow. discriminate. }
    assert (Hincl : incl (map binding (attrs_of KPath r)) (link_url r)).
    { intros x Hx. apply in_map_iff in Hx. destruct Hx as [a [<- Ha]].
      destruct (real_alias a) eqn:Ra.
      - apply P2u. apply in_flat_map. exists a. split; [assumption|]. apply real_alias_of_spec.
        split; [assumption | apply binding_real; assumption].
      - rewrite (binding_not_real _ Ra). unfold sx_bare_path in Xbare. rewrite existsb_false in Xbare.
        specialize (Xbare a Ha). rewrite Ra in Xbare. simpl in Xbare. apply negb_false_iff in Xbare.
        apply smem_In in Xbare. rewrite Eurl, <- Eroute. exact Xbare. }
    rewrite !andb_true_iff. repeat split.
    + apply nodupb_spec; assumption.
    + apply nodupb_spec; assumption.
    + apply subsetb_spec. apply NoDup_length_incl; [assumption | | assumption].
      rewrite map_length. rewrite <- (map_length path_key). apply NoDup_incl_length; assumption.
    + apply subsetb_spec; assumption.
  - (* every non-context parameter referenced exactly once *)
    apply forallb_forall. intros p Hp. destruct (is_ctx p) eqn:Ectx; [reflexivity|]. simpl.
    apply Nat.eqb_eq. unfold count_refs, param_attrs. rewrite filter_filter.
    assert (Hle : (List.length (filter (fun x => is_param_kind (la_kind x) && str_eqb (la_value x) (fp_name p)) (r_attrs r)) <= 1)%nat).
    { apply filter_le1_intro. intros l1 a l2 E Fa b Hb.
      apply andb_true_iff in Fa. destruct Fa as [Fk Fv]. apply str_eqb_spec in Fv.
      destruct (Hcom l1 a l2 E) as (_ & _ & _ & Hu & _). specialize (Hu Fk).
      destruct (str_eqb (la_value b) (fp_name p)) eqn:Eb; [|apply andb_false_r].
      apply str_eqb_spec in Eb. exfalso. apply Hu. rewrite Fv, <- Eb. apply in_map; assumption. }
    assert (Hge : exists a, In a (r_attrs r) /\ is_param_kind (la_kind a) = true /\ la_value a = fp_name p).
    { assert (Hn : In (fp_name p) (fnames r)) by (apply in_map; assumption).
      destruct (P4 _ Hn) as [Hs|Hc].
      - apply sf3_In in Hs. destruct Hs as [[Hs _]|[Hs _]].
        + rewrite path_pvalues in Hs. apply in_map_iff in Hs. destruct Hs as [a [Ea Ha]].
          apply attrs_of_In in Ha. destruct Ha as [Ha Hk]. exists a. rewrite Hk. auto.
        + apply nonpath_attrs_inv in Hs. destruct Hs as [a (Ha & Ea & Hk & _)]. exists a. repeat split; auto.
          destruct (la_kind a); simpl in *; congruence.
      - exfalso. destruct (first_param_In (fp_name p) 0 (r_params r) Hn) as [j [p' Efp]].
        unfold indexed in Hc. rewrite Efp in Hc.
        apply first_param_some in Efp. destruct Efp as [Hin Ename].
        apply index_from_In in Hin.
        assert (p' = p) by (apply (nodup_name_eq (r_params r)); auto; apply (sc_nodup r SC)).
        subst p'. congruence. }
    destruct Hge as [a (Ha & Hk & Ev)].
    assert (Hin : In a (filter (fun x => is_param_kind (la_kind x) && str_eqb (la_value x) (fp_name p)) (r_attrs r))).
    { apply filter_In. split; [assumption|]. rewrite Hk, Ev, str_eqb_refl. reflexivity. }
    destruct (filter (fun x => is_param_kind (la_kind x) && str_eqb (la_value x) (fp_name p)) (r_attrs r)) as [|x [|y t]];
      simpl in *; [destruct Hin | reflexivity | lia].
  - (* each annotation references a parameter *)
    apply forallb_forall. intros a Ha. apply param_attrs_In in Ha. destruct Ha as [Ha Hk].
    pose proof (Href a Ha Hk) as Hn.
    apply find_param_In in Hn. destruct Hn as [p Ep]. rewrite Ep. reflexivity.
  - (* at most one body *)
    apply Nat.leb_le. unfold attrs_of. apply filter_le1_intro. intros l1 a l2 E Fa b Hb.
    destruct (kind_is KBody b) eqn:Fb; [|reflexivity]. exfalso.
    apply kind_is_spec in Fa. apply kind_is_spec in Fb.
    assert (Ha : In a (r_attrs r)) by (rewrite E; apply in_or_app; right; left; reflexivity).
    assert (Hb' : In b (r_attrs r)) by (rewrite E; apply in_or_app; left; assumption).
    assert (Ka : is_param_kind (la_kind a) = true) by (rewrite Fa; reflexivity).
    assert (Kb : is_param_kind (la_kind b) = true) by (rewrite Fb; reflexivity).
    destruct (Hcom l1 a l2 E) as (_ & _ & _ & Hu & _). specialize (Hu Ka).
    assert (Hne : la_value b <> la_value a) by (intros Eq; apply Hu; rewrite <- Eq; apply in_map; assumption).
    pose proof (Href a Ha Ka) as Hna. pose proof (Href b Hb' Kb) as Hnb.
    apply find_param_In in Hna. destruct Hna as [pa Epa]. apply find_param_In in Hnb. destruct Hnb as [pb Epb].
    pose proof (sc_noctx r SC a pa (proj2 (param_attrs_In r a) (conj Ha Ka)) Epa) as Ca.
    pose proof (sc_noctx r SC b pb (proj2 (param_attrs_In r b) (conj Hb' Kb)) Epb) as Cb.
    apply find_param_some in Epa. destruct Epa as [Hpa Na]. apply find_param_some in Epb. destruct Epb as [Hpb Nb].
    assert (Pa : pi_of (r_attrs r) pa = [PBody]).
    { unfold pi_of. rewrite Ca, Na, (Hfirst a Ha Ka), Fa. reflexivity. }
    assert (Pb : pi_of (r_attrs r) pb = [PBody]).
    { unfold pi_of. rewrite Cb, Nb, (Hfirst b Hb' Kb), Fb. reflexivity. }
    assert (Hpne : pa <> pb) by (intros Eq; subst pb; congruence).
    pose proof (bodies_flat_two (r_attrs r) (r_params r) pa pb Hpa Hpb Hpne Pa Pb). lia.
  - (* never a body together with form fields *)
    destruct (attrs_of KBody r) as [|a ta] eqn:Eb; [reflexivity|].
    destruct (attrs_of KForm r) as [|b tb] eqn:Ef; [reflexivity|]. exfalso.
    assert (Ha : In a (attrs_of KBody r)) by (rewrite Eb; left; reflexivity).
    assert (Hb : In b (attrs_of KForm r)) by (rewrite Ef; left; reflexivity).
    apply attrs_of_In in Ha. destruct Ha as [Ha Ka]. apply attrs_of_In in Hb. destruct Hb as [Hb Kb].
    assert (Hne : a <> b) by (intros Eq; subst b; congruence).
    destruct (in_two_split _ a b Ha Hb Hne) as [(l1 & l2 & l3 & E)|(l1 & l2 & l3 & E)].
    + replace (l1 ++ a :: l2 ++ b :: l3) with ((l1 ++ a :: l2) ++ b :: l3) in E by (rewrite <- app_assoc; reflexivity).
      destruct (Hcom _ b l3 E) as (_ & _ & H3 & _). apply (H3 Kb).
      rewrite map_app. apply in_or_app. right. left. assumption.
    + replace (l1 ++ b :: l2 ++ a :: l3) with ((l1 ++ b :: l2) ++ a :: l3) in E by (rewrite <- app_assoc; reflexivity).
      destruct (Hcom _ a l3 E) as (_ & H2 & _). apply (H2 Ka).
      rewrite map_app. apply in_or_app. right. left. assumption.
  - (* parameter types *)
    apply forallb_forall. intros a Ha. pose proof Ha as Hpa. apply param_attrs_In in Ha. destruct Ha as [Ha Hk].
    destruct (akind_eqb (la_kind a) KBody) eqn:Kb; [reflexivity|]. simpl.
    pose proof (Href a Ha Hk) as Hn. apply find_param_In in Hn. destruct Hn as [p Ep]. rewrite Ep.
    pose proof (sc_noctx r SC a p Hpa Ep) as Cp. rewrite Cp. simpl.
    pose proof Ep as Ep'. apply find_param_some in Ep'. destruct Ep' as [Hp Np].
    destruct (In_index_from 0 _ _ Hp) as [j Hj].
    assert (Hf : first_by_value (fp_name p) (r_attrs r) = Some a) by (rewrite Np; apply Hfirst; assumption).
    destruct (Ttype j p a Hj Cp Hf) as [pi [Hpi Htd]].
    assert (Kne : la_kind a <> KBody).
    { intros Eq. rewrite Eq in Kb. discriminate. }
    assert (Hvn : validate_nonbody_param j p pi = []).
    { unfold type_diag in Htd. destruct pi; try assumption. destruct (la_kind a); simpl in Hpi; congruence. }
    apply (nonbody_case j (la_kind a) p pi Hpi Kne Hvn).
    unfold sx_loose_type in Xloose. rewrite existsb_false in Xloose. specialize (Xloose a Hpa).
    rewrite Kb, Ep in Xloose. simpl in Xloose. exact Xloose.
  - (* return types *)
    unfold rets_diags in Eret. destruct (r_rets r) as [|e1 [|e2 [|e3 t]]]; simpl in *.
    + inversion Eret; subst dr. discriminate.
    + destruct e1; simpl in Eret; inversion Eret; subst dr; try discriminate; reflexivity.
    + destruct e2; simpl in Eret; inversion Eret; subst dr; try discriminate; reflexivity.
    + inversion Eret; subst dr. discriminate.
  - (* verbs *)
    apply forallb_forall. intros a Ha. apply attrs_of_In in Ha. destruct Ha as [Ha Ka].
    apply in_split in Ha. destruct Ha as [l1 [l2 E]]. destruct (Hcom l1 a l2 E) as (_ & _ & _ & _ & H5).
    apply smem_In. apply H5. assumption.
Qed.

(* ---------------------------------------------------------------- completeness (partial) *)

Lemma clash_intro : forall l before a,
  In a l -> is_param_kind (la_kind a) = true -> In (la_value a) before -> clash_go before l = true.
Proof.
  induction l as [|x t IH]; intros before a Ha Hk Hv; [destruct Ha|]. simpl.
  destruct Ha as [->|Ha].
  - rewrite Hk. apply smem_In in Hv. rewrite Hv. reflexivity.
  - apply orb_true_iff. right. apply (IH _ a Ha Hk). destruct (is_param_kind (la_kind x)); [assumption | right; assumption].
Qed.

Lemma clash_split : forall m1 before b rest a,
  is_param_kind (la_kind b) = false -> In a rest -> is_param_kind (la_kind a) = true ->
  la_value a = la_value b -> clash_go before (m1 ++ b :: rest) = true.
Proof.
  induction m1 as [|x t IH]; intros before b rest a Hb Ha Hk Hv; simpl.
  - rewrite Hb. simpl. apply (clash_intro rest _ a Ha Hk). left. symmetry; assumption.
  - apply orb_true_iff. right. eapply IH; eauto.
Qed.

Lemma first_kind : forall l before v,
  clash_go before l = false ->
  (exists a, In a l /\ is_param_kind (la_kind a) = true /\ la_value a = v) ->
  exists a, first_by_value v l = Some a /\ is_param_kind (la_kind a) = true.
Proof.
  induction l as [|x t IH]; intros before v Hc [a (Ha & Hk & Hv)]; [destruct Ha|].
  simpl in Hc. apply orb_false_iff in Hc. destruct Hc as [Hc1 Hc2].
  unfold first_by_value. simpl. destruct (str_eqb (la_value x) v) eqn:E.
  - exists x. split; [reflexivity|]. destruct (is_param_kind (la_kind x)) eqn:Kx; [reflexivity|]. exfalso.
    apply str_eqb_spec in E. destruct Ha as [->|Ha]; [congruence|].
    assert (clash_go (la_value x :: before) t = true).
    { apply (clash_intro t _ a Ha Hk). left. congruence. }
    congruence.
  - apply str_eqb_neq in E. destruct Ha as [->|Ha]; [congruence|].
    apply (IH _ v Hc2). exists a. auto.
Qed.

Lemma is_blank_nil : is_blank [] = true.
Proof. reflexivity. Qed.

Lemma supported_nonempty v : In v supported_verbs -> v <> [].
Proof. unfold supported_verbs. simpl. intros [<-|[<-|[<-|[<-|[<-|[]]]]]]; discriminate. Qed.

Lemma nodup_filter_values (f : lattr -> bool) : forall l,
  (forall l1 a l2, l = l1 ++ a :: l2 -> f a = true -> ~ In (la_value a) (map la_value l1)) ->
  NoDup (map la_value (filter f l)).
Proof.
  induction l as [|z t IH] using rev_ind; intros H; [constructor|].
  rewrite filter_app, map_app. apply NoDup_app_iff. repeat split.
  - apply IH. intros l1 a l2 E Fa. subst t. apply (H l1 a (l2 ++ [z])); [rewrite <- app_assoc; reflexivity | assumption].
  - simpl. destruct (f z); simpl; repeat constructor. intros [].
  - intros x Hx1 Hx2. simpl in Hx2. destruct (f z) eqn:Fz; simpl in Hx2; [|destruct Hx2].
    destruct Hx2 as [<-|[]]. apply (H t z [] eq_refl Fz).
    apply in_map_iff in Hx1. destruct Hx1 as [b [Eb Hb]]. apply filter_In in Hb. destruct Hb as [Hb _].
    rewrite <- Eb. apply in_map; assumption.
Qed.

Lemma real_aliases_sub pa : NoDup (map binding pa) -> NoDup (flat_map real_alias_of pa).
Proof.
  induction pa as [|a t IH]; simpl; intros H; [constructor|]. inversion H as [|? ? Hn Hd]; subst.
  apply NoDup_app_iff. repeat split; auto.
  - unfold real_alias_of. destruct (la_alias a) as [|[|c y]|]; repeat constructor; simpl; tauto.
  - intros x Hx1 Hx2. apply real_alias_of_spec in Hx1. destruct Hx1 as [Ra Ea].
    apply in_flat_map in Hx2. destruct Hx2 as [b [Hb Hx2]]. apply real_alias_of_spec in Hx2. destruct Hx2 as [Rb Eb].
    apply Hn. apply in_map_iff. exists b. split; [|assumption].
    pose proof (binding_real a Ra) as Ba. pose proof (binding_real b Rb) as Bb. congruence.
Qed.

Lemma path_key_binding a : la_alias a <> AStr [] -> path_key a = binding a.
Proof. unfold path_key, binding. destruct (la_alias a) as [|[|c y]|]; congruence. Qed.

Lemma nonbody_case_conv j k p pi :
  passed_of k = Some pi -> k <> KBody -> nonbody_type_ok k p = true ->
  ~ (fp_base p = TPrimAlias /\ fp_shape p = SPtrSlice) ->
  validate_nonbody_param j p pi = [].
Proof.
  destruct p as [n b sh]. unfold validate_nonbody_param, nonbody_type_ok, param_meta. simpl.
  intros Hp Hk Hv Hn.
  destruct k; simpl in Hp; inversion Hp; subst pi; try congruence;
    destruct b, sh; simpl in *; try reflexivity; try discriminate; exfalso; apply Hn; auto.
Qed.

Lemma pi_of_cases attrs p :
  pi_of attrs p = [] \/ exists a pi, is_ctx p = false /\ first_by_value (fp_name p) attrs = Some a
                                     /\ passed_of (la_kind a) = Some pi /\ pi_of attrs p = [pi].
Proof.
  unfold pi_of. destruct (is_ctx p) eqn:C; [left; reflexivity|].
  destruct (first_by_value (fp_name p) attrs) as [a|] eqn:F; [|left; reflexivity].
  destruct (passed_of (la_kind a)) as [pi|] eqn:Pa; [|left; reflexivity]. right. exists a, pi. repeat split; assumption.
Qed.

Lemma count_flat_zero (f : passed -> bool) attrs l :
  (forall x, In x l -> forall pi, In pi (pi_of attrs x) -> f pi = false) ->
  List.length (filter f (flat_map (pi_of attrs) l)) = 0.
Proof.
  intros H. assert (E : filter f (flat_map (pi_of attrs) l) = []).
  { apply filter_nil_iff. intros pi Hpi. apply in_flat_map in Hpi. destruct Hpi as [x [Hx Hpi]]. eauto. }
  rewrite E. reflexivity.
Qed.

Lemma passed_body k : passed_of k = Some PBody -> k = KBody.
Proof. destruct k; simpl; intros H; inversion H; reflexivity. Qed.
Lemma passed_form k : passed_of k = Some PForm -> k = KForm.
Proof. destruct k; simpl; intros H; inversion H; reflexivity. Qed.

Lemma bodies_le1 attrs : forall ps,
  NoDup (map fp_name ps) ->
  (forall a b, In a attrs -> In b attrs -> la_kind a = KBody -> la_kind b = KBody -> a = b) ->
  (bodies (flat_map (pi_of attrs) ps) <= 1)%nat.
Proof.
  induction ps as [|x t IH]; intros Hn Hone; simpl; [unfold bodies; simpl; lia|].
  inversion Hn as [|? ? Hx Hd]; subst. rewrite bodies_app. specialize (IH Hd Hone).
  destruct (pi_of_cases attrs x) as [E|(a & pi & Cx & Fx & Px & E)]; rewrite E.
  - unfold bodies at 1. simpl. lia.
  - destruct pi; try (unfold bodies at 1; simpl; lia).
    apply passed_body in Px.
    assert (Z : bodies (flat_map (pi_of attrs) t) = 0).
    { apply count_flat_zero. intros y Hy pi Hpi.
      destruct (pi_of_cases attrs y) as [Ey|(b & pi' & Cy & Fy & Py & Ey)]; rewrite Ey in Hpi; [destruct Hpi|].
      destruct Hpi as [<-|[]]. destruct pi'; try reflexivity. exfalso. apply passed_body in Py.
      apply first_by_value_some in Fx. apply first_by_value_some in Fy. destruct Fx as [Ia Va], Fy as [Ib Vb].
      assert (a = b) by (apply Hone; assumption). subst b.
      apply Hx. rewrite <- Va, Vb. apply in_map; assumption. }
    rewrite Z. unfold bodies. simpl. lia.
Qed.

Lemma bodies_pos attrs ps :
  bodies (flat_map (pi_of attrs) ps) <> 0 -> exists a, In a attrs /\ la_kind a = KBody.
Proof.
  intros H. destruct (filter is_pbody (flat_map (pi_of attrs) ps)) as [|pi l] eqn:E; [unfold bodies in H; rewrite E in H; simpl in H; congruence|].
  assert (Hin : In pi (filter is_pbody (flat_map (pi_of attrs) ps))) by (rewrite E; left; reflexivity).
  apply filter_In in Hin. destruct Hin as [Hin Hb]. apply in_flat_map in Hin. destruct Hin as [x [_ Hx]].
  destruct (pi_of_cases attrs x) as [Ex|(a & pi' & _ & Fx & Px & Ex)]; rewrite Ex in Hx; [destruct Hx|].
  destruct Hx as [<-|[]]. destruct pi'; try discriminate. apply passed_body in Px.
  apply first_by_value_some in Fx. exists a. tauto.
Qed.

Lemma forms_pos attrs ps :
  forms (flat_map (pi_of attrs) ps) <> 0 -> exists a, In a attrs /\ la_kind a = KForm.
Proof.
  intros H. destruct (filter is_pform (flat_map (pi_of attrs) ps)) as [|pi l] eqn:E; [unfold forms in H; rewrite E in H; simpl in H; congruence|].
  assert (Hin : In pi (filter is_pform (flat_map (pi_of attrs) ps))) by (rewrite E; left; reflexivity).
  apply filter_In in Hin. destruct Hin as [Hin Hb]. apply in_flat_map in Hin. destruct Hin as [x [_ Hx]].
  destruct (pi_of_cases attrs x) as [Ex|(a & pi' & _ & Fx & Px & Ex)]; rewrite Ex in Hx; [destruct Hx|].
  destruct Hx as [<-|[]]. destruct pi'; try discriminate. apply passed_form in Px.
  apply first_by_value_some in Fx. exists a. tauto.
Qed.

Theorem complete_partial r :
  in_scope r = true -> compl_excl r = false -> well_linked r = true -> accepted r = true.
Proof.
  intros Hscope Hexcl Hwl.
  pose proof (in_scope_facts r Hscope) as SC.
  unfold compl_excl in Hexcl. repeat (apply orb_false_iff in Hexcl; destruct Hexcl as [Hexcl ?X]).
  rename Hexcl into Cprefix. rename X4 into Ctwo. rename X3 into Cclash. rename X2 into Cempty.
  rename X1 into Cprim. rename X0 into Cptr. rename X into Cforeign.
  unfold well_linked in Hwl. rewrite !andb_true_iff in Hwl.
  destruct Hwl as [[[[[[[[W1 W2] W3] W4] W5] W6] W7] W8] W9].
  rewrite forallb_forall in W3, W4, W7, W9. apply Nat.leb_le in W5.
  unfold one_to_one in W2. rewrite !andb_true_iff in W2. destruct W2 as [[[W2a W2b] W2c] W2d].
  apply nodupb_spec in W2a, W2b. apply subsetb_spec in W2c, W2d.
  (* one @Route *)
  assert (Hroute : exists ra, attrs_of KRoute r = [ra]).
  { unfold cx_two_routes in Ctwo. apply Nat.ltb_ge in Ctwo.
    pose proof W1 as Hend. unfold is_endpoint in Hend. apply andb_true_iff in Hend. destruct Hend as [_ Hend].
    unfold first_value in Hend. rewrite find_filter in Hend. fold (attrs_of KRoute r) in Hend.
    destruct (attrs_of KRoute r) as [|ra [|rb t]]; simpl in *; try discriminate; [exists ra; reflexivity | lia]. }
  destruct Hroute as [ra Hra]. destruct (single_route r ra Hra) as [Eurl Eroute].
  assert (Enames : template_names (full_template r) = link_url r).
  { rewrite full_template_names by exact Cprefix. rewrite Eurl, Eroute. reflexivity. }
  rewrite Enames in W2a, W2c, W2d.
  (* every annotation of the five kinds names a non-context parameter *)
  assert (Href : forall a, In a (r_attrs r) -> is_param_kind (la_kind a) = true ->
            exists p, find_param (la_value a) r = Some p /\ is_ctx p = false /\ In p (r_params r) /\ fp_name p = la_value a).
  { intros a Ha Hk. assert (Hpa : In a (param_attrs r)) by (apply param_attrs_In; auto).
    specialize (W4 a Hpa). destruct (find_param (la_value a) r) as [p|] eqn:Ep; [|discriminate].
    exists p. pose proof (find_param_some _ _ _ Ep) as [H1 H2]. repeat split; auto. apply (sc_noctx r SC a p Hpa Ep). }
  assert (Hcount : forall a, In a (r_attrs r) -> is_param_kind (la_kind a) = true ->
            List.length (filter (fun x => is_param_kind (la_kind x) && str_eqb (la_value x) (la_value a)) (r_attrs r)) = 1).
  { intros a Ha Hk. destruct (Href a Ha Hk) as (p & Ep & Cp & Hp & Np).
    specialize (W3 p Hp). rewrite Cp in W3. simpl in W3. apply Nat.eqb_eq in W3.
    unfold count_refs, param_attrs in W3. rewrite filter_filter in W3. rewrite Np in W3. exact W3. }
  (* CommonValidator: no attribute gets an error *)
  assert (Hsplit : forall l1 a l2, r_attrs r = l1 ++ a :: l2 -> attr_ok l1 a).
  { intros l1 a l2 E.
    assert (Ha : In a (r_attrs r)) by (rewrite E; apply in_or_app; right; left; reflexivity).
    unfold attr_ok. repeat split.
    - intros Knh. destruct (la_kind a) eqn:K.
      + apply supported_nonempty. apply smem_In. apply W9. apply attrs_of_In. auto.
      + apply (sc_value r SC a Ha). auto.
      + destruct (Href a Ha) as (p & _ & _ & Hp & Np); [rewrite K; reflexivity|].
        intros E0. pose proof (sc_names r SC p Hp) as Hb. rewrite Np, E0 in Hb. discriminate.
      + destruct (Href a Ha) as (p & _ & _ & Hp & Np); [rewrite K; reflexivity|].
        intros E0. pose proof (sc_names r SC p Hp) as Hb. rewrite Np, E0 in Hb. discriminate.
      + destruct (Href a Ha) as (p & _ & _ & Hp & Np); [rewrite K; reflexivity|].
        intros E0. pose proof (sc_names r SC p Hp) as Hb. rewrite Np, E0 in Hb. discriminate.
      + destruct (Href a Ha) as (p & _ & _ & Hp & Np); [rewrite K; reflexivity|].
        intros E0. pose proof (sc_names r SC p Hp) as Hb. rewrite Np, E0 in Hb. discriminate.
      + destruct (Href a Ha) as (p & _ & _ & Hp & Np); [rewrite K; reflexivity|].
        intros E0. pose proof (sc_names r SC p Hp) as Hb. rewrite Np, E0 in Hb. discriminate.
      + apply (sc_value r SC a Ha). auto.
      + exfalso. apply (sc_known r SC a Ha K).
      + congruence.
    - intros K Hin. apply in_map_iff in Hin. destruct Hin as [b [Kb Hb]].
      assert (Hb' : In b (r_attrs r)) by (rewrite E; apply in_or_app; left; assumption).
      assert (B1 : In a (attrs_of KBody r)) by (apply attrs_of_In; auto).
      assert (B2 : In b (attrs_of KForm r)) by (apply attrs_of_In; auto).
      destruct (attrs_of KBody r); [destruct B1|]. destruct (attrs_of KForm r); [destruct B2|]. discriminate.
    - intros K Hin. apply in_map_iff in Hin. destruct Hin as [b [Kb Hb]].
      assert (Hb' : In b (r_attrs r)) by (rewrite E; apply in_or_app; left; assumption).
      assert (B1 : In b (attrs_of KBody r)) by (apply attrs_of_In; auto).
      assert (B2 : In a (attrs_of KForm r)) by (apply attrs_of_In; auto).
      destruct (attrs_of KBody r); [destruct B1|]. destruct (attrs_of KForm r); [destruct B2|]. discriminate.
    - intros Hk Hin. apply in_map_iff in Hin. destruct Hin as [b [Vb Hb]].
      apply in_split in Hb. destruct Hb as [m1 [m2 Em]]. subst l1.
      destruct (is_param_kind (la_kind b)) eqn:Kb.
      + pose proof (Hcount a Ha Hk) as Hc. rewrite E in Hc.
        rewrite <- app_assoc in Hc. simpl in Hc. rewrite filter_app in Hc. simpl in Hc.
        rewrite Kb, Vb, str_eqb_refl in Hc. simpl in Hc. rewrite filter_app in Hc. simpl in Hc.
        rewrite Hk, str_eqb_refl in Hc. simpl in Hc. rewrite !app_length in Hc. simpl in Hc.
        rewrite app_length in Hc. simpl in Hc. lia.
      + unfold cx_value_clash in Cclash. rewrite E in Cclash. rewrite <- app_assoc in Cclash. simpl in Cclash.
        rewrite (clash_split m1 [] b (m2 ++ a :: l2) a) in Cclash; auto; [discriminate|].
        apply in_or_app. right. left. reflexivity.
    - intros K. apply smem_In. apply W9. apply attrs_of_In. auto. }
  (* FindFirstByValue finds the annotation of each non-context parameter *)
  assert (Hfind : forall p, In p (r_params r) -> is_ctx p = false ->
            exists a, first_by_value (fp_name p) (r_attrs r) = Some a /\ is_param_kind (la_kind a) = true
                      /\ In a (r_attrs r) /\ la_value a = fp_name p).
  { intros p Hp Cp. specialize (W3 p Hp). rewrite Cp in W3. simpl in W3. apply Nat.eqb_eq in W3.
    assert (Hex : exists a, In a (r_attrs r) /\ is_param_kind (la_kind a) = true /\ la_value a = fp_name p).
    { unfold count_refs in W3. destruct (filter (fun a => str_eqb (la_value a) (fp_name p)) (param_attrs r)) as [|a t] eqn:Ef;
        [discriminate|].
      assert (Hin : In a (filter (fun a => str_eqb (la_value a) (fp_name p)) (param_attrs r))) by (rewrite Ef; left; reflexivity).
      apply filter_In in Hin. destruct Hin as [Hin Hv]. apply param_attrs_In in Hin. apply str_eqb_spec in Hv.
      exists a. tauto. }
    destruct (first_kind (r_attrs r) [] (fp_name p) Cclash Hex) as [a [Fa Ka]].
    exists a. pose proof (first_by_value_some _ _ _ Fa) as [H1 H2]. auto. }
  apply accepted_iff. split; [exact W1|].
  exists [], []. repeat split.
  - (* validateParams *)
    unfold params_diags. apply params_go_complete.
    + intros j p Hjp Cp. apply index_from_In in Hjp.
      destruct (Hfind p Hjp Cp) as (a & Fa & Ka & Ha & Va). exists a.
      assert (Hfp : find_param (la_value a) r = Some p).
      { rewrite Va. apply find_param_nodup; [apply (sc_nodup r SC) | assumption]. }
      assert (Hpa : In a (param_attrs r)) by (apply param_attrs_In; auto).
      destruct (la_kind a) eqn:K; simpl in Ka; try discriminate.
      * exists PPath. repeat split; auto. unfold type_diag.
        apply (nonbody_case_conv j KPath p PPath eq_refl); [discriminate| |].
        -- specialize (W7 a Hpa). rewrite K, Hfp, Cp in W7. simpl in W7. exact W7.
        -- intros [Hb Hs]. specialize (W7 a Hpa). rewrite K, Hfp, Cp in W7. simpl in W7.
           unfold nonbody_type_ok in W7. rewrite Hs in W7. simpl in W7. rewrite andb_false_r in W7. discriminate.
      * exists PQuery. repeat split; auto. unfold type_diag.
        apply (nonbody_case_conv j KQuery p PQuery eq_refl); [discriminate| |].
        -- specialize (W7 a Hpa). rewrite K, Hfp, Cp in W7. simpl in W7. exact W7.
        -- intros [Hb Hs]. unfold cx_alias_ptr_slice in Cptr. rewrite existsb_false in Cptr.
           assert (Hq : In a (attrs_of KQuery r)) by (apply attrs_of_In; auto).
           specialize (Cptr a Hq). rewrite Hfp, Hb, Hs in Cptr. discriminate.
      * exists PHeader. repeat split; auto. unfold type_diag.
        apply (nonbody_case_conv j KHeader p PHeader eq_refl); [discriminate| |].
        -- specialize (W7 a Hpa). rewrite K, Hfp, Cp in W7. simpl in W7. exact W7.
        -- intros [Hb Hs]. specialize (W7 a Hpa). rewrite K, Hfp, Cp in W7. simpl in W7.
           unfold nonbody_type_ok in W7. rewrite Hs in W7. simpl in W7. rewrite andb_false_r in W7. discriminate.
      * exists PForm. repeat split; auto. unfold type_diag.
        apply (nonbody_case_conv j KForm p PForm eq_refl); [discriminate| |].
        -- specialize (W7 a Hpa). rewrite K, Hfp, Cp in W7. simpl in W7. exact W7.
        -- intros [Hb Hs]. specialize (W7 a Hpa). rewrite K, Hfp, Cp in W7. simpl in W7.
           unfold nonbody_type_ok in W7. rewrite Hs in W7. simpl in W7. rewrite andb_false_r in W7. discriminate.
      * exists PBody. repeat split; auto. unfold type_diag, validate_body_param.
        unfold cx_primitive_body in Cprim. rewrite existsb_false in Cprim.
        assert (Hq : In a (attrs_of KBody r)) by (apply attrs_of_In; auto).
        specialize (Cprim a Hq). rewrite Hfp in Cprim. simpl in Cprim. rewrite Cprim. reflexivity.
    + simpl. unfold indexed. rewrite pis_index.
      assert (Hone : forall a b, In a (r_attrs r) -> In b (r_attrs r) -> la_kind a = KBody -> la_kind b = KBody -> a = b).
      { intros a b Ha Hb Ka Kb. apply (filter_le1 (kind_is KBody) (r_attrs r)); auto; apply kind_is_spec; assumption. }
      split.
      * apply bodies_le1; [apply (sc_nodup r SC) | exact Hone].
      * destruct (Nat.eq_dec (bodies (flat_map (pi_of (r_attrs r)) (r_params r))) 0) as [Z|NZ]; [left; exact Z|].
        right. destruct (Nat.eq_dec (forms (flat_map (pi_of (r_attrs r)) (r_params r))) 0) as [Zf|NZf]; [exact Zf|].
        exfalso. apply bodies_pos in NZ. apply forms_pos in NZf.
        destruct NZ as [a [Ha Ka]]. destruct NZf as [b [Hb Kb]].
        assert (B1 : In a (attrs_of KBody r)) by (apply attrs_of_In; auto).
        assert (B2 : In b (attrs_of KForm r)) by (apply attrs_of_In; auto).
        destruct (attrs_of KBody r); [destruct B1|]. destruct (attrs_of KForm r); [destruct B2|]. discriminate.
  - (* return types *)
    unfold rets_diags. unfold cx_foreign_error in Cforeign.
    destruct (r_rets r) as [|e1 [|e2 [|e3 t]]]; try discriminate.
    + destruct e1; simpl in *; try discriminate; reflexivity.
    + destruct e2, e1; simpl in *; try discriminate; reflexivity.
  - (* CommonValidator *)
    apply (common_diags_ok r (sc_known r SC)). apply attrs_ok_split. simpl. exact Hsplit.
  - (* link validator *)
    apply link_diags_ok.
    assert (Q2 : fst (pass2_go (fnames r) (link_url r) [] [] [] (path_attrs r)) = []).
    { apply pass2_nil; [intros x []|]. rewrite path_pvalues, real_aliases_map, path_attrs_snd. repeat split.
      - intros v Hv. apply in_map_iff in Hv. destruct Hv as [a [<- Ha]]. apply attrs_of_In in Ha. destruct Ha as [Ha Ka].
        destruct (Href a Ha) as (p & Ep & _); [rewrite Ka; reflexivity|]. apply find_param_In. eauto.
      - unfold attrs_of. apply nodup_filter_values. intros l1 a l2 E Fa. apply kind_is_spec in Fa.
        destruct (Hsplit l1 a l2 E) as (_ & _ & _ & H4 & _). apply H4. rewrite Fa. reflexivity.
      - intros v _ [].
      - intros [i a] Hia. simpl. apply (sc_alias r SC a).
        unfold path_attrs in Hia. apply filter_In in Hia. destruct Hia as [Hia _]. eapply index_from_In, Hia.
      - apply real_aliases_sub. assumption.
      - intros [].
      - apply W2d. apply in_flat_map in H. destruct H as [a [Ha Hx]]. apply real_alias_of_spec in Hx. destruct Hx as [Ra Ea].
        apply in_map_iff. exists a. split; [|assumption]. pose proof (binding_real a Ra). congruence. }
    repeat split.
    + unfold pass1.
      assert (Ead : flat_map alias_diag (path_attrs r) = []).
      { destruct (flat_map alias_diag (path_attrs r)) as [|d l] eqn:E; [reflexivity|]. exfalso.
        assert (Hd : In d (d :: l)) by (left; reflexivity). rewrite <- E in Hd. apply in_flat_map in Hd.
        destruct Hd as [[i a] [Hia Hd]]. unfold alias_diag in Hd. simpl in Hd.
        destruct (la_alias a) eqn:Ea; simpl in Hd; try contradiction.
        apply (sc_alias r SC a); [|assumption].
        unfold path_attrs in Hia. apply filter_In in Hia. destruct Hia as [Hia _]. eapply index_from_In, Hia. }
      rewrite Ead. apply url_go_nil. repeat split; auto.
      intros u Hu. specialize (W2c u Hu). apply in_map_iff in W2c. destruct W2c as [a [Eb Ha]].
      rewrite <- path_attrs_snd in Ha. apply in_map_iff in Ha. destruct Ha as [[i a'] [Ea Hia]]. simpl in Ea. subst a'.
      apply in_map_iff. exists (i, a). split; [|assumption]. simpl. rewrite <- Eb. apply path_key_binding.
      intros E0. unfold cx_empty_alias in Cempty. rewrite existsb_false in Cempty.
      assert (Hpa : In a (attrs_of KPath r)).
      { rewrite <- path_attrs_snd. apply in_map_iff. exists (i, a). auto. }
      specialize (Cempty a Hpa). rewrite E0 in Cempty. discriminate.
    + exact Q2.
    + apply pass3_nil. intros v Hv. right. apply nonpath_attrs_inv in Hv. destruct Hv as (a & Ha & Va & Ka & _).
      destruct (Href a Ha) as (p & Ep & _); [destruct (la_kind a); simpl in *; congruence|].
      apply find_param_In. rewrite <- Va. eauto.
    + apply pass4_nil. intros name Hn.
      destruct (first_param_In name 0 (r_params r) Hn) as [j [p Efp]]. unfold indexed. rewrite Efp.
      destruct (is_ctx p) eqn:Cp; [right; reflexivity|]. left.
      apply first_param_some in Efp. destruct Efp as [Hjp Np]. apply index_from_In in Hjp.
      destruct (Hfind p Hjp Cp) as (a & _ & Ka & Ha & Va).
      apply sf3_In. destruct (is_nonpath_kind (la_kind a)) eqn:Knp.
      * right. assert (Hnb : is_blank (la_value a) = false) by (rewrite Va; apply (sc_names r SC p Hjp)).
        repeat split.
        -- rewrite <- Np, <- Va. apply nonpath_attrs_In; assumption.
        -- intros E0. rewrite <- Np, <- Va in E0. rewrite E0 in Hnb. discriminate.
        -- assumption.
      * left. split; [|assumption]. rewrite path_pvalues. rewrite <- Np, <- Va. apply in_map. apply attrs_of_In.
        split; [assumption|]. destruct (la_kind a); simpl in *; congruence.
  - (* GenerateIntermediate *)
    unfold reduce_ok. apply andb_true_iff. split.
    + pose proof W1 as Hend. unfold is_endpoint in Hend. apply andb_true_iff in Hend. destruct Hend as [Hm _].
      apply existsb_exists in Hm. destruct Hm as [a [Ha Ka]].
      unfold first_value. destruct (find (kind_is KMethod) (r_attrs r)) as [m|] eqn:Ef.
      * apply find_some in Ef. destruct Ef as [Hm Km]. apply kind_is_spec in Km. simpl.
        assert (Hs : In (la_value m) supported_verbs) by (apply smem_In, W9, attrs_of_In; auto).
        apply supported_nonempty in Hs. destruct (la_value m); [congruence | reflexivity].
      * exfalso. pose proof (find_none _ _ Ef a Ha). congruence.
    + apply forallb_forall. intros p Hp. destruct (is_ctx p) eqn:Cp; [reflexivity|]. simpl.
      destruct (Hfind p Hp Cp) as (a & Fa & Ka & Ha & _). rewrite Fa.
      pose proof (sc_alias r SC a Ha) as Hal. destruct (la_alias a); try congruence;
        destruct (la_kind a); simpl in *; try discriminate; reflexivity.
Qed.

(* ---------------------------------------------------------------- the oracle on the model, the command *)

(* On the model's own verdict the oracle never reports an unexplained failure: a route that is
   accepted without being well linked, or well linked without being accepted, lies in one of
   the recorded classes (or outside the scope of the property text). *)
Theorem oracle_on_model r : prop_C10 r (accepted r) = true.
Proof.
  unfold prop_C10, prop_C10_route.
  destruct (in_scope r) eqn:Hs; simpl; [|reflexivity].
  destruct (accepted r) eqn:Ha, (well_linked r) eqn:Hw; simpl; try reflexivity.
  - destruct (sound_excl r) eqn:Hx; [reflexivity|].
    rewrite (sound_partial r Hs Hx Ha) in Hw. discriminate.
  - destruct (compl_excl r) eqn:Hx; [reflexivity|].
    rewrite (complete_partial r Hs Hx Hw) in Ha. discriminate.
Qed.

Lemma has_error_blocks r : has_error_diag r = true -> blocks r = true.
Proof.
  unfold has_error_diag, blocks. destruct (validate r); try discriminate. intros ->. reflexivity.
Qed.

Theorem no_output gen p before :
  existsb has_error_diag p = true -> run_cmd gen p before = (ExitFail, before).
Proof.
  intros H. unfold run_cmd.
  assert (E : existsb blocks p = true).
  { apply existsb_exists in H. destruct H as [r [Hr He]]. apply existsb_exists. exists r. split; [assumption|].
    apply has_error_blocks; assumption. }
  rewrite E. reflexivity.
Qed.

(* an accepted route has no error-severity diagnostic *)
Lemma accepted_no_error r : accepted r = true -> has_error_diag r = false.
Proof.
  unfold accepted, has_error_diag. destruct (validate r); try discriminate.
  intros H. apply andb_true_iff in H. destruct H as [H _]. rewrite H. reflexivity.
Qed.

(* a command that succeeds wrote both files, and only accepted routes reached the generators *)
Theorem output_only_accepted gen p before ro sp :
  run_cmd gen p before = (ExitOk, {| f_routes := Some ro; f_spec := Some sp |}) ->
  forall r, In r p -> blocks r = false.
Proof.
  unfold run_cmd. destruct (existsb blocks p) eqn:E; [discriminate|]. intros _ r Hr.
  rewrite existsb_false in E. apply E; assumption.
Qed.

(* ---------------------------------------------------------------- witnesses *)

Lemma demo_ok_facts :
  in_scope demo_ok = true /\ sound_excl demo_ok = false /\ compl_excl demo_ok = false
  /\ well_linked demo_ok = true /\ accepted demo_ok = true /\ validate demo_ok = VDiags [].
Proof. vm_compute. repeat split. Qed.

Definition refutes_sound (r : route) : Prop :=
  in_scope r = true /\ accepted r = true /\ well_linked r = false.
Definition refutes_complete (r : route) : Prop :=
  in_scope r = true /\ well_linked r = true /\ accepted r = false.

Lemma sound_witnesses :
  (refutes_sound demo_prefix /\ sx_prefix demo_prefix = true)
  /\ (refutes_sound demo_bare_path /\ sx_bare_path demo_bare_path = true)
  /\ (refutes_sound demo_two_routes /\ sx_two_routes demo_two_routes = true)
  /\ (refutes_sound demo_alias_shadow /\ sx_alias_shadow demo_alias_shadow = true)
  /\ (refutes_sound demo_loose_type /\ sx_loose_type demo_loose_type = true)
  /\ (refutes_sound demo_blank /\ sx_blank_value demo_blank = true).
Proof. unfold refutes_sound. vm_compute. repeat split. Qed.

Lemma complete_witnesses :
  (refutes_complete demo_value_clash /\ cx_value_clash demo_value_clash = true)
  /\ (refutes_complete demo_empty_alias /\ cx_empty_alias demo_empty_alias = true)
  /\ (refutes_complete demo_primitive_body /\ cx_primitive_body demo_primitive_body = true)
  /\ (refutes_complete demo_alias_ptr_slice /\ cx_alias_ptr_slice demo_alias_ptr_slice = true)
  /\ (refutes_complete demo_foreign_error /\ cx_foreign_error demo_foreign_error = true).
Proof. unfold refutes_complete. vm_compute. repeat split. Qed.

Lemma sound_refuted : exists r, in_scope r = true /\ accepted r = true /\ well_linked r = false.
Proof. exists demo_prefix. apply sound_witnesses. Qed.

Lemma complete_refuted : exists r, in_scope r = true /\ well_linked r = true /\ accepted r = false.
Proof. exists demo_value_clash. apply complete_witnesses. Qed.

(* the command on a project with one rejected route, and on a clean one *)
Lemma demo_cmd :
  forall gen before,
    run_cmd gen [demo_ok; demo_empty_alias] before = (ExitFail, before)
    /\ run_cmd gen [demo_ok] before = (ExitOk, {| f_routes := Some (fst (gen [demo_ok])); f_spec := Some (snd (gen [demo_ok])) |}).
Proof.
  intros gen before. split.
  - apply no_output. vm_compute. reflexivity.
  - unfold run_cmd. replace (existsb blocks [demo_ok]) with false by (vm_compute; reflexivity).
    replace (filter accepted [demo_ok]) with [demo_ok] by (vm_compute; reflexivity).
    destruct (gen [demo_ok]); reflexivity.
Qed.

Lemma rule_table_value :
  rule_table = [[0; 1; 0; 0; 0]; [1; 1; 0; 0; 0]; [2; 1; 1; 1; 2]; [3; 1; 1; 1; 2]; [4; 1; 1; 1; 2];
                [5; 1; 1; 1; 2; 6]; [6; 1; 0; 1; 1; 5]; [7; 1; 1; 0; 1]; [9; 0; 0; 0; 0]].
Proof. reflexivity. Qed.

(* ---------------------------------------------------------------- property warnings, @Hidden *)

(* Whatever is wrong with the properties object of an annotation is a warning ... *)
Lemma props_diags_warn i a p : no_error (props_diags i a p) = true.
Proof. unfold props_diags. destruct (la_alias a), (la_xprop a), p; reflexivity. Qed.

(* ... and it hides nothing: the error-relevant checks of validateAnnotation (required value, mutual
   exclusion, unique value, verb) come out the same with and without the unknown property key *)
Definition without_xprop (a : lattr) : lattr :=
  {| la_kind := la_kind a; la_value := la_value a; la_alias := la_alias a; la_xprop := false |}.

Lemma props_warning_masks_nothing seen uniq i a :
  no_error (common_attr seen uniq i a) = no_error (common_attr seen uniq i (without_xprop a)).
Proof. rewrite !common_attr_okb. reflexivity. Qed.

Lemma common_go_without_xprop : forall l seen uniq i,
  no_error (common_go seen uniq (index_from i l)) = no_error (common_go seen uniq (index_from i (map without_xprop l))).
Proof.
  induction l as [|a t IH]; intros seen uniq i; [reflexivity|].
  cbn [map index_from common_go]. rewrite !no_error_app.
  rewrite (props_warning_masks_nothing (la_kind a :: seen) uniq i a).
  cbn [without_xprop la_kind la_value]. f_equal. apply IH.
Qed.

Definition route_without_xprop (r : route) : route :=
  {| r_prefix := r_prefix r; r_attrs := map without_xprop (r_attrs r); r_params := r_params r; r_rets := r_rets r |}.

Theorem props_warnings_mask_nothing r :
  no_error (common_diags r) = no_error (common_diags (route_without_xprop r)).
Proof. unfold common_diags, indexed. apply common_go_without_xprop. Qed.

(* @Hidden: the property text does not know the annotation ... *)
Definition hidden_attr : lattr := mkA KHidden "".
Definition with_hidden (r : route) : route :=
  {| r_prefix := r_prefix r; r_attrs := r_attrs r ++ [hidden_attr]; r_params := r_params r; r_rets := r_rets r |}.

Lemma attrs_of_with_hidden k r : k <> KHidden -> attrs_of k (with_hidden r) = attrs_of k r.
Proof.
  intros Hk. unfold attrs_of, with_hidden. cbn [r_attrs]. rewrite filter_app. cbn [filter].
  replace (kind_is k hidden_attr) with false; [apply app_nil_r|].
  symmetry. destruct k; try reflexivity. congruence.
Qed.

Lemma param_attrs_with_hidden r : param_attrs (with_hidden r) = param_attrs r.
Proof. unfold param_attrs, with_hidden. cbn [r_attrs]. rewrite filter_app. cbn. apply app_nil_r. Qed.

Lemma first_value_with_hidden k r : k <> KHidden -> first_value k (with_hidden r) = first_value k r.
Proof.
  intros Hk. unfold first_value. rewrite !find_filter.
  change (filter (kind_is k) (r_attrs (with_hidden r))) with (attrs_of k (with_hidden r)).
  rewrite attrs_of_with_hidden by assumption. reflexivity.
Qed.

Lemma is_endpoint_with_hidden r : is_endpoint (with_hidden r) = is_endpoint r.
Proof.
  unfold is_endpoint. rewrite first_value_with_hidden by discriminate. f_equal.
  unfold with_hidden. cbn [r_attrs]. rewrite existsb_app. cbn. apply orb_false_r.
Qed.

Theorem well_linked_with_hidden r : well_linked (with_hidden r) = well_linked r.
Proof.
  unfold well_linked, full_template, the_route, count_refs.
  rewrite is_endpoint_with_hidden, param_attrs_with_hidden.
  rewrite !attrs_of_with_hidden by discriminate.
  rewrite first_value_with_hidden by discriminate.
  reflexivity.
Qed.

(* ... so a hidden route is held to the same rules: accepted only if well linked *)
Theorem hidden_not_exempt r :
  existsb (kind_is KHidden) (r_attrs r) = true ->
  in_scope r = true -> sound_excl r = false -> accepted r = true -> well_linked r = true.
Proof. intros _. apply sound_partial. Qed.

(* a hidden route with every kind of annotation; the same with a URL parameter nobody binds *)
Definition demo_hidden_ok : route := with_hidden demo_ok.
Definition demo_hidden_unbound : route :=
  mkR "/items" [mkA KMethod "GET"; mkA KRoute "/{id}/revisions/{rev}"; mkA KPath "id"; mkA KHidden ""]
    [mkP "id" TPrim SPlain] [RPlain; RError].
(* one annotation with a misspelt property key AND a second reference to a parameter; an unsupported verb
   with a property *)
Definition demo_xprop_double_ref : route :=
  mkR "/items" [mkA KMethod "GET"; mkA KRoute "/{id}"; mkA KPath "id";
                {| la_kind := KHeader; la_value := s "id"; la_alias := AStr (s "x-token"); la_xprop := true |}]
    [mkP "id" TPrim SPlain] [RPlain; RError].
Definition demo_xprop_verb : route :=
  mkR "/items" [mkAX KMethod "TRACE"; mkA KRoute "/{id}"; mkA KPath "id"] [mkP "id" TPrim SPlain] [RPlain; RError].

Lemma demo_hidden_facts :
  (in_scope demo_hidden_ok = true /\ well_linked demo_hidden_ok = true /\ accepted demo_hidden_ok = true
   /\ validate demo_hidden_ok = VDiags [])
  /\ (in_scope demo_hidden_unbound = true /\ sound_excl demo_hidden_unbound = false
      /\ well_linked demo_hidden_unbound = false /\ has_error_diag demo_hidden_unbound = true).
Proof. vm_compute. repeat split. Qed.

Lemma demo_xprop_facts :
  (in_scope demo_xprop_double_ref = true /\ well_linked demo_xprop_double_ref = false
   /\ has_error_diag demo_xprop_double_ref = true
   /\ obs_of (validate demo_xprop_double_ref) = (2, [(6, 2); (9, 1)]))
  /\ (in_scope demo_xprop_verb = true /\ well_linked demo_xprop_verb = false
      /\ obs_of (validate demo_xprop_verb) = (2, [(5, 2); (4, 1)])).
Proof. vm_compute. repeat split. Qed.

(* ---------------------------------------------------------------- parameters declared together *)

(* The type check of a bound parameter is made for THAT parameter under the kind of ITS annotation, wherever it
   stands in the list and whatever was processed before it: its diagnostics are among those of validateParams. *)
Lemma params_go_each attrs : forall l processed ds j p a pi,
  params_go attrs processed l = Some ds -> In (j, p) l -> is_ctx p = false ->
  first_by_value (fp_name p) attrs = Some a -> passed_of (la_kind a) = Some pi ->
  incl (type_diag j p pi) ds.
Proof.
  induction l as [|[j0 p0] t IH]; intros processed ds j p a pi Hgo Hin Hctx Hf Hp; [destruct Hin|].
  cbn [params_go] in Hgo. destruct Hin as [E|Hin].
  - inversion E; subst j0 p0. rewrite Hctx, Hf, Hp in Hgo.
    destruct (params_go attrs (processed ++ [pi]) t) as [rest|]; [|discriminate].
    inversion Hgo; subst ds. unfold type_diag. apply incl_appl, incl_refl.
  - destruct (is_ctx p0); [eapply IH; eauto|].
    destruct (first_by_value (fp_name p0) attrs) as [a0|]; [|eapply IH; eauto].
    destruct (passed_of (la_kind a0)) as [pi0|]; [|discriminate].
    destruct (params_go attrs (processed ++ [pi0]) t) as [rest|] eqn:Erest; [|discriminate].
    inversion Hgo; subst ds. apply incl_appr, incl_appr. eapply IH; eauto.
Qed.

Theorem each_parameter_type_diags_reported r l j p a pi :
  validate r = VDiags l -> In (j, p) (indexed (r_params r)) -> is_ctx p = false ->
  first_by_value (fp_name p) (r_attrs r) = Some a -> passed_of (la_kind a) = Some pi ->
  incl (type_diag j p pi) l.
Proof.
  unfold validate. intros Hv Hin Hctx Hf Hp.
  destruct (negb (is_endpoint r)); [discriminate|].
  destruct (params_diags r) as [dp|] eqn:Edp; [|discriminate].
  destruct (rets_diags r) as [dr|]; [|discriminate].
  inversion Hv; subst l. apply incl_appr, incl_appl.
  unfold params_diags in Edp. eapply params_go_each; eauto.
Qed.

Lemma type_diag_nil_any_index j j' p pi : type_diag j p pi = [] -> type_diag j' p pi = [].
Proof.
  unfold type_diag, validate_body_param, validate_nonbody_param.
  destruct pi; repeat match goal with |- context [if ?c then _ else _] => destruct c end;
    intros H; try reflexivity; discriminate.
Qed.

(* ... so an accepted route has no bound parameter whose type does not suit the kind of its own annotation *)
Theorem accepted_every_parameter_suits_its_kind r j p a pi :
  accepted r = true -> In p (r_params r) -> is_ctx p = false ->
  first_by_value (fp_name p) (r_attrs r) = Some a -> passed_of (la_kind a) = Some pi ->
  type_diag j p pi = [].
Proof.
  unfold accepted. intros Hacc Hin Hctx Hf Hp.
  destruct (validate r) as [| |l] eqn:Ev; try discriminate.
  apply andb_true_iff in Hacc. destruct Hacc as [Hne _].
  destruct (In_index_from 0 (r_params r) p Hin) as [j0 Hj0].
  apply (type_diag_nil_any_index j0).
  apply all_errors_nil; [apply type_diag_errors|].
  rewrite no_error_In in *. intros d Hd. apply Hne.
  eapply each_parameter_type_diags_reported; eauto.
Qed.

(* A declaration `n1, n2, ... T`: the names share the type, nothing else.  The model has the flat list of
   parameters, so its verdict cannot depend on how the parameters are grouped into declarations; what remains to
   say is that the names of ONE declaration are judged one by one, each by the annotation that binds it. *)
Definition decl : Type := (list str * tbase * tshape)%type.
Definition decl_params (d : decl) : list fparam :=
  let '(ns, b, sh) := d in map (fun n => {| fp_name := n; fp_base := b; fp_shape := sh |}) ns.
Definition params_of_decls (ds : list decl) : list fparam := flat_map decl_params ds.

Theorem declared_together_judged_separately r ds ns b sh n a pi j :
  r_params r = params_of_decls ds -> accepted r = true ->
  In (ns, b, sh) ds -> In n ns ->
  let p := {| fp_name := n; fp_base := b; fp_shape := sh |} in
  is_ctx p = false -> first_by_value n (r_attrs r) = Some a -> passed_of (la_kind a) = Some pi ->
  type_diag j p pi = [].
Proof.
  intros Hps Hacc Hd Hn p Hctx Hf Hp.
  apply (accepted_every_parameter_suits_its_kind r j p a pi); auto.
  rewrite Hps. unfold params_of_decls. apply in_flat_map. exists (ns, b, sh). split; [assumption|].
  cbn [decl_params]. apply in_map_iff. exists n. split; [reflexivity | assumption].
Qed.

(* `ListItems(tags, labels []string)` with @Query(tags) @Header(labels); `Search(payload, filter Item)` with
   @Body(payload) @Query(filter); `Get(id, name, trace string)` with @Path(id) @Query(name) @Header(trace) *)
Definition demo_grouped_slice_header : route :=
  mkR "/c" [mkA KMethod "GET"; mkA KRoute "/items"; mkA KQuery "tags"; mkA KHeader "labels"]
    (params_of_decls [([s "tags"; s "labels"], TPrim, SSlice)]) [RError].
Definition demo_grouped_struct_query : route :=
  mkR "/c" [mkA KMethod "POST"; mkA KRoute "/search"; mkA KBody "payload"; mkA KQuery "filter"]
    (params_of_decls [([s "payload"; s "filter"], TStruct, SPlain)]) [RError].
Definition demo_grouped_ok : route :=
  mkR "/c" [mkA KMethod "GET"; mkA KRoute "/items/{id}"; mkA KPath "id"; mkA KQuery "name"; mkA KHeader "trace"]
    (params_of_decls [([s "id"; s "name"; s "trace"], TPrim, SPlain)]) [RPlain; RError].

Definition demo_trace : fparam := mkP "trace" TPrim SPlain.

Lemma demo_grouped_facts :
  (in_scope demo_grouped_slice_header = true /\ well_linked demo_grouped_slice_header = false
   /\ validate demo_grouped_slice_header = VDiags [err CParamNotPrimitive (AnParam 1)]
   /\ accepted demo_grouped_slice_header = false)
  /\ (in_scope demo_grouped_struct_query = true /\ well_linked demo_grouped_struct_query = false
      /\ validate demo_grouped_struct_query = VDiags [err CParamNotPrimitive (AnParam 1)]
      /\ accepted demo_grouped_struct_query = false)
  /\ (in_scope demo_grouped_ok = true /\ well_linked demo_grouped_ok = true /\ accepted demo_grouped_ok = true
      /\ type_diag 2 demo_trace PHeader = []).
Proof. vm_compute. repeat split. Qed.
