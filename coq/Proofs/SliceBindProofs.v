(* List-valued parameters of the handler model: one element per occurrence of the wire name. *)
From Gleece Require Import Base.Bytes Model.Project Model.Spec Model.Security Model.Bind Model.Handler
     Proofs.HandlerProofs Model.SliceBind.
From Coq Require Import String List NArith ZArith Bool Lia.
Import ListNotations.
Open Scope list_scope.

Definition slice_param (p : param) : Prop :=
  pa_ctx p = false /\ pa_loc p <> LBody /\ pa_slice p = true.

Lemma convert_all_some ty raws : forall vs,
  convert_all ty raws = Some vs <-> Forall2 (fun r v => convert ty r = Some v) raws vs.
Proof.
  induction raws as [|r t IH]; intros vs; simpl.
  - split; intros H.
    + injection H as <-. constructor.
    + inversion H. reflexivity.
  - destruct (convert ty r) as [v|] eqn:Ec.
    + destruct (convert_all ty t) as [ws|] eqn:Ea.
      * split; intros H.
        -- injection H as <-. constructor; [exact Ec|]. apply IH. reflexivity.
        -- inversion H as [|r' v' t' vt Hr Ht]; subst. rewrite Ec in Hr. injection Hr as <-.
           apply IH in Ht. injection Ht as <-. reflexivity.
      * split; intros H; [discriminate H|].
        inversion H as [|r' v' t' vt Hr Ht]; subst. apply IH in Ht. discriminate Ht.
    + split; intros H; [discriminate H|].
      inversion H as [|r' v' t' vt Hr Ht]; subst. rewrite Ec in Hr. discriminate Hr.
Qed.

Lemma convert_all_none ty raws :
  convert_all ty raws = None <-> exists r, In r raws /\ convert ty r = None.
Proof.
  induction raws as [|r t IH]; simpl.
  - split; [intros H; discriminate H|intros [r [[] _]]].
  - destruct (convert ty r) as [v|] eqn:Ec.
    + destruct (convert_all ty t) as [ws|] eqn:Ea.
      * split; [intros H; discriminate H|].
        intros [x [[<-|Hin] Hx]]; [rewrite Ec in Hx; discriminate Hx|].
        destruct IH as [_ IH]. assert (H : @None (list value) = None) by reflexivity.
        exfalso. assert (Hn : Some ws = None) by (apply IH; exists x; split; assumption). discriminate Hn.
      * split; [|reflexivity]. intros _. destruct IH as [IH _]. destruct (IH eq_refl) as [x [Hin Hx]].
        exists x. split; [right; exact Hin|exact Hx].
    + split; [|reflexivity]. intros _. exists r. split; [left; reflexivity|exact Ec].
Qed.

Lemma bind_slice_unfold authn rq p ty raws :
  slice_param p -> prim_of (pa_type p) = Some ty ->
  lookup (rq_fields rq) (pa_loc p) (wire_name p) = Some raws -> raws <> [] ->
  bind_param authn rq p =
  match convert_all ty raws with
  | None => BReject
  | Some vs => of_verdict (run_rules rule_on_list (rules_of (reduced_validator p)) (List.length vs)) (AList vs)
  end.
Proof.
  intros [Hc [Hl Hs]] Hty Hlk Hne. unfold bind_param. rewrite Hc.
  destruct raws as [|r0 rt]; [contradiction Hne; reflexivity|].
  destruct (pa_loc p) eqn:El; try contradiction; rewrite Hty, Hs, Hlk; reflexivity.
Qed.

(* what the method receives for a list-valued parameter: exactly one element per occurrence of the wire
   name at the declared location, the i-th element being the conversion of the i-th occurrence - no
   occurrence is split, merged, dropped or reordered, whatever characters it contains *)
Theorem slice_bound_elementwise authn rq p ty raws a :
  slice_param p -> prim_of (pa_type p) = Some ty ->
  lookup (rq_fields rq) (pa_loc p) (wire_name p) = Some raws -> raws <> [] ->
  bind_param authn rq p = BArg a ->
  exists vs, a = AList vs /\ Forall2 (fun r v => convert ty r = Some v) raws vs.
Proof.
  intros Hsp Hty Hlk Hne Hb. rewrite (bind_slice_unfold authn rq p ty raws Hsp Hty Hlk Hne) in Hb.
  destruct (convert_all ty raws) as [vs|] eqn:Ea; [|discriminate Hb].
  exists vs. split; [|apply convert_all_some; exact Ea].
  unfold of_verdict in Hb.
  destruct (run_rules rule_on_list (rules_of (reduced_validator p)) (List.length vs)) as [[|]|]; try discriminate Hb.
  injection Hb as <-. reflexivity.
Qed.

(* one occurrence that is no representation of the element type refuses the whole request *)
Theorem slice_unconvertible_rejected authn rq p ty raws r :
  slice_param p -> prim_of (pa_type p) = Some ty ->
  lookup (rq_fields rq) (pa_loc p) (wire_name p) = Some raws -> In r raws -> convert ty r = None ->
  bind_param authn rq p = BReject.
Proof.
  intros Hsp Hty Hlk Hin Hr.
  assert (Hne : raws <> []) by (intros ->; contradiction Hin).
  rewrite (bind_slice_unfold authn rq p ty raws Hsp Hty Hlk Hne).
  assert (Ea : convert_all ty raws = None) by (apply convert_all_none; exists r; split; assumption).
  rewrite Ea. reflexivity.
Qed.

(* every occurrence converts and the only rule is `required`: the list arrives *)
Theorem slice_all_convert_bound authn rq p ty raws vs :
  slice_param p -> prim_of (pa_type p) = Some ty -> only_required (reduced_validator p) ->
  lookup (rq_fields rq) (pa_loc p) (wire_name p) = Some raws -> raws <> [] ->
  Forall2 (fun r v => convert ty r = Some v) raws vs ->
  bind_param authn rq p = BArg (AList vs).
Proof.
  intros Hsp Hty Hor Hlk Hne Hf. rewrite (bind_slice_unfold authn rq p ty raws Hsp Hty Hlk Hne).
  apply convert_all_some in Hf. rewrite Hf.
  rewrite (run_rules_only_required rule_on_list (rules_of (reduced_validator p)) (List.length vs));
    [reflexivity|intros r x ->; reflexivity|exact Hor].
Qed.

(* the oracle of the check (Model/SliceBind.v, written from the property text) accepts what the handler
   model does with a list-valued parameter, and nothing else *)
Lemma same_values_carried ty raws : forall vs,
  Forall2 (fun r v => convert ty r = Some v) raws vs -> same_values vs (carried ty raws) = true.
Proof.
  induction raws as [|r t IH]; intros vs H; inversion H as [|r' v' t' vt Hr Ht]; subst; simpl; [reflexivity|].
  rewrite Hr. rewrite (IH vt Ht).
  assert (Hv : value_eqb v' v' = true).
  { destruct v'; simpl; [apply str_eqb_spec; reflexivity|apply Z.eqb_refl|apply N.eqb_refl|destruct b; reflexivity]. }
  rewrite Hv. reflexivity.
Qed.

Lemma carried_all_some ty raws :
  forallb is_some (carried ty raws) = true <-> exists vs, convert_all ty raws = Some vs.
Proof.
  induction raws as [|r t IH]; simpl.
  - split; [intros _; exists []; reflexivity|reflexivity].
  - destruct (convert ty r) as [v|] eqn:Ec; simpl.
    + rewrite IH. split; intros [vs H].
      * rewrite H. exists (v :: vs). reflexivity.
      * destruct (convert_all ty t) as [ws|]; [exists ws; reflexivity|discriminate H].
    + split; [intros H; discriminate H|intros [vs H]; discriminate H].
Qed.

Theorem slice_oracle_accepts_model authn rq p ty raws :
  slice_param p -> prim_of (pa_type p) = Some ty -> only_required (reduced_validator p) ->
  lookup (rq_fields rq) (pa_loc p) (wire_name p) = Some raws -> raws <> [] ->
  match bind_param authn rq p with
  | BArg (AList vs) => forall st, prop_C05_slice_request ty raws true st (Some vs) false = true
  | BReject => forall got, prop_C05_slice_request ty raws false 422 got false = true
  | _ => False
  end.
Proof.
  intros Hsp Hty Hor Hlk Hne.
  destruct (convert_all ty raws) as [vs|] eqn:Ea.
  - pose proof (proj1 (convert_all_some ty raws vs) Ea) as Hf.
    rewrite (slice_all_convert_bound authn rq p ty raws vs Hsp Hty Hor Hlk Hne Hf).
    intros st. unfold prop_C05_slice_request. destruct raws as [|r0 rt]; [reflexivity|].
    assert (Hs : forallb is_some (carried ty (r0 :: rt)) = true) by (apply carried_all_some; exists vs; exact Ea).
    rewrite Hs. apply same_values_carried. exact Hf.
  - rewrite (bind_slice_unfold authn rq p ty raws Hsp Hty Hlk Hne), Ea.
    intros got. unfold prop_C05_slice_request. destruct raws as [|r0 rt]; [reflexivity|].
    destruct (forallb is_some (carried ty (r0 :: rt))) eqn:Hs; [|reflexivity].
    apply carried_all_some in Hs. destruct Hs as [vs Hvs]. rewrite Ea in Hvs. discriminate Hvs.
Qed.

(* a comma inside ONE occurrence is part of the value; two occurrences are two elements; "1,2" is no int *)
Definition slice_demo_param (ty : string) : param :=
  mkParam (s "xs") false LQuery (Some (s "x")) (s ty) false true None.

Definition slice_demo_rq (vals : list String.string) : request :=
  mkReq [(LQuery, s "x", map s vals)] BEmpty.

Example slice_demo :
  bind_param 0 (slice_demo_rq ["Lovelace, Ada"%string]) (slice_demo_param "string") = BArg (AList [VStr (s "Lovelace, Ada")]) /\
  bind_param 0 (slice_demo_rq ["a"%string; "b,c"%string]) (slice_demo_param "string") = BArg (AList [VStr (s "a"); VStr (s "b,c")]) /\
  bind_param 0 (slice_demo_rq ["1843,1952"%string]) (slice_demo_param "int") = BReject /\
  bind_param 0 (slice_demo_rq ["1843"%string; "1952"%string]) (slice_demo_param "int") = BArg (AList [VInt 1843; VInt 1952]) /\
  prop_C05_slice_request PString [s "Lovelace, Ada"] true 200 (Some [VStr (s "Lovelace"); VStr (s " Ada")]) false = false /\
  prop_C05_slice_request PInt [s "1843,1952"] true 200 (Some [VInt 1843; VInt 1952]) false = false /\
  prop_C05_slice_request PInt [s "1843,1952"] false 422 None false = true.
Proof. vm_compute. repeat split; reflexivity. Qed.
