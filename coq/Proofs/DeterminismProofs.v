From Gleece Require Import Base.Bytes Base.Sorting Model.Determinism.
From Coq Require Import Permutation.
Open Scope list_scope.

(* Every emitted order is a function of the sorted inputs, hence of the input up to permutation. *)
Theorem routes_order_perm files files' ctrls ctrls' :
  Permutation files files' -> Permutation ctrls ctrls' ->
  NoDup (map f_path files) -> NoDup ctrls ->
  routes_order files ctrls = routes_order files' ctrls'.
Proof.
  intros Hf Hc Nf Nc. unfold routes_order, receivers.
  assert (NoDup (map id_key ctrls)) as Nc' by (unfold id_key; rewrite map_id; exact Nc).
  rewrite (sort_by_perm_eq f_path files files' Hf Nf).
  rewrite (sort_by_perm_eq id_key ctrls ctrls' Hc Nc').
  reflexivity.
Qed.

Theorem routes_file_order_perm files files' ctrls ctrls' :
  Permutation files files' -> Permutation ctrls ctrls' ->
  NoDup (map f_path files) -> NoDup ctrls ->
  routes_file_order files ctrls = routes_file_order files' ctrls'.
Proof.
  intros Hf Hc Nf Nc. unfold routes_file_order.
  rewrite (routes_order_perm files files' ctrls ctrls' Hf Hc Nf Nc). reflexivity.
Qed.

Theorem render_sorted_perm {V} (kvs kvs' : list (str * V)) :
  Permutation kvs kvs' -> NoDup (map fst kvs) -> render_sorted kvs = render_sorted kvs'.
Proof. intros Hp Hn. apply sort_by_perm_eq; auto. Qed.

Lemma all_equal_spec {A} (eqb : A -> A -> bool) (H : forall x y, eqb x y = true <-> x = y) l :
  all_equal eqb l = true <-> forall x y, In x l -> In y l -> x = y.
Proof.
  induction l as [|a l IH]; simpl.
  - split; auto. intros _ x y [].
  - rewrite andb_true_iff, forallb_forall, IH. split.
    + intros [Ha Hl] x y [Ex|Hx] [Ey|Hy]; subst; auto.
      * apply H. apply Ha; auto.
      * symmetry. apply H. apply Ha; auto.
    + intros Hall. split.
      * intros x Hx. apply H. apply Hall; auto.
      * intros x y Hx Hy. apply Hall; auto.
Qed.

Theorem prop_C13_spec hashes :
  prop_C13 hashes = true <-> forall x y, In x hashes -> In y hashes -> x = y.
Proof. apply all_equal_spec. apply str_eqb_spec. Qed.

(* non-vacuity: two files, two controllers, methods interleaved, shared imported type *)
From Coq Require Import String.
Definition demo_files : list srcfile :=
  let U (isp : bool) (n k : string) (imp : bool) := mkUse isp (s n) (s k) imp in
  [ mkFile (s "/p/b.go") [ mkMeth (s "B") (s "M1") [U false "error" "error" false; U true "q" "Item" true] ;
                           mkMeth (s "A") (s "M2") [U false "Item" "Item" true; U false "error" "error" false] ];
    mkFile (s "/p/a.go") [ mkMeth (s "A") (s "M0") [U false "error" "error" false; U true "x" "string" false];
                           mkMeth (s "B") (s "M3") [U false "error" "error" false; U true "y" "Other" true] ] ]%string.

Example demo_order :
  routes_file_order demo_files [s "B"; s "A"]%string =
  ([(s "A", [s "M0"; s "M2"]); (s "B", [s "M3"; s "M1"])],
   [(false, 2%N, s "Item"); (true, 3%N, s "y"); (true, 2%N, s "q")])%string /\
  routes_file_order (rev demo_files) [s "A"; s "B"]%string = routes_file_order demo_files [s "B"; s "A"]%string.
Proof. vm_compute. split; reflexivity. Qed.
