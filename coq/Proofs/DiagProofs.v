(* Proofs about Model/Diag.v (C18). *)
From Gleece Require Import Base.Bytes Model.Annot Model.Linker Model.Diag Proofs.LinkerProofs.
From Coq Require Import String.
Open Scope list_scope.

(* ---------------------------------------------------------------- strings.Index *)

Lemma has_prefix_firstn p t : has_prefix p t = true -> firstn (List.length p) t = p.
Proof.
  revert t; induction p as [|x p IH]; intros t H; simpl; [reflexivity|].
  destruct t as [|y t]; simpl in H; [discriminate|].
  apply andb_true_iff in H. destruct H as [H1 H2]. apply beqb_spec in H1. subst y. rewrite (IH t H2). reflexivity.
Qed.

Lemma has_prefix_length p t : has_prefix p t = true -> (List.length p <= List.length t)%nat.
Proof.
  revert t; induction p as [|x p IH]; intros t H; simpl; [lia|].
  destruct t as [|y t]; simpl in H; [discriminate|]. apply andb_true_iff in H. destruct H as [_ H2].
  specialize (IH t H2). simpl. lia.
Qed.

Lemma index_of_cons p c t :
  index_of p (c :: t) = if has_prefix p (c :: t) then Some 0 else option_map S (index_of p t).
Proof. reflexivity. Qed.

(* the value occurs at the index that is returned *)
Lemma index_of_spec p : forall t i,
  index_of p t = Some i -> has_prefix p (skipn i t) = true /\ (i + List.length p <= List.length t)%nat.
Proof.
  induction t as [|c t IH]; intros i H.
  - simpl in H. destruct (has_prefix p []) eqn:E; [|discriminate]. inversion H; subst. simpl.
    split; [assumption|]. apply has_prefix_length in E. simpl in *. lia.
  - rewrite index_of_cons in H. destruct (has_prefix p (c :: t)) eqn:E.
    + inversion H; subst. simpl. split; [assumption|]. apply has_prefix_length in E. simpl in *. lia.
    + destruct (index_of p t) as [j|] eqn:Ej; [|discriminate]. inversion H; subst. simpl.
      destruct (IH j eq_refl) as [H1 H2]. split; [assumption | lia].
Qed.

(* ---------------------------------------------------------------- runes and bytes *)

Lemma rune_count_le t : (rune_count t <= blen t)%N.
Proof.
  unfold rune_count, blen.
  assert (H : (List.length (filter (fun b => negb (is_cont b)) t) <= List.length t)%nat).
  { induction t as [|b t IH]; simpl; [lia|]. destruct (negb (is_cont b)); simpl; lia. }
  lia.
Qed.

Lemma ascii_not_cont b : is_ascii b = true -> is_cont b = false.
Proof.
  unfold is_ascii, is_cont, in_range. intros H. apply N.ltb_lt in H.
  destruct (N.leb 128 (bN b)) eqn:E; [|reflexivity]. apply N.leb_le in E. lia.
Qed.

Lemma rune_count_ascii t : forallb is_ascii t = true -> rune_count t = blen t.
Proof.
  unfold rune_count, blen. intros H. f_equal.
  induction t as [|b t IH]; simpl in *; [reflexivity|].
  apply andb_true_iff in H. destruct H as [H1 H2]. rewrite (ascii_not_cont b H1). simpl. rewrite (IH H2). reflexivity.
Qed.

Lemma blen_firstn i t : (i <= List.length t)%nat -> blen (firstn i t) = N.of_nat i.
Proof. intros H. unfold blen. rewrite firstn_length. f_equal. lia. Qed.

(* ---------------------------------------------------------------- GetValueRange *)

Lemma pos_leb_same l a b : (a <= b)%N -> pos_leb l a l b = true.
Proof. intros H. unfold pos_leb. rewrite N.eqb_refl. simpl. apply N.leb_le in H. rewrite H. apply orb_true_r. Qed.

Lemma inside_same_line l a b c d :
  (c <= a)%N -> (a <= b)%N -> (b <= d)%N ->
  inside {| g_sl := l; g_sc := a; g_el := l; g_ec := b |} {| g_sl := l; g_sc := c; g_el := l; g_ec := d |} = true.
Proof.
  intros H1 H2 H3. unfold inside. simpl. rewrite !pos_leb_same by assumption. reflexivity.
Qed.

(* the value range lies inside its comment, start not after end, whatever the texts *)
Theorem value_range_inside c v : inside (value_range c v) (comment_range c) = true.
Proof.
  unfold value_range, comment_range.
  destruct (is_nil (c_text c)) eqn:En.
  - apply inside_same_line; try lia.
  - destruct (index_of v (c_text c)) as [idx|] eqn:Ei.
    + destruct (index_of_spec v _ _ Ei) as [_ Hlen].
      pose proof (rune_count_le (firstn idx (c_text c))) as R1. pose proof (rune_count_le v) as R2.
      rewrite blen_firstn in R1 by lia. unfold blen in *.
      apply inside_same_line; lia.
    + apply inside_same_line; lia.
Qed.

(* with an ASCII prefix and an ASCII value (always the case for an annotation: the regex admits
   nothing else in front of and inside the parentheses) the range is the byte span of the
   occurrence, and the text under it is the value *)
Theorem value_range_covers c v idx :
  c_text c <> [] -> index_of v (c_text c) = Some idx ->
  forallb is_ascii (firstn idx (c_text c)) = true -> forallb is_ascii v = true ->
  value_range c v = {| g_sl := c_line c; g_sc := c_col c + N.of_nat idx; g_el := c_line c;
                       g_ec := c_col c + N.of_nat idx + blen v |}
  /\ firstn (List.length v) (skipn idx (c_text c)) = v.
Proof.
  intros Hne Hi Ha Hv. destruct (index_of_spec v _ _ Hi) as [Hp Hlen]. split.
  - unfold value_range. destruct (is_nil (c_text c)) eqn:En; [apply is_nil_spec in En; contradiction|].
    rewrite Hi. rewrite (rune_count_ascii _ Ha), (rune_count_ascii _ Hv). rewrite blen_firstn by lia. reflexivity.
  - apply has_prefix_firstn. assumption.
Qed.

(* the same, read on the source line: the comment sits at byte column [length pre] of the line *)
Theorem value_range_covers_line c v idx pre post :
  c_text c <> [] -> index_of v (c_text c) = Some idx ->
  forallb is_ascii (firstn idx (c_text c)) = true -> forallb is_ascii v = true ->
  c_col c = blen pre ->
  let g := value_range c v in
  firstn (N.to_nat (g_ec g - g_sc g)) (skipn (N.to_nat (g_sc g)) (pre ++ c_text c ++ post)) = v.
Proof.
  intros Hne Hi Ha Hv Hcol g. destruct (value_range_covers c v idx Hne Hi Ha Hv) as [Eg Hf].
  destruct (index_of_spec v _ _ Hi) as [_ Hlen].
  subst g. rewrite Eg. simpl. rewrite Hcol. unfold blen.
  replace (N.to_nat (N.of_nat (List.length pre) + N.of_nat idx + N.of_nat (List.length v) - (N.of_nat (List.length pre) + N.of_nat idx)))
    with (List.length v) by lia.
  replace (N.to_nat (N.of_nat (List.length pre) + N.of_nat idx)) with (List.length pre + idx)%nat by lia.
  rewrite skipn_app. rewrite skipn_all2 by lia. simpl.
  replace (List.length pre + idx - List.length pre)%nat with idx by lia.
  rewrite skipn_app. rewrite firstn_app.
  rewrite skipn_length.
  replace (List.length v - (List.length (c_text c) - idx))%nat with 0%nat by lia.
  simpl. rewrite app_nil_r. exact Hf.
Qed.

Lemma rune_count_app a b : rune_count (a ++ b) = (rune_count a + rune_count b)%N.
Proof. unfold rune_count. rewrite filter_app, app_length. lia. Qed.

Lemma firstn_add {A} i j (l : list A) : firstn (i + j) l = firstn i l ++ firstn j (skipn i l).
Proof.
  revert l; induction i as [|i IH]; intros l; simpl; [reflexivity|].
  destruct l as [|x l]; simpl; [destruct j; reflexivity|]. rewrite IH. reflexivity.
Qed.

(* the URL-parameter range lies inside the comment too (the route value occurs in its comment) *)
Theorem url_param_range_inside c v param idx :
  c_text c <> [] -> index_of v (c_text c) = Some idx ->
  inside (url_param_range c v param) (comment_range c) = true.
Proof.
  intros Hne Hi. unfold url_param_range.
  destruct (index_of (c_lbrace :: param ++ [c_rbrace]) v) as [pidx|] eqn:Ep; [|apply value_range_inside].
  destruct (index_of_spec _ _ _ Ep) as [_ Hlen]. simpl in Hlen. rewrite app_length in Hlen. simpl in Hlen.
  destruct (index_of_spec _ _ _ Hi) as [_ Hlen2].
  unfold value_range, comment_range.
  destruct (is_nil (c_text c)) eqn:En; [apply is_nil_spec in En; contradiction|]. rewrite Hi. simpl.
  replace (pidx + List.length param + 2)%nat with (pidx + (List.length param + 2))%nat by lia.
  rewrite firstn_add, rune_count_app.
  pose proof (rune_count_le (firstn idx (c_text c))) as R0. rewrite blen_firstn in R0 by lia.
  pose proof (rune_count_le (firstn pidx v)) as R1. rewrite blen_firstn in R1 by lia.
  pose proof (rune_count_le (firstn (List.length param + 2) (skipn pidx v))) as R2.
  rewrite blen_firstn in R2 by (rewrite skipn_length; lia).
  unfold blen. apply inside_same_line; lia.
Qed.

(* ---------------------------------------------------------------- byteOffsetToLineCol *)

Definition plain_byte (b : byte) : bool := is_ascii b && negb (beqb b x0d) && negb (beqb b x0a).

Lemma rune_len_ascii b : is_ascii b = true -> rune_len b = 1%nat.
Proof.
  unfold is_ascii, rune_len, in_range. intros H. apply N.ltb_lt in H.
  replace (N.leb 194 (bN b)) with false by (symmetry; apply N.leb_gt; lia).
  replace (N.leb 224 (bN b)) with false by (symmetry; apply N.leb_gt; lia).
  replace (N.leb 240 (bN b)) with false by (symmetry; apply N.leb_gt; lia).
  reflexivity.
Qed.

Lemma botlc_plain : forall k t i fuel line col,
  (k <= List.length t)%nat -> (k < fuel)%nat -> forallb plain_byte (firstn k t) = true ->
  botlc fuel t i (i + k) line col = (line, (col + N.of_nat k)%N).
Proof.
  induction k as [|k IH]; intros t i fuel line col Hl Hf Hp.
  - destruct fuel; [lia|]. simpl. rewrite Nat.add_0_r, Nat.ltb_irrefl. f_equal. lia.
  - destruct fuel as [|f]; [lia|]. destruct t as [|c t]; [simpl in Hl; lia|].
    simpl in Hp. apply andb_true_iff in Hp. destruct Hp as [Hc Hp].
    unfold plain_byte in Hc. apply andb_true_iff in Hc. destruct Hc as [Hc Hc3]. apply andb_true_iff in Hc. destruct Hc as [Hc1 Hc2].
    apply negb_true_iff in Hc2. apply negb_true_iff in Hc3.
    cbn [botlc]. replace (Nat.ltb i (i + S k)) with true by (symmetry; apply Nat.ltb_lt; lia).
    rewrite Hc2, Hc3, (rune_len_ascii c Hc1). simpl skipn.
    replace (i + S k)%nat with ((i + 1) + k)%nat by lia.
    rewrite IH; [f_equal; lia | simpl in Hl; lia | lia | assumption].
Qed.

(* in front of the properties object a comment holds only plain ASCII: the offset is a column shift *)
Theorem byte_offset_plain s off line col :
  (off <= List.length s)%nat -> forallb plain_byte (firstn off s) = true ->
  byte_offset_to_line_col s off line col = (line, (col + N.of_nat off)%N).
Proof.
  intros Hl Hp. unfold byte_offset_to_line_col. apply (botlc_plain off s 0); auto. lia.
Qed.

(* ---------------------------------------------------------------- severities per code *)

Definition sev_ok (d : diag) : Prop := sev_documented (d_code d) (d_sev d) = true.

Ltac sev_tac :=
  repeat match goal with
  | H : In _ (_ ++ _) |- _ => apply in_app_or in H; destruct H as [H|H]
  | H : In _ (if ?c then _ else _) |- _ => destruct c
  | H : In _ [] |- _ => destruct H
  | H : In _ (_ :: _) |- _ => destruct H as [H|H]; [subst; reflexivity|]
  end.

Lemma common_attr_sev seen uniq i a d : In d (common_attr seen uniq i a) -> sev_ok d.
Proof.
  unfold common_attr, sev_ok. intros H. destruct (rule_of (la_kind a)) as [ru|]; [|sev_tac].
  apply in_app_or in H. destruct H as [H|H]; [sev_tac|].
  apply in_app_or in H. destruct H as [H|H].
  { unfold props_diags in H. destruct (la_alias a), (la_xprop a), (ru_props ru); sev_tac. }
  apply in_app_or in H. destruct H as [H|H]; [sev_tac|].
  apply in_app_or in H. destruct H as [H|H]; [sev_tac|].
  apply in_app_or in H. destruct H as [H|H]; [sev_tac|].
  destruct (la_kind a); try (destruct H; fail). unfold verb_diags in H. sev_tac.
Qed.

Lemma common_go_sev : forall l seen uniq d, In d (common_go seen uniq l) -> sev_ok d.
Proof.
  induction l as [|[i a] t IH]; intros seen uniq d H; simpl in H; [destruct H|].
  apply in_app_or in H. destruct H as [H|H]; [eapply common_attr_sev, H | eapply IH, H].
Qed.

Lemma type_diag_sev j p pi d : In d (type_diag j p pi) -> sev_ok d.
Proof. unfold type_diag, validate_body_param, validate_nonbody_param, sev_ok. intros H. destruct pi; sev_tac. Qed.

Lemma combination_sev pr j pi d : In d (validate_combination pr j pi) -> sev_ok d.
Proof. unfold validate_combination, sev_ok. intros H. destruct pi; sev_tac. Qed.

Lemma params_go_sev attrs : forall l processed dl d, params_go attrs processed l = Some dl -> In d dl -> sev_ok d.
Proof.
  induction l as [|[j p] t IH]; intros processed dl d Hg Hd.
  - simpl in Hg. inversion Hg; subst. destruct Hd.
  - rewrite params_go_cons in Hg. destruct (pi_of attrs p) as [|pi rest].
    + destruct (is_ctx p); [eapply IH; eauto|]. destruct (first_by_value (fp_name p) attrs); [discriminate | eapply IH; eauto].
    + destruct (params_go attrs (processed ++ [pi]) t) as [dt|] eqn:E; [|discriminate]. inversion Hg; subst.
      apply in_app_or in Hd. destruct Hd as [Hd|Hd]; [eapply type_diag_sev, Hd|].
      apply in_app_or in Hd. destruct Hd as [Hd|Hd]; [eapply combination_sev, Hd | eapply IH; eauto].
Qed.

Lemma rets_sev r dl d : rets_diags r = Some dl -> In d dl -> sev_ok d.
Proof.
  unfold rets_diags, sev_ok. intros H Hd.
  destruct (r_rets r) as [|e1 [|e2 [|e3 t]]]; try (inversion H; subst; sev_tac; fail).
  - destruct e1; simpl in H; inversion H; subst; sev_tac.
  - destruct e2; simpl in H; inversion H; subst; sev_tac.
Qed.

Definition allq (Q : diag -> Prop) (l : list diag) : Prop := forall d, In d l -> Q d.
Lemma allq_nil (Q : diag -> Prop) : allq Q []. Proof. intros d []. Qed.
Lemma allq_cons (Q : diag -> Prop) x l : Q x -> allq Q l -> allq Q (x :: l).
Proof. intros Hx Hl d [<-|Hd]; auto. Qed.
Lemma allq_app (Q : diag -> Prop) a b : allq Q a -> allq Q b -> allq Q (a ++ b).
Proof. intros Ha Hb d Hd. apply in_app_or in Hd. destruct Hd; auto. Qed.

Ltac aq :=
  repeat first [ assumption | apply allq_nil | apply allq_app | (apply allq_cons; [reflexivity|])
               | match goal with |- allq _ (if ?c then _ else _) => destruct c end ].

Lemma url_go_q ri referenced : forall url w, allq sev_ok (url_go ri referenced w url).
Proof. induction url as [|u t IH]; intros w; simpl; aq. apply IH. Qed.

Lemma pass1_q r : allq sev_ok (pass1 r).
Proof.
  unfold pass1. destruct (flat_map alias_diag (path_attrs r)) as [|d l] eqn:E; [apply url_go_q|].
  rewrite <- E. intros x Hx. apply in_flat_map in Hx. destruct Hx as [ia [_ Hx]].
  unfold alias_diag in Hx. destruct (la_alias (snd ia)); simpl in Hx; try contradiction.
  destruct Hx as [<-|[]]. reflexivity.
Qed.

Lemma pass2_q fn url : forall l sF sR sA, allq sev_ok (fst (pass2_go fn url sF sR sA l)).
Proof.
  induction l as [|[i a] t IH]; intros sF sR sA; [apply allq_nil|].
  rewrite pass2_go_cons. cbn [fst]. unfold p2_d1, p2_d2, p2_d3.
  destruct (la_alias a) as [|x|]; [|destruct (is_nil x)|]; aq; apply IH.
Qed.

Lemma pass3_q fn : forall l sF, allq sev_ok (fst (pass3_go fn sF l)).
Proof.
  induction l as [|[i a] t IH]; intros sF; simpl; [apply allq_nil|].
  destruct (is_nil (la_value a)); [apply IH|]. destruct (smem (la_value a) fn); [apply IH|].
  specialize (IH sF). destruct (pass3_go fn sF t). simpl in *. aq.
Qed.

Lemma pass4_q r sF : allq sev_ok (pass4 r sF).
Proof.
  unfold pass4. intros d Hd. apply in_flat_map in Hd. destruct Hd as [name [_ Hd]].
  destruct (smem name sF); [destruct Hd|].
  destruct (first_param name (indexed (r_params r))) as [[j p]|]; [|destruct Hd].
  destruct (is_ctx p); [destruct Hd|]. destruct Hd as [<-|[]]. reflexivity.
Qed.

Lemma link_sev r d : In d (link_diags r) -> sev_ok d.
Proof.
  intros H. apply dedup_first_In in H. revert d H. change (allq sev_ok (link_raw r)).
  unfold link_raw.
  pose proof (pass2_q (fnames r) (link_url r) (path_attrs r) [] [] []) as H2.
  destruct (pass2_go (fnames r) (link_url r) [] [] [] (path_attrs r)) as [d2 sf2].
  pose proof (pass3_q (fnames r) (nonpath_attrs r) sf2) as H3.
  destruct (pass3_go (fnames r) sf2 (nonpath_attrs r)) as [d3 sf3].
  simpl in *. repeat apply allq_app; auto using pass1_q, pass4_q.
Qed.

(* every diagnostic of a receiver carries a severity documented for its code *)
Theorem codes_as_documented r l d : validate r = VDiags l -> In d l -> sev_documented (d_code d) (d_sev d) = true.
Proof.
  unfold validate. destruct (is_endpoint r); simpl; [|discriminate].
  destruct (params_diags r) as [dp|] eqn:Ep; [|discriminate].
  destruct (rets_diags r) as [dr|] eqn:Er; [|discriminate].
  intros H Hd. inversion H; subst l.
  apply in_app_or in Hd. destruct Hd as [Hd|Hd]; [eapply common_go_sev, Hd|].
  apply in_app_or in Hd. destruct Hd as [Hd|Hd]; [eapply params_go_sev; eauto|].
  apply in_app_or in Hd. destruct Hd as [Hd|Hd]; [eapply rets_sev; eauto | eapply link_sev, Hd].
Qed.

(* ---------------------------------------------------------------- no diagnostic twice in the list *)

Lemma code_eqb_spec a b : code_eqb a b = true <-> a = b.
Proof.
  unfold code_eqb. rewrite Nat.eqb_eq. split; [|intros ->; reflexivity].
  destruct a, b; simpl; intros H; try reflexivity; discriminate.
Qed.

Lemma sev_eqb_spec a b : sev_eqb a b = true <-> a = b.
Proof. destruct a, b; simpl; split; congruence. Qed.

Lemma anchor_eqb_spec a b : anchor_eqb a b = true <-> a = b.
Proof.
  destruct a, b; simpl; try (split; [discriminate | congruence]); try rewrite Nat.eqb_eq;
    try (split; congruence).
  rewrite andb_true_iff, Nat.eqb_eq, str_eqb_spec. split; [intros [-> ->]; reflexivity | intros H; inversion H; auto].
Qed.

Lemma diag_eqb_spec a b : diag_eqb a b = true <-> a = b.
Proof.
  unfold diag_eqb. rewrite !andb_true_iff, code_eqb_spec, sev_eqb_spec, anchor_eqb_spec.
  destruct a, b; simpl. split; [intros [[-> ->] ->]; reflexivity | intros H; inversion H; auto].
Qed.

Definition aidx (d : diag) : nat :=
  match d_anchor d with
  | AnComment i | AnValue i | AnProps i | AnParam i => i
  | AnUrl i _ => i
  | AnRets => 0
  end.

(* which validator a diagnostic comes from: 0 common, 1 parameters, 2 return types, 3 link *)
Definition part (d : diag) : nat :=
  match d_code d with
  | CInvalidBody | CParamNotPrimitive => 1
  | CRetNotError => 2
  | CRetInvalidSignature => match d_anchor d with AnRets => 2 | _ => 1 end
  | CRouteMissingPath | CUnreferencedParam | CMultipleParamRefs | CPathInvalidRef | CDuplicatePathParam
  | CDuplicatePathAliasRef | CDuplicateUrlParam => 3
  | CPropInvalidValue => match d_sev d with SevError => 3 | SevWarning => 0 end
  | _ => 0
  end.

Definition key (d : diag) : nat := code_n (d_code d).

Lemma NoDup_map_inv' {A B} (f : A -> B) l : NoDup (map f l) -> NoDup l.
Proof.
  induction l as [|x t IH]; simpl; intros H; [constructor|]. inversion H as [|? ? Hn Hd]; subst.
  constructor; [|auto]. intros Hi. apply Hn. apply in_map. assumption.
Qed.

Ltac nd := repeat constructor; simpl; intuition (try discriminate; try lia).

Fixpoint nodup_natb (l : list nat) : bool :=
  match l with [] => true | x :: t => negb (existsb (Nat.eqb x) t) && nodup_natb t end.

Lemma nodup_natb_spec l : nodup_natb l = true -> NoDup l.
Proof.
  induction l as [|x t IH]; simpl; intros H; [constructor|].
  apply andb_true_iff in H. destruct H as [H1 H2]. constructor; [|auto].
  intros Hi. apply negb_true_iff in H1.
  assert (existsb (Nat.eqb x) t = true) by (apply existsb_exists; exists x; split; [assumption | apply Nat.eqb_refl]).
  congruence.
Qed.

Lemma common_attr_nodup seen uniq i a : NoDup (map key (common_attr seen uniq i a)).
Proof.
  unfold common_attr. destruct (rule_of (la_kind a)) as [ru|]; [|apply nodup_natb_spec; reflexivity].
  destruct (ru_requires_value ru && is_nil (la_value a));
  destruct (negb (ru_allows_multiple ru) && Nat.ltb 1 (count_kind (la_kind a) seen));
  destruct (existsb (fun k => Nat.ltb 0 (count_kind k seen)) (ru_mutex ru));
  destruct (ru_unique ru && negb (is_nil (la_value a)) && smem (la_value a) uniq);
  unfold props_diags; destruct (la_alias a), (la_xprop a), (ru_props ru);
  destruct (la_kind a); unfold verb_diags;
  try (destruct (smem (la_value a) supported_verbs); [|destruct (smem (la_value a) other_http_verbs)]);
  apply nodup_natb_spec; reflexivity.
Qed.

Lemma common_attr_meta seen uniq i a : allq (fun d => part d = 0 /\ aidx d = i) (common_attr seen uniq i a).
Proof.
  unfold common_attr. destruct (rule_of (la_kind a)) as [ru|]; [|apply allq_cons; [split; reflexivity | apply allq_nil]].
  repeat apply allq_app;
    try (match goal with |- allq _ (if ?c then _ else _) => destruct c end;
         [apply allq_cons; [split; reflexivity | apply allq_nil] | apply allq_nil]).
  - unfold props_diags. destruct (la_alias a), (la_xprop a), (ru_props ru); try apply allq_nil;
      (apply allq_cons; [split; reflexivity | apply allq_nil]).
  - destruct (la_kind a); try apply allq_nil. unfold verb_diags.
    destruct (smem (la_value a) supported_verbs); [apply allq_nil|].
    destruct (smem (la_value a) other_http_verbs); (apply allq_cons; [split; reflexivity | apply allq_nil]).
Qed.

Lemma common_go_nodup : forall l seen uniq i,
  NoDup (common_go seen uniq (index_from i l))
  /\ allq (fun d => part d = 0 /\ (i <= aidx d)%nat) (common_go seen uniq (index_from i l)).
Proof.
  induction l as [|a t IH]; intros seen uniq i; simpl; [split; [constructor | apply allq_nil]|].
  match goal with |- context [common_go ?s ?u (index_from (S i) t)] => destruct (IH s u (S i)) as [IH1 IH2] end.
  pose proof (common_attr_meta (la_kind a :: seen) uniq i a) as M.
  split.
  - apply NoDup_app_iff. repeat split; auto.
    + eapply NoDup_map_inv', common_attr_nodup.
    + intros x Hx1 Hx2. destruct (M x Hx1) as [_ E1]. destruct (IH2 x Hx2) as [_ E2]. lia.
  - apply allq_app.
    + intros d Hd. destruct (M d Hd) as [P1 P2]. split; [assumption | lia].
    + intros d Hd. destruct (IH2 d Hd) as [P1 P2]. split; [assumption | lia].
Qed.

Lemma type_comb_meta processed j p pi :
  NoDup (type_diag j p pi ++ validate_combination processed j pi)
  /\ allq (fun d => part d = 1 /\ aidx d = j) (type_diag j p pi ++ validate_combination processed j pi).
Proof.
  unfold type_diag, validate_body_param, validate_nonbody_param, validate_combination.
  destruct pi;
    repeat match goal with |- context [if ?c then _ else _] => destruct c end;
    simpl; split; try (nd; fail);
    repeat (apply allq_cons; [split; reflexivity|]); apply allq_nil.
Qed.

Lemma params_go_nodup attrs : forall ps processed j0 dl,
  params_go attrs processed (index_from j0 ps) = Some dl ->
  NoDup dl /\ allq (fun d => part d = 1 /\ (j0 <= aidx d)%nat) dl.
Proof.
  induction ps as [|p t IH]; intros processed j0 dl Hg.
  - simpl in Hg. inversion Hg; subst. split; [constructor | apply allq_nil].
  - cbn [index_from] in Hg. rewrite params_go_cons in Hg. destruct (pi_of attrs p) as [|pi rest].
    + assert (Hg' : params_go attrs processed (index_from (S j0) t) = Some dl).
      { destruct (is_ctx p); [assumption|]. destruct (first_by_value (fp_name p) attrs); [discriminate | assumption]. }
      destruct (IH _ _ _ Hg') as [H1 H2]. split; [assumption|].
      intros d Hd. destruct (H2 d Hd). split; [assumption | lia].
    + destruct (params_go attrs (processed ++ [pi]) (index_from (S j0) t)) as [dt|] eqn:E; [|discriminate].
      inversion Hg; subst dl. destruct (IH _ _ _ E) as [H1 H2].
      destruct (type_comb_meta processed j0 p pi) as [T1 T2]. rewrite app_assoc.
      split.
      * apply NoDup_app_iff. repeat split; auto.
        intros x Hx1 Hx2. destruct (T2 x Hx1) as [_ E1]. destruct (H2 x Hx2) as [_ E2]. lia.
      * apply allq_app.
        -- intros d Hd. destruct (T2 d Hd). split; [assumption | lia].
        -- intros d Hd. destruct (H2 d Hd). split; [assumption | lia].
Qed.

Lemma rets_nodup r dl : rets_diags r = Some dl -> NoDup dl /\ allq (fun d => part d = 2) dl.
Proof.
  unfold rets_diags. intros H.
  destruct (r_rets r) as [|e1 [|e2 [|e3 t]]]; try (inversion H; subst; split; [nd | apply allq_cons; [reflexivity | apply allq_nil]]; fail).
  - destruct e1; simpl in H; inversion H; subst; split; try (nd; fail); try apply allq_nil;
      (apply allq_cons; [reflexivity | apply allq_nil]).
  - destruct e2; simpl in H; inversion H; subst; split; try (nd; fail); try apply allq_nil;
      (apply allq_cons; [reflexivity | apply allq_nil]).
Qed.

Lemma dedup_first_nodup : forall l seen,
  NoDup (dedup_first seen l) /\ forall d, In d (dedup_first seen l) -> ~ In d seen.
Proof.
  induction l as [|x t IH]; intros seen; simpl; [split; [constructor | intros d []]|].
  destruct (mem diag_eqb x seen) eqn:E; [apply IH|].
  destruct (IH (x :: seen)) as [H1 H2]. split.
  - constructor; [|assumption]. intros Hi. apply (H2 x Hi). left; reflexivity.
  - intros d [<-|Hd].
    + intros Hs. assert (mem diag_eqb x seen = true) by (apply (mem_spec diag_eqb diag_eqb_spec); assumption). congruence.
    + intros Hs. apply (H2 d Hd). right; assumption.
Qed.

Definition part3 (d : diag) : Prop := part d = 3.

Lemma link_part r : allq part3 (link_diags r).
Proof.
  intros d H. apply dedup_first_In in H. revert d H. change (allq part3 (link_raw r)).
  assert (U : forall ri referenced url w, allq part3 (url_go ri referenced w url)).
  { intros ri referenced. induction url as [|u t IH]; intros w; simpl.
    - apply allq_nil.
    - repeat apply allq_app; try apply IH;
        match goal with |- allq _ (if ?c then _ else _) => destruct c end;
        try apply allq_nil; (apply allq_cons; [reflexivity | apply allq_nil]). }
  assert (P1 : allq part3 (pass1 r)).
  { unfold pass1. destruct (flat_map alias_diag (path_attrs r)) as [|d l] eqn:E; [apply U|].
    rewrite <- E. intros x Hx. apply in_flat_map in Hx. destruct Hx as [ia [_ Hx]].
    unfold alias_diag in Hx. destruct (la_alias (snd ia)); simpl in Hx; try contradiction.
    destruct Hx as [<-|[]]. reflexivity. }
  assert (P2 : forall l sF sR sA, allq part3 (fst (pass2_go (fnames r) (link_url r) sF sR sA l))).
  { induction l as [|[i a] t IH]; intros sF sR sA; [apply allq_nil|].
    rewrite pass2_go_cons. cbn [fst]. unfold p2_d1, p2_d2, p2_d3.
    destruct (la_alias a) as [|x|]; [|destruct (is_nil x)|];
      repeat first [ apply IH | apply allq_nil | apply allq_app | (apply allq_cons; [reflexivity|])
                   | match goal with |- allq _ (if ?c then _ else _) => destruct c end ]. }
  assert (P3 : forall l sF, allq part3 (fst (pass3_go (fnames r) sF l))).
  { induction l as [|[i a] t IH]; intros sF; simpl; [apply allq_nil|].
    destruct (is_nil (la_value a)); [apply IH|]. destruct (smem (la_value a) (fnames r)); [apply IH|].
    specialize (IH sF). destruct (pass3_go (fnames r) sF t). simpl in *. apply allq_cons; [reflexivity | assumption]. }
  assert (P4 : forall sF, allq part3 (pass4 r sF)).
  { intros sF. unfold pass4. intros d Hd. apply in_flat_map in Hd. destruct Hd as [name [_ Hd]].
    destruct (smem name sF); [destruct Hd|].
    destruct (first_param name (indexed (r_params r))) as [[j p]|]; [|destruct Hd].
    destruct (is_ctx p); [destruct Hd|]. destruct Hd as [<-|[]]. reflexivity. }
  unfold link_raw.
  pose proof (P2 (path_attrs r) [] [] []) as H2.
  destruct (pass2_go (fnames r) (link_url r) [] [] [] (path_attrs r)) as [d2 sf2].
  pose proof (P3 (nonpath_attrs r) sf2) as H3.
  destruct (pass3_go (fnames r) sf2 (nonpath_attrs r)) as [d3 sf3].
  simpl in *. repeat apply allq_app; auto.
Qed.

(* the diagnostics of a receiver are pairwise different (code, severity or anchor differ) *)
Theorem nodup_list r l : validate r = VDiags l -> NoDup l.
Proof.
  unfold validate. destruct (is_endpoint r); simpl; [|discriminate].
  destruct (params_diags r) as [dp|] eqn:Ep; [|discriminate].
  destruct (rets_diags r) as [dr|] eqn:Er; [|discriminate].
  intros H. inversion H; subst l.
  destruct (common_go_nodup (r_attrs r) [] [] 0) as [C1 C2]. fold (indexed (r_attrs r)) in C1, C2. fold (common_diags r) in C1, C2.
  unfold params_diags, indexed in Ep. destruct (params_go_nodup _ _ _ _ _ Ep) as [Q1 Q2].
  destruct (rets_nodup _ _ Er) as [R1 R2].
  destruct (dedup_first_nodup (link_raw r) []) as [L1 _]. fold (link_diags r) in L1.
  pose proof (link_part r) as L2.
  apply NoDup_app_iff. repeat split; auto.
  - apply NoDup_app_iff. repeat split; auto.
    + apply NoDup_app_iff. repeat split; auto.
      intros x Hx1 Hx2. pose proof (R2 x Hx1). pose proof (L2 x Hx2). unfold part3 in *. congruence.
    + intros x Hx1 Hx2. destruct (Q2 x Hx1) as [E1 _]. apply in_app_or in Hx2. destruct Hx2 as [Hx2|Hx2].
      * pose proof (R2 x Hx2). congruence.
      * pose proof (L2 x Hx2). unfold part3 in *. congruence.
  - intros x Hx1 Hx2. destruct (C2 x Hx1) as [E1 _]. apply in_app_or in Hx2. destruct Hx2 as [Hx2|Hx2].
    + destruct (Q2 x Hx2). congruence.
    + apply in_app_or in Hx2. destruct Hx2 as [Hx2|Hx2].
      * pose proof (R2 x Hx2). congruence.
      * pose proof (L2 x Hx2). unfold part3 in *. congruence.
Qed.

(* ---------------------------------------------------------------- the error text *)

Definition matches (sevs : list esev) (d : rdiag) : bool := existsb (esev_eqb (rd_sev d)) sevs.

(* F5: an entity is selected once per matching diagnostic *)
Lemma with_severity_leaf sevs k n ds :
  with_severity sevs (Ent k n ds []) = repeat (Ent k n ds []) (List.length (filter (matches sevs) ds)).
Proof.
  simpl. rewrite app_nil_r. unfold matches. induction (filter (fun d => existsb (esev_eqb (rd_sev d)) sevs) ds) as [|x t IH];
    simpl; [reflexivity | rewrite IH; reflexivity].
Qed.

Lemma count_selected sevs k n ds :
  List.length (with_severity sevs (Ent k n ds [])) = List.length (filter (matches sevs) ds).
Proof. rewrite with_severity_leaf. apply repeat_length. Qed.

Definition childless (e : entity) : Prop := e_children e = [].
Definition at_most_one (sevs : list esev) (e : entity) : Prop := (List.length (filter (matches sevs) (e_diags e)) <= 1)%nat.
Definition selected_b (sevs : list esev) (e : entity) : bool := negb (is_nil (filter (matches sevs) (e_diags e))).

(* without children and with at most one matching diagnostic per entity the selection is a
   sub-list of the entities: nothing is printed twice *)
Lemma get_with_severity_flat sevs l :
  Forall childless l -> Forall (at_most_one sevs) l ->
  get_with_severity l sevs = filter (selected_b sevs) l.
Proof.
  induction l as [|e t IH]; intros Hc Hm; [reflexivity|].
  inversion Hc as [|? ? Hc1 Hc2]; inversion Hm as [|? ? Hm1 Hm2]; subst.
  unfold get_with_severity in *. simpl. rewrite (IH Hc2 Hm2).
  destruct e as [k n ds cs]. unfold childless in Hc1. simpl in Hc1. subst cs.
  rewrite with_severity_leaf. unfold at_most_one, selected_b in *. simpl in *.
  destruct (filter (matches sevs) ds) as [|x [|y r]]; simpl in *; [reflexivity | reflexivity | lia].
Qed.

Theorem nodup_text_partial sevs l :
  Forall childless l -> Forall (at_most_one sevs) l -> NoDup l -> NoDup (get_with_severity l sevs).
Proof.
  intros Hc Hm Hn. rewrite (get_with_severity_flat sevs l Hc Hm). apply NoDup_filter. assumption.
Qed.

(* the variant that selects an entity once removes that source of repetition for flat lists ... *)
Lemma with_severity_once_flat sevs l :
  Forall childless l -> flat_map (with_severity_once sevs) l = filter (fun e => existsb (matches sevs) (e_diags e)) l.
Proof.
  induction l as [|e t IH]; intros Hc; [reflexivity|]. inversion Hc as [|? ? Hc1 Hc2]; subst.
  simpl. rewrite (IH Hc2). destruct e as [k n ds cs]. unfold childless in Hc1. simpl in Hc1. subst cs. simpl.
  unfold matches. destruct (existsb (fun d => existsb (esev_eqb (rd_sev d)) sevs) ds); simpl; reflexivity.
Qed.

(* ... but a parent with an error still prints its children's diagnostics, which are printed again *)
Lemma text_witnesses :
  prop_C18_text (error_text demo_tree_two_errors) = false
  /\ List.length (get_with_severity demo_tree_two_errors [EError]) = 2%nat
  /\ prop_C18_text (error_text demo_tree_parent_child) = false
  /\ prop_C18_text (diagnostics_to_error (flat_map (with_severity_once [EError]) demo_tree_parent_child)) = false
  /\ prop_C18_text (error_text demo_tree_tame) = true.
Proof. vm_compute. repeat split. Qed.

(* the tree-aware form of the text oracle: same verdicts on the witnesses, and two different
   diagnostics that print the same line are not a repetition *)
Lemma text_tree_witnesses :
  prop_C18_text_tree demo_tree_two_errors (error_text demo_tree_two_errors) = false
  /\ prop_C18_text_tree demo_tree_parent_child (error_text demo_tree_parent_child) = false
  /\ prop_C18_text_tree demo_tree_tame (error_text demo_tree_tame) = true
  /\ prop_C18_text (error_text demo_tree_two_voids) = false
  /\ prop_C18_text_tree demo_tree_two_voids (error_text demo_tree_two_voids) = true.
Proof. vm_compute. repeat split. Qed.

Lemma nodup_text_refuted : exists tree, prop_C18_text (error_text tree) = false.
Proof. exists demo_tree_two_errors. apply text_witnesses. Qed.

(* ---------------------------------------------------------------- examples for the ranges *)

Definition demo_layout : layout :=
  {| ly_attrs := [ {| c_line := 12; c_col := 10; c_text := s "// @Method(FETCH)" |};
                   {| c_line := 13; c_col := 3; c_text := s "// @Route(/a1/{pid}/{pid}) x" |};
                   {| c_line := 14; c_col := 2; c_text := s "// @Path(idx, {name:12}) y" |} ];
     ly_params := [ {| g_sl := 15; g_sc := 17; g_el := 15; g_ec := 26 |} ];
     ly_rets := zero_rng |}.

Definition demo_route : route :=
  mkR "/c" [mkA KMethod "FETCH"; mkA KRoute "/a1/{pid}/{pid}";
            {| la_kind := KPath; la_value := s "idx"; la_alias := ANonStr; la_xprop := false |}]
    [mkP "id" TPrim SPlain] [].

Lemma demo_ranged :
  ranged demo_route demo_layout =
  [ (3, 1, {| g_sl := 12; g_sc := 21; g_el := 12; g_ec := 26 |});      (* invalid verb: the value *)
    (7, 2, {| g_sl := 14; g_sc := 2; g_el := 14; g_ec := 28 |});       (* name: 12 is not a string: the comment *)
    (20, 1, zero_rng);                                                   (* void: the zero range *)
    (7, 1, {| g_sl := 14; g_sc := 16; g_el := 14; g_ec := 25 |});      (* the properties object *)
    (14, 1, {| g_sl := 14; g_sc := 11; g_el := 14; g_ec := 14 |});     (* @Path 'idx' is not a parameter: the value *)
    (12, 1, {| g_sl := 15; g_sc := 17; g_el := 15; g_ec := 26 |}) ].   (* unreferenced parameter: the field *)
Proof. vm_compute. reflexivity. Qed.

(* the diagnostic about a method that returns nothing points at 0:0-0:0, outside the declaration *)
Lemma void_range_refuted :
  exists r ly decl, In (20, 1, zero_rng) (ranged r ly) /\ inside zero_rng decl = false
                    /\ decl = {| g_sl := 15; g_sc := 0; g_el := 17; g_ec := 1 |}.
Proof.
  exists demo_route, demo_layout, {| g_sl := 15; g_sc := 0; g_el := 17; g_ec := 1 |}.
  split; [rewrite demo_ranged; simpl; auto | split; reflexivity].
Qed.

(* the value range is the FIRST occurrence of the value text in the comment: for @Path(a) that is
   the "a" of the annotation name, not the value between the parentheses (text equal, place wrong) *)
Lemma first_occurrence_example :
  value_range {| c_line := 3; c_col := 0; c_text := s "// @Path(a)" |} (s "a")
  = {| g_sl := 3; g_sc := 5; g_el := 3; g_ec := 6 |}.
Proof. reflexivity. Qed.

Lemma inside_example : inside (value_range demo_cpos (s "FETCH")) (comment_range demo_cpos) = true
                       /\ value_range demo_cpos (s "FETCH") = {| g_sl := 12; g_sc := 21; g_el := 12; g_ec := 26 |}.
Proof. split; reflexivity. Qed.

(* ---------------------------------------------------------------- RetValsRange *)

Lemma pos_leb_iff l1 c1 l2 c2 : pos_leb l1 c1 l2 c2 = true <-> (l1 < l2 \/ (l1 = l2 /\ c1 <= c2))%N.
Proof.
  unfold pos_leb. rewrite Bool.orb_true_iff, Bool.andb_true_iff, N.ltb_lt, N.eqb_eq, N.leb_le. tauto.
Qed.

Lemma last_cons {A} (b : A) t a : last (b :: t) a = last t b.
Proof.
  destruct t as [|c t]; [reflexivity|].
  change (last (b :: c :: t) a) with (last (c :: t) a).
  revert c. induction t as [|d t IH]; intros c; [reflexivity|].
  change (last (c :: d :: t) a) with (last (d :: t) a). change (last (c :: d :: t) b) with (last (d :: t) b). apply IH.
Qed.

Ltac pos_lia :=
  unfold rng_wf in *;
  repeat match goal with H : pos_leb _ _ _ _ = true |- _ => apply pos_leb_iff in H end;
  repeat split; try apply pos_leb_iff; lia.

(* in a list in source order every piece starts not before the first one, ends not after the last
   one, and starts not after it ends *)
Lemma in_order_chain : forall t a x, in_order (a :: t) = true -> In x (a :: t) ->
  pos_leb (g_sl a) (g_sc a) (g_sl x) (g_sc x) = true
  /\ pos_leb (g_el x) (g_ec x) (g_el (last t a)) (g_ec (last t a)) = true
  /\ rng_wf x = true.
Proof.
  induction t as [|b t IH]; intros a x Hord Hin.
  - cbn [in_order] in Hord. rewrite !Bool.andb_true_r in Hord.
    destruct Hin as [<-|[]]. cbn [last]. pos_lia.
  - cbn [in_order] in Hord. apply Bool.andb_true_iff in Hord. destruct Hord as [Hord Hrest].
    apply Bool.andb_true_iff in Hord. destruct Hord as [Hwf Hab].
    rewrite last_cons.
    pose proof (IH b b Hrest (or_introl eq_refl)) as [_ [Hbl Hbwf]].
    destruct Hin as [<-|Hin].
    + pos_lia.
    + destruct (IH b x Hrest Hin) as [Hbx [Hxl Hxwf]]. pos_lia.
Qed.

(* the range of the return values encloses every single return value, wherever the line breaks
   of the result list are *)
Theorem rets_range_encloses l x : in_order l = true -> In x l -> inside x (rets_range l) = true.
Proof.
  destruct l as [|a t]; intros Hord Hin; [destruct Hin|].
  destruct (in_order_chain t a x Hord Hin) as [H1 [H2 H3]].
  unfold inside, rets_range. cbn [g_sl g_sc g_el g_ec]. unfold rng_wf in H3. rewrite H1, H2, H3. reflexivity.
Qed.

(* ... and lies inside whatever encloses all of them (the result list, the declaration, the file) *)
Theorem rets_range_inside l reg :
  l <> [] -> in_order l = true -> (forall x, In x l -> inside x reg = true) -> inside (rets_range l) reg = true.
Proof.
  destruct l as [|a t]; intros Hne Hord Hall; [congruence|].
  assert (Hla : In (last t a) (a :: t)).
  { clear. revert a. induction t as [|b t IH]; intros a; [left; reflexivity|].
    rewrite last_cons. right. apply IH. }
  pose proof (Hall a (or_introl eq_refl)) as Ha. pose proof (Hall _ Hla) as Hl.
  destruct (in_order_chain t a (last t a) Hord Hla) as [H1 [_ H3]].
  destruct (in_order_chain t a a Hord (or_introl eq_refl)) as [_ [H2 H4]].
  unfold inside in *. unfold rets_range. cbn [g_sl g_sc g_el g_ec].
  repeat match goal with H : (_ && _)%bool = true |- _ => apply Bool.andb_true_iff in H; destruct H end.
  rewrite !Bool.andb_true_iff. pos_lia.
Qed.

(* taking lines and columns apart is something else as soon as the list is spread over several
   lines: the hull leaves the result list (and the text of its last line) *)
Lemma rets_range_not_componentwise :
  in_order demo_wrapped_rets = true
  /\ (forall x, In x demo_wrapped_rets -> inside x demo_wrapped_list = true)
  /\ rets_range demo_wrapped_rets = {| g_sl := 21; g_sc := 1; g_el := 22; g_ec := 7 |}
  /\ inside (rets_range demo_wrapped_rets) demo_wrapped_list = true
  /\ componentwise_hull demo_wrapped_rets = {| g_sl := 21; g_sc := 1; g_el := 22; g_ec := 11 |}
  /\ componentwise_hull demo_wrapped_rets <> rets_range demo_wrapped_rets.
Proof.
  repeat split; try reflexivity.
  - intros x [<-|[<-|[]]]; reflexivity.
  - vm_compute. discriminate.
Qed.

(* ---------------------------------------------------------------- Validate() more than once *)

Lemma remove_one_length {A} (eqb : A -> A -> bool) x : forall l l',
  remove_one eqb x l = Some l' -> List.length l = S (List.length l').
Proof.
  induction l as [|y t IH]; intros l' E; cbn [remove_one] in E; [discriminate|].
  destruct (eqb x y).
  - inversion E; subst. reflexivity.
  - destruct (remove_one eqb x t) as [t'|] eqn:R; [|discriminate].
    inversion E; subst. cbn [List.length]. f_equal. apply IH. reflexivity.
Qed.

Lemma mset_eqb_length {A} (eqb : A -> A -> bool) : forall a b,
  mset_eqb eqb a b = true -> List.length a = List.length b.
Proof.
  induction a as [|x a IH]; intros b E; cbn [mset_eqb] in E.
  - destruct b; [reflexivity|discriminate].
  - destruct (remove_one eqb x b) as [b'|] eqn:R; [|discriminate].
    apply remove_one_length in R. rewrite R. cbn [List.length]. f_equal. apply IH. exact E.
Qed.

(* every later round has as many diagnostics as the first one *)
Theorem rounds_same_count first later :
  prop_C18_rounds first later = true -> forall r, In r later -> List.length r = List.length first.
Proof.
  unfold prop_C18_rounds. intros H r Hin.
  rewrite forallb_forall in H. specialize (H r Hin). symmetry. apply (mset_eqb_length _ _ _ H).
Qed.

(* a later round that reports what the first one did AND something more (the same warning once
   again, whatever it is) is refused, wherever that round is among the later ones *)
Theorem rounds_refuse_additions first extra before after :
  extra <> [] -> prop_C18_rounds first (before ++ (first ++ extra) :: after) = false.
Proof.
  intros Hne. destruct (prop_C18_rounds first (before ++ (first ++ extra) :: after)) eqn:E; [|reflexivity].
  exfalso. pose proof (rounds_same_count _ _ E (first ++ extra)) as L.
  assert (Hin : In (first ++ extra) (before ++ (first ++ extra) :: after))
    by (apply in_or_app; right; left; reflexivity).
  specialize (L Hin). rewrite app_length in L. destruct extra; [apply Hne; reflexivity|].
  cbn [List.length] in L. lia.
Qed.

Lemma rounds_example :
  prop_C18_rounds demo_round [rev demo_round; demo_round] = true
  /\ prop_C18_rounds_nodup [rev demo_round; demo_round] = true
  /\ prop_C18_rounds demo_round [demo_round; demo_round ++ [demo_od 24 10 "route conflict"]] = false
  /\ prop_C18_rounds_nodup [demo_round ++ [demo_od 24 10 "route conflict"]] = false.
Proof. repeat split; vm_compute; reflexivity. Qed.
