(* C17 - proofs about Model/GraphFilter.v (traversals with an edge-kind filter) *)
From Gleece Require Import Base.Bytes Model.Graph Model.GraphFilter Proofs.GraphProofs.
Local Open Scope N_scope.

(* ------------------------------------------------------------------ the filtered queries are
   the plain model's *)

Theorem q_children_f_abs s ks b : q_children_f s ks b = spq_children_f (abs s) ks b.
Proof.
  unfold q_children_f, spq_children_f. rewrite abs_edges, flat_map_map.
  apply flat_map_ext_in. intros e _. simpl. rewrite node_base_list_eq, sp_has_abs. reflexivity.
Qed.

Theorem q_descendants_f_abs s ks b : q_descendants_f s ks b = spq_descendants_f (abs s) ks b.
Proof.
  unfold q_descendants_f, spq_descendants_f. rewrite abs_nodes, map_length.
  apply desc_of_ext. intros x. apply q_children_f_abs.
Qed.

Lemma spq_children_f_In sp ks b x :
  In x (spq_children_f sp ks b) <->
  exists e, In e (sp_edges sp) /\ se_from e = b /\ se_to e = x /\ In (se_kind e) ks /\ sp_has sp x = true.
Proof.
  unfold spq_children_f. rewrite in_flat_map. split.
  - intros [e [Hin H]]. destruct ((se_from e =? b) && memN (se_kind e) ks) eqn:C; [|destruct H].
    apply andb_true_iff in C. destruct C as [C1 C2]. apply N.eqb_eq in C1. apply memN_In in C2.
    destruct (sp_has sp (se_to e)) eqn:Hn; [|destruct H]. destruct H as [<-|[]].
    exists e. auto.
  - intros [e [Hin [Hf [Ht [Hk Hn]]]]]. exists e. split; auto.
    apply memN_In in Hk. rewrite Hf, N.eqb_refl, Hk, Ht, Hn. left; auto.
Qed.

Lemma spq_parents_f_In sp ks b x :
  In x (spq_parents_f sp ks b) <->
  exists e, In e (sp_edges sp) /\ se_to e = b /\ se_from e = x /\ In (se_kind e) ks /\ sp_has sp x = true.
Proof.
  unfold spq_parents_f. rewrite in_flat_map. split.
  - intros [e [Hin H]]. destruct ((se_to e =? b) && memN (se_kind e) ks) eqn:C; [|destruct H].
    apply andb_true_iff in C. destruct C as [C1 C2]. apply N.eqb_eq in C1. apply memN_In in C2.
    destruct (sp_has sp (se_from e)) eqn:Hn; [|destruct H]. destruct H as [<-|[]].
    exists e. auto.
  - intros [e [Hin [Ht [Hf [Hk Hn]]]]]. exists e. split; auto.
    apply memN_In in Hk. rewrite Ht, N.eqb_refl, Hk, Hf, Hn. left; auto.
Qed.

Lemma spq_parents_f_abs_In s ks b x :
  In x (spq_parents_f (abs s) ks b) <->
  exists e, In e (edges s) /\ tb e = b /\ fb e = x /\ In (ed_kind e) ks /\ has_node s x = true.
Proof.
  rewrite spq_parents_f_In, abs_edges. split.
  - intros [se [Hin [Ht [Hf [Hk Hn]]]]]. apply in_map_iff in Hin. destruct Hin as [e [<- Hin]].
    simpl in *. rewrite sp_has_abs in Hn. exists e. auto.
  - intros [e [Hin [Ht [Hf [Hk Hn]]]]]. exists (proj_edge e). simpl. rewrite sp_has_abs.
    split; [apply in_map; auto|auto].
Qed.

Theorem q_parents_f_abs s ks b x :
  Inv s -> (In x (q_parents_f s ks b) <-> In x (spq_parents_f (abs s) ks b)).
Proof.
  intros I. rewrite spq_parents_f_abs_In. unfold q_parents_f. rewrite in_flat_map. split.
  - intros [[t pk] [Hp H]]. simpl in H. destruct (t =? b) eqn:T; [|destruct H].
    apply in_flat_map in H. destruct H as [e [Hin H]].
    destruct ((fb e =? k_base pk) && (tb e =? b) && memN (ed_kind e) ks) eqn:C; [|destruct H].
    rewrite !andb_true_iff in C. destruct C as [[C1 C2] C3]. apply N.eqb_eq in C1, C2.
    apply memN_In in C3.
    rewrite node_base_list_eq in H. destruct (has_node s (k_base pk)) eqn:Hn; [|destruct H].
    destruct H as [<-|[]]. exists e. auto.
  - intros [e [Hin [Ht [Hf [Hk Hn]]]]].
    assert (L : Linked s x b) by (exists e; auto).
    apply (inv_rdeps s I) in L. destruct L as [pk [Hp Hb]].
    exists (b, pk). split; auto. simpl. rewrite N.eqb_refl. apply in_flat_map.
    exists e. split; auto. apply memN_In in Hk. rewrite Hb, Hf, Ht, !N.eqb_refl, Hk. simpl.
    rewrite node_base_list_eq, Hn. left; auto.
Qed.

(* a filter that lets every kind through is no filter *)
Theorem spq_children_f_all sp ks b :
  (forall e, In e (sp_edges sp) -> In (se_kind e) ks) -> spq_children_f sp ks b = spq_children sp b.
Proof.
  intros H. unfold spq_children_f, spq_children. apply flat_map_ext_in. intros e He.
  apply H, memN_In in He. rewrite He, andb_true_r. reflexivity.
Qed.

Theorem spq_parents_f_all sp ks b :
  (forall e, In e (sp_edges sp) -> In (se_kind e) ks) -> spq_parents_f sp ks b = spq_parents sp b.
Proof.
  intros H. unfold spq_parents_f, spq_parents. apply flat_map_ext_in. intros e He.
  apply H, memN_In in He. rewrite He, andb_true_r. reflexivity.
Qed.

(* the filtered answers are the (kind-filtered) edge set's: children of b through ks = targets
   of b's outgoing edges of a kind in ks (GetEdges(b, ks)) that exist *)
Theorem spq_children_f_edges sp ks b x :
  In x (spq_children_f sp ks b) <->
  exists e, In e (spq_edges sp b) /\ se_from e = b /\ In (se_kind e) ks /\ se_to e = x /\ sp_has sp x = true.
Proof.
  rewrite spq_children_f_In. unfold spq_edges. split.
  - intros [e [Hin [Hf [Ht [Hk Hn]]]]]. exists e. repeat split; auto.
    apply filter_In. split; auto. rewrite Hf, N.eqb_refl. reflexivity.
  - intros [e [Hin [Hf [Hk [Ht Hn]]]]]. apply filter_In in Hin. exists e. tauto.
Qed.

Theorem spq_parents_f_edges sp ks b x :
  In x (spq_parents_f sp ks b) <->
  exists e, In e (spq_edges sp b) /\ se_to e = b /\ In (se_kind e) ks /\ se_from e = x /\ sp_has sp x = true.
Proof.
  rewrite spq_parents_f_In. unfold spq_edges. split.
  - intros [e [Hin [Ht [Hf [Hk Hn]]]]]. exists e. repeat split; auto.
    apply filter_In. split; auto. rewrite Ht, N.eqb_refl. apply orb_true_r.
  - intros [e [Hin [Ht [Hk [Hf Hn]]]]]. apply filter_In in Hin. exists e. tauto.
Qed.

(* mutual consistency of the filtered views *)
Theorem spq_children_parents_dual sp ks b x :
  (In x (spq_children_f sp ks b) /\ sp_has sp b = true) <->
  (In b (spq_parents_f sp ks x) /\ sp_has sp x = true).
Proof.
  rewrite spq_children_f_In, spq_parents_f_In. split.
  - intros [[e [Hin [Hf [Ht [Hk Hn]]]]] Hb]. split; auto. exists e. auto.
  - intros [[e [Hin [Ht [Hf [Hk Hn]]]]] Hx]. split; auto. exists e. auto.
Qed.

(* ------------------------------------------------------------------ the oracle accepts the
   model's filtered observations *)

Lemma list_eqb_N_eq (a b : list N) : list_eqb N.eqb a b = true <-> a = b.
Proof. apply list_eqb_spec. intros x y. apply N.eqb_eq. Qed.

Lemma fsel_In proj b ks rows x :
  In x (fsel proj b ks rows) <->
  exists r, In r rows /\ fr_base r = b /\ fr_kinds r = ks /\ In x (proj r).
Proof.
  unfold fsel, fr_hit. rewrite in_flat_map. split.
  - intros [r [Hr H]].
    destruct ((fr_base r =? b) && list_eqb N.eqb (fr_kinds r) ks) eqn:C; [|destruct H].
    apply andb_true_iff in C. destruct C as [C1 C2]. apply N.eqb_eq in C1.
    apply list_eqb_N_eq in C2. exists r. auto.
  - intros [r [Hr [Hb [Hk H]]]]. exists r. split; auto.
    rewrite Hb, Hk, N.eqb_refl. rewrite (proj2 (list_eqb_N_eq ks ks) eq_refl). exact H.
Qed.

Section ObserveF.
  Variables (U : list N) (FS : list (list N)) (s : state).

  Lemma observe_f_In r :
    In r (observe_f U FS s) <->
    exists b ks, In b U /\ In ks FS /\ has_node s b = true /\
      r = Fr b ks (q_children_f s ks b) (q_parents_f s ks b) (q_descendants_f s ks b).
  Proof.
    unfold observe_f. rewrite in_flat_map. split.
    - intros [b [Hb H]]. destruct (has_node s b) eqn:Hn; [|destruct H].
      apply in_map_iff in H. destruct H as [ks [<- Hk]]. exists b, ks. auto.
    - intros [b [ks [Hb [Hk [Hn ->]]]]]. exists b. split; auto. rewrite Hn.
      apply in_map_iff. exists ks. auto.
  Qed.

  Lemma fsel_observe (proj : frow -> list N) (ans : list N -> N -> list N) b ks x :
    (forall b' ks', proj (Fr b' ks' (q_children_f s ks' b') (q_parents_f s ks' b')
                             (q_descendants_f s ks' b')) = ans ks' b') ->
    (In x (fsel proj b ks (observe_f U FS s)) <->
     In b U /\ In ks FS /\ has_node s b = true /\ In x (ans ks b)).
  Proof.
    intros P. rewrite fsel_In. split.
    - intros [r [Hr [Hb [Hk H]]]]. apply observe_f_In in Hr.
      destruct Hr as [b' [ks' [Ub [Fk [Hn ->]]]]]. simpl in Hb, Hk. subst b' ks'.
      rewrite P in H. auto.
    - intros [Ub [Fk [Hn H]]]. eexists. split; [apply observe_f_In; exists b, ks; eauto|].
      simpl. rewrite P. auto.
  Qed.

  Lemma fsel_ch b ks x :
    In x (fsel fr_ch b ks (observe_f U FS s)) <->
    In b U /\ In ks FS /\ has_node s b = true /\ In x (q_children_f s ks b).
  Proof. apply (fsel_observe fr_ch (q_children_f s)). reflexivity. Qed.
  Lemma fsel_pa b ks x :
    In x (fsel fr_pa b ks (observe_f U FS s)) <->
    In b U /\ In ks FS /\ has_node s b = true /\ In x (q_parents_f s ks b).
  Proof. apply (fsel_observe fr_pa (q_parents_f s)). reflexivity. Qed.
  Lemma fsel_de b ks x :
    In x (fsel fr_de b ks (observe_f U FS s)) <->
    In b U /\ In ks FS /\ has_node s b = true /\ In x (q_descendants_f s ks b).
  Proof. apply (fsel_observe fr_de (q_descendants_f s)). reflexivity. Qed.

  Lemma is_nil_no_In {A} (l : list A) : (forall x, ~ In x l) -> is_nil l = true.
  Proof. destruct l as [|y l]; auto. intros H. exfalso. apply (H y). left; auto. Qed.

  Hypothesis I : Inv s.

  Lemma filt_ok_observe : filt_ok U FS (abs s) (observe_f U FS s) = true.
  Proof.
    unfold filt_ok. apply andb_true_iff. split.
    - apply forallb_In. intros b Hb. apply forallb_In. intros ks Hk. rewrite sp_has_abs.
      destruct (has_node s b) eqn:Hn.
      + rewrite !andb_true_iff. split; [split|]; apply (set_eqb_spec N.eqb N.eqb_eq); intros x.
        * rewrite fsel_ch, q_children_f_abs. tauto.
        * rewrite fsel_pa, q_parents_f_abs by auto. tauto.
        * rewrite fsel_de, q_descendants_f_abs. tauto.
      + rewrite !andb_true_iff. split; [split|]; apply is_nil_no_In; intros x H.
        * apply fsel_ch in H. destruct H as [_ [_ [H _]]]. congruence.
        * apply fsel_pa in H. destruct H as [_ [_ [H _]]]. congruence.
        * apply fsel_de in H. destruct H as [_ [_ [H _]]]. congruence.
    - apply forallb_In. intros r Hr. apply observe_f_In in Hr.
      destruct Hr as [b [ks [Hb [Hk [_ ->]]]]]. simpl. apply andb_true_iff. split.
      + apply memN_In; auto.
      + apply (mem_spec (list_eqb N.eqb) list_eqb_N_eq). auto.
  Qed.

  Lemma dual_ok_observe : dual_ok U FS (observe_f U FS s) = true.
  Proof.
    unfold dual_ok. apply forallb_In. intros ks Hk. apply forallb_In. intros b Hb.
    apply forallb_In. intros x Hx. apply Bool.eqb_true_iff.
    apply Bool.eq_true_iff_eq. rewrite !memN_In, fsel_ch, fsel_pa.
    rewrite q_children_f_abs, q_parents_f_abs by auto.
    pose proof (spq_children_parents_dual (abs s) ks b x) as D. rewrite !sp_has_abs in D.
    split.
    - intros [_ [_ [Hn H]]]. destruct (proj1 D (conj H Hn)) as [H1 H2]. auto.
    - intros [_ [_ [Hn H]]]. destruct (proj2 D (conj H Hn)) as [H1 H2]. auto.
  Qed.
End ObserveF.

Section WithSchedF.
Variable sc : sched.
Hypothesis sc_ok : sched_ok sc.

Lemma prop_from_f_model U FS : forall h s,
  Inv s -> prop_from_f U FS (abs s) h (observe_run_f sc U FS s h) = true.
Proof.
  induction h as [|o h IH]; intros s I; simpl; auto.
  pose proof (step_Inv sc sc_ok s o I) as I'.
  rewrite <- (abs_step sc sc_ok s o I).
  rewrite filt_ok_observe, dual_ok_observe by auto. simpl. apply IH; auto.
Qed.

(* the filtered-traversal oracle accepts the model's observations of ANY history, for any
   universe and any set of filters *)
Theorem prop_C17_filtered_model U FS h :
  prop_C17_filtered U FS h (observe_run_f sc U FS empty h) = true.
Proof.
  unfold prop_C17_filtered. change sp_empty with (abs empty).
  apply prop_from_f_model. apply Inv_empty.
Qed.
End WithSchedF.

(* ------------------------------------------------------------------ non-vacuity: two nodes
   linked by two edges of different kinds (fld inserted first, then ty), a third parent through
   ty only; the oracle accepts the model's answers and rejects "Parents looks at the first edge
   only" *)
Definition fdemo : list op :=
  [AddNode KStruct (K 0 1); AddNode KStruct (K 1 1); AddNode KStruct (K 2 1);
   AddEdge (K 0 1) (K 2 1) EFld; AddEdge (K 0 1) (K 2 1) ETy; AddEdge (K 1 1) (K 2 1) ETy].
Definition fdemo_U : list N := [0; 1; 2].
Definition fdemo_FS : list (list N) := [[ETy]; [EFld]; [ETy; EFld]; [ERef]].

Example fdemo_nonvacuous :
  q_parents_f (run sched_id fdemo) [ETy] 2 = [0; 1] /\
  q_parents_f (run sched_id fdemo) [EFld] 2 = [0] /\
  q_children_f (run sched_id fdemo) [ETy] 0 = [2] /\
  q_parents_f (run sched_id fdemo) [ERef] 2 = [] /\
  prop_C17_filtered fdemo_U fdemo_FS fdemo (observe_run_f sched_id fdemo_U fdemo_FS empty fdemo) = true /\
  (let fos := observe_run_f sched_id fdemo_U fdemo_FS empty fdemo in
   let bad := map (fun r => if fr_hit 2 [ETy] r then Fr 2 [ETy] [] [1] [] else r) (last fos []) in
   prop_C17_filtered fdemo_U fdemo_FS fdemo (removelast fos ++ [bad]) = false).
Proof. vm_compute. repeat split; reflexivity. Qed.
