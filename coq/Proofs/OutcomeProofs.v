(* C14: facts about the outcome oracle, for single runs and for sequences of runs in one process. *)
From Coq Require Import List Bool.
From Gleece Require Import Base.Bytes Model.Outcome.
Import ListNotations.

Lemma prop_C14_spec : forall o, prop_C14 o = true <-> o = OOk \/ o = OReported.
Proof.
  intros o; destruct o; simpl; split; intros H; try tauto; try discriminate;
    destruct H; discriminate.
Qed.

(* the classification of an in-process run satisfies the oracle exactly when the call came back in
   time, without a panic, and either reported an error or wrote its artifacts *)
Lemma job_outcome_ok : forall t p e a,
  prop_C14 (job_outcome t p e a) = true <-> t = false /\ p = false /\ (e = true \/ a = true).
Proof.
  intros t p e a; destruct t, p, e, a; simpl; split; intros H;
    try discriminate; try (repeat split; auto; fail);
    try (destruct H as [H1 [H2 H3]]; try discriminate; destruct H3; discriminate).
Qed.

(* the sequence oracle holds iff every run of the sequence ended with success or a reported error *)
Lemma prop_C14_seq_spec : forall os,
  prop_C14_seq os = true <-> (forall o, In o os -> o = OOk \/ o = OReported).
Proof.
  intros os; unfold prop_C14_seq; rewrite forallb_forall; split; intros H o Hin.
  - apply prop_C14_spec, H, Hin.
  - apply prop_C14_spec, H, Hin.
Qed.

(* the oracle does not depend on what came before a run: a sequence is fine iff each prefix
   extended by one fine run is - in particular a rejected run never licenses a later crash *)
Lemma prop_C14_seq_app : forall xs ys,
  prop_C14_seq (xs ++ ys) = prop_C14_seq xs && prop_C14_seq ys.
Proof. intros xs ys; unfold prop_C14_seq; apply forallb_app. Qed.

Lemma prop_C14_seq_first_failure : forall os,
  prop_C14_seq os = false ->
  exists pre o post, os = pre ++ o :: post /\ prop_C14_seq pre = true /\ prop_C14 o = false.
Proof.
  induction os as [|o os IH]; simpl; intros H; [discriminate|].
  destruct (prop_C14 o) eqn:Ho.
  - simpl in H. destruct (IH H) as [pre [o' [post [E [Hp Ho']]]]].
    exists (o :: pre), o', post. subst os. repeat split; auto. simpl. rewrite Ho, Hp. reflexivity.
  - exists [], o, os. repeat split; auto.
Qed.

(* non-vacuity: the sequence "rejected, then crashed" is refused, "rejected, then succeeded" accepted *)
Example seq_rejected_then_crash : prop_C14_seq [job_outcome false false true false; job_outcome false true false false] = false.
Proof. reflexivity. Qed.
Example seq_rejected_then_ok : prop_C14_seq [job_outcome false false true false; job_outcome false false false true] = true.
Proof. reflexivity. Qed.
