(* Proofs about the engine-independent handler model (Model/Handler.v). *)
From Gleece Require Import Base.Bytes Model.Project Model.Spec Model.Security Model.Bind Model.Handler
     Proofs.SecurityProofs Proofs.RouterGateProofs Proofs.BindProofs.
From Coq Require Import String.
Open Scope list_scope.

(* ------------------------------------------------------------------ *)
(* decidable equalities of the observation type                        *)

Lemma value_eqb_spec a b : value_eqb a b = true <-> a = b.
Proof.
  destruct a, b; simpl; try (split; [discriminate|intros H; discriminate H]).
  - rewrite str_eqb_spec. split; [intros ->; reflexivity|intros H; inversion H; reflexivity].
  - rewrite Z.eqb_eq. split; [intros ->; reflexivity|intros H; inversion H; reflexivity].
  - rewrite N.eqb_eq. split; [intros ->; reflexivity|intros H; inversion H; reflexivity].
  - rewrite Bool.eqb_true_iff. split; [intros ->; reflexivity|intros H; inversion H; reflexivity].
Qed.

Lemma value_opt_eqb_spec a b : value_opt_eqb a b = true <-> a = b.
Proof.
  destruct a as [x|], b as [y|]; simpl; try (split; [discriminate|intros H; discriminate H]).
  - rewrite value_eqb_spec. split; [intros ->; reflexivity|intros H; inversion H; reflexivity].
  - split; reflexivity.
Qed.

Lemma arg_eqb_spec a b : arg_eqb a b = true <-> a = b.
Proof.
  destruct a as [x|x|x|x], b as [y|y|y|y]; simpl; try (split; [discriminate|intros H; discriminate H]).
  - destruct x as [p|], y as [q|]; try (split; [discriminate|intros H; discriminate H]).
    + rewrite N.eqb_eq. split; [intros ->; reflexivity|intros H; inversion H; reflexivity].
    + split; reflexivity.
  - rewrite value_opt_eqb_spec. split; [intros ->; reflexivity|intros H; inversion H; reflexivity].
  - rewrite (list_eqb_spec value_eqb value_eqb_spec).
    split; [intros ->; reflexivity|intros H; inversion H; reflexivity].
  - destruct x as [p|], y as [q|]; try (split; [discriminate|intros H; discriminate H]).
    + rewrite str_eqb_spec. split; [intros ->; reflexivity|intros H; inversion H; reflexivity].
    + split; reflexivity.
Qed.

Lemma authrec_eqb_spec a b : authrec_eqb a b = true <-> a = b.
Proof.
  destruct a as [c x], b as [d y]. unfold authrec_eqb; simpl.
  rewrite andb_true_iff, check_eqb_spec.
  destruct x as [p|], y as [q|].
  - rewrite N.eqb_eq. split; [intros [-> ->]; reflexivity|intros H; inversion H; auto].
  - split; [intros [_ H]; discriminate|intros H; discriminate H].
  - split; [intros [_ H]; discriminate|intros H; discriminate H].
  - split; [intros [-> _]; reflexivity|intros H; inversion H; auto].
Qed.

Lemma call_eqb_spec a b : call_eqb a b = true <-> a = b.
Proof.
  destruct a as [[c m] x], b as [[d n] y]. unfold call_eqb; simpl.
  rewrite !andb_true_iff, !str_eqb_spec, (list_eqb_spec arg_eqb arg_eqb_spec).
  split; [intros [[-> ->] ->]; reflexivity|intros H; inversion H; auto].
Qed.

Lemma obs_eqb_spec a b : obs_eqb a b = true <-> a = b.
Proof.
  destruct a as [s1 a1 c1 r1], b as [s2 a2 c2 r2]. unfold obs_eqb; simpl.
  rewrite !andb_true_iff, N.eqb_eq, (list_eqb_spec authrec_eqb authrec_eqb_spec),
    (list_eqb_spec call_eqb call_eqb_spec).
  destruct r1 as [x|], r2 as [y|].
  - rewrite str_eqb_spec. split; [intros [[[-> ->] ->] ->]; reflexivity|intros H; inversion H; auto].
  - split; [intros [_ H]; discriminate H|intros H; discriminate H].
  - split; [intros [_ H]; discriminate H|intros H; discriminate H].
  - split; [intros [[[-> ->] ->] _]; reflexivity|intros H; inversion H; auto].
Qed.

(* ------------------------------------------------------------------ *)
(* C12: every router that refines the model shows the same observation *)

Theorem refines_determines out o :
  is_modelled out = true -> refines out o = true -> predicted out = Some o.
Proof.
  unfold is_modelled, refines. destruct (predicted out) as [p|]; [|discriminate].
  intros _ H. apply obs_eqb_spec in H. subst; reflexivity.
Qed.

Theorem refines_agree out o1 o2 :
  is_modelled out = true -> refines out o1 = true -> refines out o2 = true -> o1 = o2.
Proof.
  intros Hm H1 H2. pose proof (refines_determines out o1 Hm H1) as E1.
  pose proof (refines_determines out o2 Hm H2) as E2. congruence.
Qed.

(* the harness verdict 0 on the five observations of a request means exactly that *)
Theorem judge_zero_agree p pkg cn mn tbl sc rq obs :
  judge p pkg cn mn tbl sc rq obs = 0%nat ->
  exists out, handle_in p pkg cn mn tbl sc rq = Some out /\ is_modelled out = true /\
              forall o, In o obs -> predicted out = Some o.
Proof.
  unfold judge. destruct (handle_in p pkg cn mn tbl sc rq) as [out|]; [|discriminate].
  destruct (is_modelled out) eqn:Hm; simpl; [|discriminate].
  destruct (forallb (refines out) obs) eqn:Hf; [|discriminate].
  intros _. exists out. split; [reflexivity|]. split; [exact Hm|].
  intros o Ho. rewrite forallb_forall in Hf. apply refines_determines; auto.
Qed.

Corollary judge_zero_pairwise p pkg cn mn tbl sc rq obs :
  judge p pkg cn mn tbl sc rq obs = 0%nat -> forall o1 o2, In o1 obs -> In o2 obs -> o1 = o2.
Proof.
  intros H o1 o2 H1 H2. destruct (judge_zero_agree _ _ _ _ _ _ _ _ H) as [out [_ [_ Hall]]].
  pose proof (Hall o1 H1). pose proof (Hall o2 H2). congruence.
Qed.

Theorem judge_zero p pkg cn mn tbl sc rq obs :
  judge p pkg cn mn tbl sc rq obs = 0%nat ->
  (exists out, handle_in p pkg cn mn tbl sc rq = Some out /\ is_modelled out = true /\
               forall o, In o obs -> predicted out = Some o) /\
  forall o1 o2, In o1 obs -> In o2 obs -> o1 = o2.
Proof. intros; split; [eapply judge_zero_agree|eapply judge_zero_pairwise]; eassumption. Qed.

(* ------------------------------------------------------------------ *)
(* the shape of [handle]                                               *)

Lemma handle_unfold cfg c m tbl sc rq :
  exists hist res tr, authorize (script_cb tbl) [] (gate_alts cfg c m) = (hist, res, tr) /\
    handle cfg c m tbl sc rq =
    match res with
    | Some r => (tr, Refused r)
    | None =>
        match bind_all (List.length hist) rq (m_params m) with
        | RejectedAt n => (tr, Rejected n)
        | UnmodelledAt n => (tr, Unmodelled n)
        | Bound args =>
            (tr, Invoked (c_name c) (m_name m) args
                         (status_code sc (match m_ret m with Some _ => true | None => false end)))
        end
    end.
Proof.
  unfold handle. destruct (authorize (script_cb tbl) [] (gate_alts cfg c m)) as [[hist res] tr].
  exists hist, res, tr. split; reflexivity.
Qed.

(* C03 at the level of whole requests: the method runs only behind an approved alternative *)
Theorem handle_invoked_approved cfg c m tbl sc rq tr cn mn args st :
  handle cfg c m tbl sc rq = (tr, Invoked cn mn args st) ->
  gate_alts cfg c m = [] \/
  exists l, In l (gate_alts cfg c m) /\ forall ck, In ck l -> approved_in tr ck = true.
Proof.
  destruct (handle_unfold cfg c m tbl sc rq) as [hist [res [tr0 [Ha ->]]]].
  destruct res as [r|]; [intros H; inversion H|].
  destruct (bind_all (List.length hist) rq (m_params m)); intros H; inversion H; subst.
  eapply authorize_sound; eauto.
Qed.

Theorem handle_refused cfg c m tbl sc rq tr r :
  handle cfg c m tbl sc rq = (tr, Refused r) ->
  gate_alts cfg c m <> [] /\
  (forall l, In l (gate_alts cfg c m) -> exists ck, In ck l /\ refused_in tr ck = true) /\
  last_refusal tr = Some r /\
  predicted (handle cfg c m tbl sc rq) = Some (mkObs (rf_status r) (auth_records tr) [] None).
Proof.
  intros Hh. destruct (handle_unfold cfg c m tbl sc rq) as [hist [res [tr0 [Ha E]]]].
  rewrite E in Hh. destruct res as [r0|].
  - inversion Hh; subst. destruct (authorize_refuse _ _ _ _ _ _ _ Ha) as [H1 [H2 H3]].
    repeat split; auto. rewrite E. reflexivity.
  - destruct (bind_all (List.length hist) rq (m_params m)); inversion Hh.
Qed.

(* the trace of every handler consists of callback invocations only, made before anything else *)
Theorem handle_trace_only_auth cfg c m tbl sc rq :
  forall e, In e (fst (handle cfg c m tbl sc rq)) -> is_auth e = true.
Proof.
  destruct (handle_unfold cfg c m tbl sc rq) as [hist [res [tr0 [Ha ->]]]].
  pose proof (authorize_trace_only_auth _ _ _ _ _ _ _ Ha) as Hall.
  assert (Hin : forall e, In e tr0 -> is_auth e = true) by exact Hall.
  destruct res as [r|]; [exact Hin|].
  destruct (bind_all (List.length hist) rq (m_params m)); exact Hin.
Qed.

(* ------------------------------------------------------------------ *)
(* binding: what reaches the method (C05 at the level of whole requests) *)

(* the argument handed over for a parameter is the conversion of what the request carries for it
   at its declared location under its wire name - or nil when it is absent and unvalidated *)
Definition arg_spec (authn : nat) (rq : request) (p : param) (a : arg) : Prop :=
  if pa_ctx p then a = ACtx (if Nat.eqb authn 0 then None else Some (N.of_nat authn))
  else match pa_loc p with
       | LBody =>
           (exists v, rq_body rq = BGood v /\ a = ABody (Some v)) \/
           (rq_body rq = BEmpty /\ has_required_tag (reduced_validator p) = false /\ a = ABody None)
       | l =>
           exists ty, prim_of (pa_type p) = Some ty /\
           if pa_slice p then
             (exists raws vs, lookup (rq_fields rq) l (wire_name p) = Some raws /\ raws <> [] /\
                              convert_all ty raws = Some vs /\ a = AList vs) \/
             ((lookup (rq_fields rq) l (wire_name p) = None \/ lookup (rq_fields rq) l (wire_name p) = Some []) /\
              reduced_validator p = [] /\ a = AList [])
           else
             (exists raw rest v, lookup (rq_fields rq) l (wire_name p) = Some (raw :: rest) /\
                                 convert ty raw = Some v /\ a = AVal (Some v)) \/
             ((lookup (rq_fields rq) l (wire_name p) = None \/ lookup (rq_fields rq) l (wire_name p) = Some []) /\
              reduced_validator p = [] /\ a = AVal None)
       end.

Lemma split_on_not_nil sep p : split_on sep p <> [].
Proof.
  destruct p as [|c t]; simpl; [discriminate|].
  destruct (beqb c sep); [discriminate|]. destruct (split_on sep t); discriminate.
Qed.

Lemma rules_of_nil tag : is_nil (rules_of tag) = true -> tag = [].
Proof.
  unfold rules_of. destruct tag as [|b t]; [reflexivity|]. cbn [is_nil].
  destruct (split_on ","%byte (b :: t)) eqn:E; [|simpl; discriminate].
  exfalso. exact (split_on_not_nil _ _ E).
Qed.

Lemma nil_bound_arg rs a b : nil_bound rs a = BArg b -> is_nil rs = true /\ b = a.
Proof.
  unfold nil_bound. destruct (is_nil rs); [intros H; inversion H; auto|].
  destruct (existsb rule_is_other rs); discriminate.
Qed.

Lemma of_verdict_arg v a b : of_verdict v a = BArg b -> v = Some true /\ b = a.
Proof. destruct v as [[|]|]; simpl; intros H; inversion H; auto. Qed.

Lemma bind_param_spec authn rq p a : bind_param authn rq p = BArg a -> arg_spec authn rq p a.
Proof.
  unfold bind_param, arg_spec. destruct (pa_ctx p); [intros H; inversion H; reflexivity|].
  assert (Hval : forall l, l <> LBody ->
    match prim_of (pa_type p) with
    | Some ty =>
        if pa_slice p
        then match lookup (rq_fields rq) l (wire_name p) with
             | Some ((_ :: _) as raws) =>
                 match convert_all ty raws with
                 | Some vs => of_verdict (run_rules rule_on_list (rules_of (reduced_validator p)) (List.length vs)) (AList vs)
                 | None => BReject
                 end
             | _ => nil_bound (rules_of (reduced_validator p)) (AList [])
             end
        else match lookup (rq_fields rq) l (wire_name p) with
             | Some (raw :: _) =>
                 match convert ty raw with
                 | Some v => of_verdict (run_rules rule_on_value (rules_of (reduced_validator p)) v) (AVal (Some v))
                 | None => BReject
                 end
             | _ => nil_bound (rules_of (reduced_validator p)) (AVal None)
             end
    | None => BUnmodelled
    end = BArg a ->
    exists ty, prim_of (pa_type p) = Some ty /\
      if pa_slice p then
        (exists raws vs, lookup (rq_fields rq) l (wire_name p) = Some raws /\ raws <> [] /\
                         convert_all ty raws = Some vs /\ a = AList vs) \/
        ((lookup (rq_fields rq) l (wire_name p) = None \/ lookup (rq_fields rq) l (wire_name p) = Some []) /\
         reduced_validator p = [] /\ a = AList [])
      else
        (exists raw rest v, lookup (rq_fields rq) l (wire_name p) = Some (raw :: rest) /\
                            convert ty raw = Some v /\ a = AVal (Some v)) \/
        ((lookup (rq_fields rq) l (wire_name p) = None \/ lookup (rq_fields rq) l (wire_name p) = Some []) /\
         reduced_validator p = [] /\ a = AVal None)).
  { intros l _. destruct (prim_of (pa_type p)) as [ty|]; [|intros H; discriminate H]. intros H. exists ty. split; [reflexivity|].
    destruct (pa_slice p).
    - destruct (lookup (rq_fields rq) l (wire_name p)) as [[|r raws]|] eqn:El; cbv beta match in H.
      + apply nil_bound_arg in H. destruct H as [Hn ->]. right. repeat split; auto. apply rules_of_nil; exact Hn.
      + destruct (convert_all ty (r :: raws)) as [vs|] eqn:Ec; [|discriminate H].
        apply of_verdict_arg in H. destruct H as [_ ->]. left. exists (r :: raws), vs. repeat split; auto. discriminate.
      + apply nil_bound_arg in H. destruct H as [Hn ->]. right. repeat split; auto. apply rules_of_nil; exact Hn.
    - destruct (lookup (rq_fields rq) l (wire_name p)) as [[|r raws]|] eqn:El; cbv beta match in H.
      + apply nil_bound_arg in H. destruct H as [Hn ->]. right. repeat split; auto. apply rules_of_nil; exact Hn.
      + destruct (convert ty r) as [v|] eqn:Ec; [|discriminate H].
        apply of_verdict_arg in H. destruct H as [_ ->]. left. exists r, raws, v. repeat split; auto.
      + apply nil_bound_arg in H. destruct H as [Hn ->]. right. repeat split; auto. apply rules_of_nil; exact Hn. }
  destruct (pa_loc p) eqn:El; try (apply Hval; discriminate).
  destruct (rq_body rq) as [|v| |] eqn:Eb; try discriminate.
  - destruct (has_required_tag (reduced_validator p)) eqn:Er; [discriminate|].
    intros H; inversion H. right. auto.
  - intros H; inversion H. left. exists v. auto.
Qed.

Lemma bind_all_spec authn rq ps : forall args,
  bind_all authn rq ps = Bound args -> Forall2 (arg_spec authn rq) ps args.
Proof.
  induction ps as [|p ps IH]; simpl; intros args H.
  - inversion H. constructor.
  - destruct (bind_param authn rq p) as [a| |] eqn:Ep; try discriminate.
    destruct (bind_all authn rq ps) as [rest| |] eqn:Er; try discriminate.
    inversion H; subst. constructor; [apply bind_param_spec; exact Ep|apply IH; reflexivity].
Qed.

Lemma bind_all_each authn rq ps args :
  bind_all authn rq ps = Bound args -> forall p, In p ps -> exists a, bind_param authn rq p = BArg a.
Proof.
  revert args. induction ps as [|q ps IH]; simpl; intros args H p Hp; [contradiction|].
  destruct (bind_param authn rq q) as [a| |] eqn:Eq; try discriminate.
  destruct (bind_all authn rq ps) as [rest| |] eqn:Er; try discriminate.
  destruct Hp as [->|Hp]; [exists a; exact Eq|]. eapply IH; eauto.
Qed.

(* the first failing parameter, in signature order, is the one the 422 names *)
Lemma bind_all_rejected_first authn rq ps n :
  bind_all authn rq ps = RejectedAt n ->
  exists pre p post, ps = pre ++ p :: post /\ pa_name p = n /\ bind_param authn rq p = BReject /\
                     forall q, In q pre -> exists a, bind_param authn rq q = BArg a.
Proof.
  induction ps as [|q ps IH]; simpl; [discriminate|].
  destruct (bind_param authn rq q) as [a| |] eqn:Eq.
  - destruct (bind_all authn rq ps) as [rest|m|m] eqn:Er; try discriminate.
    intros H; inversion H; subst. destruct (IH eq_refl) as [pre [p [post [E [Hn [Hr Hpre]]]]]].
    exists (q :: pre), p, post. rewrite E. repeat split; auto.
    intros x [->|Hx]; [exists a; exact Eq|apply Hpre; exact Hx].
  - intros H; inversion H; subst. exists [], q, ps. repeat split; auto. intros x [].
  - discriminate.
Qed.

(* what the invoked method receives, and with which status the handler answers *)
Theorem handle_invoked_args cfg c m tbl sc rq tr cn mn args st :
  handle cfg c m tbl sc rq = (tr, Invoked cn mn args st) ->
  cn = c_name c /\ mn = m_name m /\
  st = status_code sc (match m_ret m with Some _ => true | None => false end) /\
  exists authn, Forall2 (arg_spec authn rq) (m_params m) args.
Proof.
  destruct (handle_unfold cfg c m tbl sc rq) as [hist [res [tr0 [Ha ->]]]].
  destruct res as [r|]; [intros H; inversion H|].
  destruct (bind_all (List.length hist) rq (m_params m)) as [args0| |] eqn:Eb; intros H; inversion H; subst.
  repeat split; auto. exists (List.length hist). apply bind_all_spec. exact Eb.
Qed.

Theorem model_invoked cfg c m tbl sc rq tr cn mn args st :
  handle cfg c m tbl sc rq = (tr, Invoked cn mn args st) ->
  (gate_alts cfg c m = [] \/
   exists l, In l (gate_alts cfg c m) /\ forall ck, In ck l -> approved_in tr ck = true) /\
  cn = c_name c /\ mn = m_name m /\
  st = status_code sc (match m_ret m with Some _ => true | None => false end) /\
  exists authn, Forall2 (arg_spec authn rq) (m_params m) args.
Proof.
  intros H. split.
  - exact (handle_invoked_approved _ _ _ _ _ _ _ _ _ _ _ H).
  - exact (handle_invoked_args _ _ _ _ _ _ _ _ _ _ _ H).
Qed.

Theorem handle_rejected_first cfg c m tbl sc rq tr n :
  handle cfg c m tbl sc rq = (tr, Rejected n) ->
  exists authn pre p post, m_params m = pre ++ p :: post /\ pa_name p = n /\
    bind_param authn rq p = BReject /\ forall q, In q pre -> exists a, bind_param authn rq q = BArg a.
Proof.
  destruct (handle_unfold cfg c m tbl sc rq) as [hist [res [tr0 [Ha ->]]]].
  destruct res as [r|]; [intros H; inversion H|].
  destruct (bind_all (List.length hist) rq (m_params m)) as [args0|k|k] eqn:Eb; intros H; inversion H; subst.
  exists (List.length hist). apply bind_all_rejected_first. exact Eb.
Qed.

(* ------------------------------------------------------------------ *)
(* a parameter the handler must refuse keeps the method from running   *)

Definition scalar_param (p : param) : Prop :=
  pa_ctx p = false /\ pa_loc p <> LBody /\ pa_slice p = false.

Lemma required_tag_rule tag : has_required_tag tag = true -> In RRequired (rules_of tag).
Proof.
  unfold has_required_tag, rules_of. intros H. apply existsb_exists in H. destruct H as [t [Hin Ht]].
  apply str_eqb_spec in Ht. subst t.
  destruct tag as [|b tg]; simpl is_nil; cbv iota.
  - simpl in Hin. destruct Hin as [H|[]]. discriminate H.
  - apply in_map_iff. exists (s "required"). split; [|exact Hin]. reflexivity.
Qed.

Lemma nil_bound_not_arg rs a : rs <> [] -> forall b, nil_bound rs a <> BArg b.
Proof.
  intros Hn b H. apply nil_bound_arg in H. destruct H as [H _]. destruct rs; [contradiction|discriminate].
Qed.

(* absent and required (documented `required: true`): never bound *)
Theorem absent_required_not_bound authn rq p :
  scalar_param p -> param_required p = true ->
  (lookup (rq_fields rq) (pa_loc p) (wire_name p) = None \/ lookup (rq_fields rq) (pa_loc p) (wire_name p) = Some []) ->
  forall a, bind_param authn rq p <> BArg a.
Proof.
  intros [Hc [Hl Hs]] Hreq Habs a H. apply bind_param_spec in H. unfold arg_spec in H.
  rewrite Hc in H. unfold param_required in Hreq.
  assert (Hne : reduced_validator p <> []).
  { intros E. rewrite E in Hreq. discriminate Hreq. }
  destruct (pa_loc p); try contradiction;
    destruct H as [ty [_ H]]; rewrite Hs in H;
    (destruct H as [[raw [rest [v [E _]]]]|[_ [E _]]]; [destruct Habs as [Ha|Ha]; rewrite Ha in E; discriminate|contradiction]).
Qed.

(* present but not a representation of the declared type: never bound *)
Theorem unconvertible_not_bound authn rq p ty raw rest :
  scalar_param p -> prim_of (pa_type p) = Some ty ->
  lookup (rq_fields rq) (pa_loc p) (wire_name p) = Some (raw :: rest) -> convert ty raw = None ->
  bind_param authn rq p = BReject.
Proof.
  intros [Hc [Hl Hs]] Hty Hlk Hcv. unfold bind_param. rewrite Hc.
  destruct (pa_loc p) eqn:El; try contradiction; rewrite Hty, Hs, Hlk, Hcv; reflexivity.
Qed.

Theorem handle_bad_param_never_invoked cfg c m tbl sc rq p :
  In p (m_params m) ->
  (forall authn a, bind_param authn rq p <> BArg a) ->
  forall tr cn mn args st, handle cfg c m tbl sc rq <> (tr, Invoked cn mn args st).
Proof.
  intros Hin Hbad tr cn mn args st H.
  destruct (handle_unfold cfg c m tbl sc rq) as [hist [res [tr0 [Ha E]]]]. rewrite E in H.
  destruct res as [r|]; [inversion H|].
  destruct (bind_all (List.length hist) rq (m_params m)) as [args0|k|k] eqn:Eb; inversion H; subst.
  destruct (bind_all_each _ _ _ _ Eb p Hin) as [a Hb]. exact (Hbad _ _ Hb).
Qed.

(* ------------------------------------------------------------------ *)
(* round trip through the handler: a representable value arrives unchanged *)

Definition only_required (tag : str) : Prop := forall r, In r (rules_of tag) -> r = RRequired.

Lemma run_rules_only_required {A} (f : rule -> A -> option bool) rs a :
  (forall r x, r = RRequired -> f r x = Some true) ->
  (forall r, In r rs -> r = RRequired) -> run_rules f rs a = Some true.
Proof.
  intros Hf. induction rs as [|r rs IH]; simpl; intros H; [reflexivity|].
  rewrite (Hf r a (H r (or_introl eq_refl))). apply IH. intros x Hx. apply H. right; exact Hx.
Qed.

Theorem bind_param_roundtrip authn rq p ty v rest :
  scalar_param p -> prim_of (pa_type p) = Some ty -> only_required (reduced_validator p) ->
  in_range ty v = true ->
  lookup (rq_fields rq) (pa_loc p) (wire_name p) = Some (print v :: rest) ->
  bind_param authn rq p = BArg (AVal (Some v)).
Proof.
  intros [Hc [Hl Hs]] Hty Hor Hin Hlk. unfold bind_param. rewrite Hc.
  pose proof (bind_roundtrip ty v Hin) as Hcv.
  assert (Hr : run_rules rule_on_value (rules_of (reduced_validator p)) v = Some true).
  { apply run_rules_only_required; [intros r x ->; reflexivity|exact Hor]. }
  destruct (pa_loc p) eqn:El; try contradiction; rewrite Hty, Hs, Hlk, Hcv, Hr; reflexivity.
Qed.

(* ------------------------------------------------------------------ *)
(* status of a completed operation                                     *)

Theorem status_code_spec sc hv :
  status_code sc hv =
  match os_status sc with
  | Some c => c
  | None => if os_fail sc then 500%N else if hv then 200%N else 204%N
  end.
Proof. reflexivity. Qed.

(* ------------------------------------------------------------------ *)
(* non-vacuity: a concrete project, requests and verdicts              *)

Definition demo_params : list param :=
  [mkParam (s "ctx") true LPath None (s "context.Context") false false None;
   mkParam (s "id") false LPath None (s "int8") false false None;
   mkParam (s "q") false LQuery (Some (s "X-q")) (s "uint32") true false (Some (s "gte=3"));
   mkParam (s "h") false LHeader None (s "string") true false None]%string.

Definition demo_method : method :=
  mkMethod (s "Get") (s "GET") (s "/{id}") false false
           [mkSec (s "a") [s "r"]; mkSec (s "b") []] demo_params (Some (s "string")) (s "error") None [] [].

Definition demo_ctrl : controller := mkController (s "C") (s "ctl") (s "T") (s "/c") [] [demo_method].
Definition demo_cfg : config := mkConfig [s "a"; s "b"] None false.

Definition demo_rq (id q : String.string) : request :=
  mkReq [(LPath, s "id", [s id]); (LQuery, s "X-q", [s q]); (LHeader, s "H", [s "v"])] BEmpty.

Example demo_invoked :
  snd (handle demo_cfg demo_ctrl demo_method [(KNth 0, mkRefusal 401 [])] (mkOp false None) (demo_rq "-128" "7"))
  = Invoked (s "C") (s "Get")
            [ACtx (Some 2%N); AVal (Some (VInt (-128))); AVal (Some (VUint 7)); AVal (Some (VStr (s "v")))] 200%N.
Proof. vm_compute. reflexivity. Qed.

Example demo_rejected_range :
  snd (handle demo_cfg demo_ctrl demo_method [] (mkOp false None) (demo_rq "128" "7")) = Rejected (s "id").
Proof. vm_compute. reflexivity. Qed.

Example demo_rejected_rule :
  snd (handle demo_cfg demo_ctrl demo_method [] (mkOp false None) (demo_rq "5" "2")) = Rejected (s "q").
Proof. vm_compute. reflexivity. Qed.

Example demo_refused :
  snd (handle demo_cfg demo_ctrl demo_method [(KAll, mkRefusal 403 (s "no"))] (mkOp false None) (demo_rq "5" "7"))
  = Refused (mkRefusal 403 (s "no")).
Proof. vm_compute. reflexivity. Qed.

Example demo_status :
  snd (handle demo_cfg demo_ctrl demo_method [] (mkOp true None) (demo_rq "5" "7"))
  = Invoked (s "C") (s "Get")
            [ACtx (Some 1%N); AVal (Some (VInt 5)); AVal (Some (VUint 7)); AVal (Some (VStr (s "v")))] 500%N.
Proof. vm_compute. reflexivity. Qed.

(* ------------------------------------------------------------------ *)
(* documented `required` = enforced requiredness (C05 / C06 across the two artifacts):
   the flag the OpenAPI document shows for a parameter ([Spec.param_required], the `required`
   of the emitted parameter object) decides what the handler does with a request that does
   not carry the parameter *)

Lemma parse_rule_required t : parse_rule t = RRequired -> t = s "required".
Proof.
  unfold parse_rule. destruct (str_eqb t (s "required")) eqn:E; [intros _; apply str_eqb_spec; exact E|].
  repeat match goal with
  | |- context [if has_prefix ?p t then _ else _] => destruct (has_prefix p t)
  | |- context [match parse_int 64 ?x with _ => _ end] => destruct (parse_int 64 x)
  end; intros H; discriminate H.
Qed.

Lemma only_required_has_tag tag : tag <> [] -> only_required tag -> has_required_tag tag = true.
Proof.
  intros Hne Hor. unfold only_required, rules_of in Hor. unfold has_required_tag, comma.
  destruct tag as [|b t]; [contradiction|]. cbn [is_nil] in Hor.
  destruct (split_on ","%byte (b :: t)) as [|x xs] eqn:E; [exfalso; exact (split_on_not_nil _ _ E)|].
  apply existsb_exists. exists x. split; [left; reflexivity|].
  apply str_eqb_spec. apply parse_rule_required. apply Hor. apply in_map. left; reflexivity.
Qed.

Theorem documented_required_is_enforced authn rq p ty :
  scalar_param p -> prim_of (pa_type p) = Some ty -> only_required (reduced_validator p) ->
  (lookup (rq_fields rq) (pa_loc p) (wire_name p) = None \/ lookup (rq_fields rq) (pa_loc p) (wire_name p) = Some []) ->
  (param_required p = true -> bind_param authn rq p = BReject) /\
  (param_required p = false -> bind_param authn rq p = BArg (AVal None)).
Proof.
  intros [Hc [Hl Hs]] Hty Hor Habs. unfold param_required.
  assert (Hb : bind_param authn rq p = nil_bound (rules_of (reduced_validator p)) (AVal None)).
  { unfold bind_param. rewrite Hc. destruct (pa_loc p) eqn:El; try contradiction; rewrite Hty, Hs;
      destruct Habs as [Ha|Ha]; rewrite Ha; reflexivity. }
  rewrite Hb. unfold nil_bound. split; intros Hreq.
  - destruct (is_nil (rules_of (reduced_validator p))) eqn:En.
    + apply rules_of_nil in En. rewrite En in Hreq. discriminate Hreq.
    + assert (Hno : existsb rule_is_other (rules_of (reduced_validator p)) = false).
      { destruct (existsb rule_is_other (rules_of (reduced_validator p))) eqn:Ee; [|reflexivity].
        apply existsb_exists in Ee. destruct Ee as [r [Hin Hr]]. rewrite (Hor r Hin) in Hr. discriminate Hr. }
      rewrite Hno. reflexivity.
  - destruct (reduced_validator p) as [|b t] eqn:Et; [reflexivity|].
    assert (Hne : b :: t <> []) by discriminate.
    rewrite (only_required_has_tag (b :: t) Hne Hor) in Hreq. discriminate Hreq.
Qed.

(* ------------------------------------------------------------------ *)
(* the conversion statement the translator found in a generated handler computes exactly the
   model's conversion of the declared type: [RouterParams.tparam_ok] (per-run translation
   obligation, evaluated on every generated file) => strconv call = [Bind.convert] *)
From Gleece Require Import Model.Router Model.RouterParams.

Lemma expected_conv_is_convert t ty raw :
  prim_of t = Some ty ->
  go_strconv (fst (expected_conv t)) (snd (expected_conv t)) raw = convert ty raw.
Proof.
  unfold prim_of.
  repeat match goal with
  | |- (if str_eqb t ?k then _ else _) = _ -> _ =>
      let E := fresh "E" in destruct (str_eqb t k) eqn:E;
      [apply str_eqb_spec in E; subst t; intros H; inversion H; subst ty; reflexivity|]
  end.
  intros H; discriminate H.
Qed.

Theorem translated_conversion_is_model_conversion e p t ty raw :
  tparam_ok e p t = true -> pa_loc p <> LBody -> prim_of (pa_type p) = Some ty ->
  go_strconv (tp_conv t) (tp_bits t) raw = convert ty raw.
Proof.
  intros Hok Hl Hty. unfold tparam_ok in Hok.
  destruct (loc_eqb (pa_loc p) LBody) eqn:El.
  { exfalso. apply Hl. destruct (pa_loc p); simpl in El; try discriminate El; reflexivity. }
  rewrite <- (expected_conv_is_convert (pa_type p) ty raw Hty).
  destruct (expected_conv (pa_type p)) as [c b] eqn:Ec. cbn [fst snd].
  repeat match goal with H : _ && _ = true |- _ => apply andb_true_iff in H; destruct H end.
  match goal with H1 : str_eqb (tp_conv t) c = true, H2 : str_eqb (tp_bits t) b = true |- _ =>
    apply str_eqb_spec in H1; apply str_eqb_spec in H2; rewrite H1, H2; reflexivity end.
Qed.

(* `oneof=` with blanks and quoted options: the options are what the annotation wrote *)
Example demo_oneof_rules :
  parse_rule (s "oneof=abc xyz") = ROneof [s "abc"; s "xyz"] /\
  parse_rule (s "oneof='abc' 'x y'") = ROneof [s "abc"; s "x y"] /\
  run_rules rule_on_value (rules_of (s "required,oneof=abc def ghi")) (VStr (s "def")) = Some true /\
  run_rules rule_on_value (rules_of (s "oneof='abc' 'x y'")) (VStr (s "x y")) = Some true /\
  run_rules rule_on_value (rules_of (s "oneof=abc xyz")) (VStr (s "abcxyz")) = Some false.
Proof. vm_compute. repeat split; reflexivity. Qed.

(* ------------------------------------------------------------------ *)
(* "each parameter is bound from its declared source": the handler's outcome depends on the
   request ONLY through the body and through what the request carries at the declared location
   under the wire name of each of the method's parameters - a value with the same name in another
   location (a decoy), or any other field, cannot influence it *)

Definition agree_on (ps : list param) (r1 r2 : request) : Prop :=
  rq_body r1 = rq_body r2 /\
  forall p, In p ps -> lookup (rq_fields r1) (pa_loc p) (wire_name p) = lookup (rq_fields r2) (pa_loc p) (wire_name p).

Lemma bind_param_agree authn r1 r2 p :
  rq_body r1 = rq_body r2 ->
  lookup (rq_fields r1) (pa_loc p) (wire_name p) = lookup (rq_fields r2) (pa_loc p) (wire_name p) ->
  bind_param authn r1 p = bind_param authn r2 p.
Proof.
  intros Hb Hl. unfold bind_param. destruct (pa_ctx p); [reflexivity|].
  destruct (pa_loc p); try (rewrite Hl; reflexivity).
  rewrite Hb. reflexivity.
Qed.

Lemma bind_all_agree authn r1 r2 ps :
  agree_on ps r1 r2 -> bind_all authn r1 ps = bind_all authn r2 ps.
Proof.
  intros [Hb Hl]. induction ps as [|p ps IH]; [reflexivity|]. cbn [bind_all].
  rewrite (bind_param_agree authn r1 r2 p Hb (Hl p (or_introl eq_refl))).
  rewrite IH; [reflexivity|]. intros q Hq. apply Hl. right; exact Hq.
Qed.

Theorem handle_depends_only_on_declared_sources cfg c m tbl sc r1 r2 :
  agree_on (m_params m) r1 r2 -> handle cfg c m tbl sc r1 = handle cfg c m tbl sc r2.
Proof.
  intros Ha. unfold handle.
  destruct (authorize (script_cb tbl) [] (gate_alts cfg c m)) as [[hist res] tr].
  destruct res as [r|]; [reflexivity|].
  rewrite (bind_all_agree (List.length hist) r1 r2 (m_params m) Ha). reflexivity.
Qed.

(* non-vacuity: a decoy under the same name in another location changes nothing *)
Example demo_decoy_ignored :
  handle demo_cfg demo_ctrl demo_method [] (mkOp false None) (demo_rq "5" "7") =
  handle demo_cfg demo_ctrl demo_method [] (mkOp false None)
         (mkReq (rq_fields (demo_rq "5" "7") ++ [(LQuery, s "id", [s "999"]); (LForm, s "X-q", [s "0"]); (LHeader, s "other", [s "z"])]) BEmpty).
Proof. vm_compute. reflexivity. Qed.

(* the gate comes first: a refused request is answered without looking at the request at all -
   whatever else it carries (malformed parameters, a broken body), the answer is the same *)
Theorem handle_refusal_independent_of_request cfg c m tbl sc r1 r2 tr r :
  handle cfg c m tbl sc r1 = (tr, Refused r) -> handle cfg c m tbl sc r2 = (tr, Refused r).
Proof.
  unfold handle. destruct (authorize (script_cb tbl) [] (gate_alts cfg c m)) as [[hist res] tr0].
  destruct res as [r0|]; [intros H; exact H|].
  destruct (bind_all (List.length hist) r1 (m_params m)); intros H; inversion H.
Qed.

Example demo_refused_whatever_the_request :
  handle demo_cfg demo_ctrl demo_method [(KAll, mkRefusal 403 (s "no"))] (mkOp false None) (demo_rq "5" "7") =
  handle demo_cfg demo_ctrl demo_method [(KAll, mkRefusal 403 (s "no"))] (mkOp false None) (demo_rq "not-a-number" "-1").
Proof. vm_compute. reflexivity. Qed.

(* ------------------------------------------------------------------ *)
(* C04 at the level of whole requests: the alternatives the handler's gate walks through are the
   security requirements the OpenAPI document shows for the operation - same schemes, same scopes,
   same order *)
From Gleece Require Import Proofs.CrossProofs.

Theorem handler_gate_is_documented_security cfg c m (o : operation) :
  sec_matches c m cfg o = true ->
  gate_alts cfg c m = map req_to_alt (o_security o).
Proof.
  unfold sec_matches. intros H.
  repeat (apply andb_true_iff in H; destruct H as [H ?]).
  match goal with Hs : list_eqb requirement_eqb _ _ = true |- _ =>
    apply (list_eqb_spec requirement_eqb requirement_eqb_spec) in Hs; rewrite Hs end.
  unfold gate_alts. rewrite map_map. reflexivity.
Qed.
