From Gleece Require Import Base.Bytes Model.Security.
Open Scope list_scope.

Lemma check_eqb_refl c : check_eqb c c = true.
Proof.
  unfold check_eqb. rewrite str_eqb_refl. simpl.
  apply (list_eqb_spec str_eqb str_eqb_spec). reflexivity.
Qed.

Section Gate.
  Variable St : Type.
  Variable cb : St -> check -> St * option refusal.

  Definition all_auth (tr : list event) : Prop := forall e, In e tr -> is_auth e = true.

  Lemma all_auth_app a b : all_auth a -> all_auth b -> all_auth (a ++ b).
  Proof. intros Ha Hb e He. apply in_app_or in He as [H|H]; auto. Qed.

  (* ---- inner loop ---- *)
  Lemma run_checks_spec cs : forall st st' res tr,
    run_checks cb st cs = (st', res, tr) ->
    all_auth tr /\
    match res with
    | None => (forall c, In c cs -> approved_in tr c = true) /\ last_refusal tr = None
    | Some r => (exists c, In c cs /\ refused_in tr c = true) /\ last_refusal tr = Some r
    end.
  Proof.
    induction cs as [|c t IH]; intros st st' res tr H; simpl in H.
    - inversion H; subst. split; [intros e []|]. split; [intros c []|reflexivity].
    - destruct (cb st c) as [st1 v] eqn:Ecb. destruct v as [r|].
      + inversion H; subst. split.
        * intros e [E|[]]; subst; reflexivity.
        * split; [|reflexivity]. exists c. split; [left; reflexivity|].
          simpl. rewrite check_eqb_refl. reflexivity.
      + destruct (run_checks cb st1 t) as [[st2 res2] tr2] eqn:Er. inversion H; subst.
        destruct (IH _ _ _ _ Er) as [Ha Hres]. split.
        * intros e [E|He]; [subst; reflexivity|auto].
        * destruct res as [r|].
          -- destruct Hres as [[c' [Hin Href]] Hl]. split.
             ++ exists c'. split; [right; auto|]. simpl. exact Href.
             ++ simpl. rewrite Hl. reflexivity.
          -- destruct Hres as [Happ Hl]. split.
             ++ intros c' [E|Hin]; simpl.
                ** subst. rewrite check_eqb_refl. reflexivity.
                ** rewrite (Happ c' Hin). apply orb_true_r.
             ++ simpl. rewrite Hl. reflexivity.
  Qed.

  Lemma approved_in_app a b c : approved_in (a ++ b) c = approved_in a c || approved_in b c.
  Proof. unfold approved_in. apply existsb_app. Qed.

  Lemma refused_in_app a b c : refused_in (a ++ b) c = refused_in a c || refused_in b c.
  Proof. unfold refused_in. apply existsb_app. Qed.

  Lemma last_refusal_app a b :
    last_refusal (a ++ b) = match last_refusal b with Some r => Some r | None => last_refusal a end.
  Proof.
    induction a as [|e a IH]; simpl.
    - destruct (last_refusal b); reflexivity.
    - rewrite IH. destruct (last_refusal b); reflexivity.
  Qed.

  (* ---- outer loop ---- *)
  Lemma authorize_from_spec alts : forall st last st' res tr,
    authorize_from cb st last alts = (st', res, tr) ->
    all_auth tr /\
    match res with
    | None => (alts = [] /\ last = None) \/
              (exists l, In l alts /\ forall c, In c l -> approved_in tr c = true)
    | Some r => (forall l, In l alts -> exists c, In c l /\ refused_in tr c = true) /\
                ((alts = [] /\ last = Some r) \/ (alts <> [] /\ last_refusal tr = Some r))
    end.
  Proof.
    induction alts as [|l t IH]; intros st last st' res tr H; simpl in H.
    - inversion H; subst. split; [intros e []|].
      destruct res; [split; [intros l []|left; auto]|left; auto].
    - destruct (run_checks cb st l) as [[st1 res1] tr1] eqn:Er.
      destruct (run_checks_spec _ _ _ _ _ Er) as [Ha1 Hres1].
      destruct res1 as [r1|].
      + destruct (authorize_from cb st1 (Some r1) t) as [[st2 res2] tr2] eqn:Ea. inversion H; subst.
        destruct (IH _ _ _ _ _ Ea) as [Ha2 Hres2]. split; [apply all_auth_app; auto|].
        destruct Hres1 as [[c1 [Hc1 Hr1]] Hl1].
        destruct res as [r|].
        * destruct Hres2 as [Hall Hlast]. split.
          -- intros l' [E|Hin].
             ++ subst. exists c1. split; auto. rewrite refused_in_app, Hr1. reflexivity.
             ++ destruct (Hall l' Hin) as [c' [Hc' Hr']]. exists c'. split; auto.
                rewrite refused_in_app, Hr'. apply orb_true_r.
          -- right. split; [discriminate|]. rewrite last_refusal_app.
             destruct Hlast as [[Et El]|[Hne Hl2]].
             ++ subst. inversion Ea; subst. simpl. inversion El; subst. exact Hl1.
             ++ rewrite Hl2. reflexivity.
        * destruct Hres2 as [[Et El]|[l' [Hin Happ]]]; [discriminate|].
          right. exists l'. split; [right; auto|].
          intros c Hc. rewrite approved_in_app, (Happ c Hc). apply orb_true_r.
      + inversion H; subst. split; auto.
        destruct Hres1 as [Happ _]. right. exists l. split; [left; reflexivity|exact Happ].
  Qed.

  Theorem authorize_sound st alts st' tr :
    authorize cb st alts = (st', None, tr) ->
    alts = [] \/ exists l, In l alts /\ forall c, In c l -> approved_in tr c = true.
  Proof.
    intros H. destruct (authorize_from_spec _ _ _ _ _ _ H) as [_ [[E _]|Hx]]; auto.
  Qed.

  Theorem authorize_refuse st alts st' r tr :
    authorize cb st alts = (st', Some r, tr) ->
    alts <> [] /\ (forall l, In l alts -> exists c, In c l /\ refused_in tr c = true) /\
    last_refusal tr = Some r.
  Proof.
    intros H. destruct (authorize_from_spec _ _ _ _ _ _ H) as [_ [Hall [[_ E]|[Hne Hl]]]]; [discriminate|].
    auto.
  Qed.

  Theorem authorize_trace_only_auth st alts st' res tr :
    authorize cb st alts = (st', res, tr) -> all_auth tr.
  Proof. intros H. apply (authorize_from_spec _ _ _ _ _ _ H). Qed.

  (* ---- the gate ---- *)

  (* what the translator establishes about the code behind the gate: it starts by instantiating
     the controller and never calls the authorization callback again *)
  Definition rest_ok (h : handler St) : Prop :=
    forall st, exists t, h_rest h st = EInit :: t /\ forall e, In e t -> is_auth e = false.

  Lemma before_gate_auth tr rest : all_auth tr -> before_gate (tr ++ EInit :: rest) = tr.
  Proof.
    induction tr as [|e tr IH]; intros Ha; simpl; auto.
    assert (is_auth e = true) as He by (apply Ha; left; reflexivity).
    destruct e; simpl in *; try discriminate. f_equal. apply IH.
    intros e' H'. apply Ha. right; auto.
  Qed.

  Lemma before_gate_no_gate tr : (forall e, In e tr -> is_behind_gate e = false) -> before_gate tr = tr.
  Proof.
    induction tr as [|e tr IH]; intros H; simpl; auto.
    rewrite (H e (or_introl eq_refl)). f_equal. apply IH. intros e' H'. apply H; right; auto.
  Qed.

  Lemma filter_all_auth tr : all_auth tr -> filter is_auth tr = tr.
  Proof.
    induction tr as [|e tr IH]; intros Ha; simpl; auto.
    rewrite (Ha e (or_introl eq_refl)). f_equal. apply IH. intros e' H'. apply Ha; right; auto.
  Qed.

  Lemma filter_none tr : (forall e, In e tr -> is_auth e = false) -> filter is_auth tr = [].
  Proof.
    induction tr as [|e tr IH]; intros H; simpl; auto.
    rewrite (H e (or_introl eq_refl)). apply IH. intros e' H'. apply H; right; auto.
  Qed.

  Lemma auth_not_behind e : is_auth e = true -> is_behind_gate e = false.
  Proof. destruct e; simpl; congruence. Qed.

  (* No controller code (instantiation, parameter parsing, invocation) runs unless one of the
     route's alternatives was approved in full; when all are refused the reply is the last
     refusal.  For every callback behaviour, every callback state and every continuation. *)
  Theorem gate_holds (h : handler St) st :
    rest_ok h -> prop_C03 (h_alts h) (run_handler cb h st) = true.
  Proof.
    intros Hrest. unfold run_handler.
    destruct (authorize cb st (h_alts h)) as [[st1 res] tr] eqn:Ea.
    pose proof (authorize_trace_only_auth _ _ _ _ _ Ea) as Hauth.
    destruct res as [r|].
    - (* refused *)
      destruct (authorize_refuse _ _ _ _ _ Ea) as [Hne [Hall Hlast]].
      unfold prop_C03.
      assert (Hng : forall e, In e (tr ++ [EReplied (rf_status r) (rf_body r)]) -> is_behind_gate e = false).
      { intros e He. apply in_app_or in He as [He|[He|[]]].
        - apply auth_not_behind. auto.
        - subst; reflexivity. }
      assert (existsb is_behind_gate (tr ++ [EReplied (rf_status r) (rf_body r)]) = false) as Hex.
      { destruct (existsb is_behind_gate _) eqn:E; auto.
        apply existsb_exists in E as [e [He Hb]]. rewrite (Hng e He) in Hb. discriminate. }
      rewrite Hex, (before_gate_no_gate _ Hng), filter_app, (filter_all_auth _ Hauth). simpl.
      rewrite app_nil_r.
      destruct (h_alts h) as [|l0 alts0] eqn:Ealts; [contradiction Hne; reflexivity|].
      rewrite Hlast. apply andb_true_iff. split.
      + apply forallb_forall. intros l Hl. destruct (Hall l Hl) as [c [Hc Hr]].
        apply existsb_exists. exists c; auto.
      + rewrite existsb_app. simpl. rewrite N.eqb_refl. apply orb_true_r.
    - (* approved *)
      destruct (Hrest st1) as [t [Ht Hnoauth]]. rewrite Ht.
      unfold prop_C03.
      assert (existsb is_behind_gate (tr ++ EInit :: t) = true) as Hex.
      { apply existsb_exists. exists EInit. split; [apply in_or_app; right; left; reflexivity|reflexivity]. }
      rewrite Hex, (before_gate_auth _ _ Hauth), (filter_all_auth _ Hauth).
      apply andb_true_iff. split.
      + destruct (authorize_sound _ _ _ _ Ea) as [E|[l [Hl Happ]]].
        * rewrite E. reflexivity.
        * apply orb_true_iff. right. apply existsb_exists. exists l. split; auto.
          apply forallb_forall. exact Happ.
      + rewrite filter_app, (filter_all_auth _ Hauth). simpl. rewrite (filter_none _ Hnoauth), app_nil_r.
        apply Nat.eqb_refl.
  Qed.

  (* the two readable consequences *)
  Corollary refused_means_untouched (h : handler St) st st1 r tr :
    authorize cb st (h_alts h) = (st1, Some r, tr) ->
    run_handler cb h st = tr ++ [EReplied (rf_status r) (rf_body r)] /\
    (forall e, In e (run_handler cb h st) -> is_behind_gate e = false).
  Proof.
    intros Ea. unfold run_handler. rewrite Ea. split; auto.
    intros e He. apply in_app_or in He as [He|[He|[]]].
    - apply auth_not_behind. apply (authorize_trace_only_auth _ _ _ _ _ Ea). exact He.
    - subst; reflexivity.
  Qed.

  Corollary invoked_means_approved (h : handler St) st :
    rest_ok h ->
    (exists e, In e (run_handler cb h st) /\ is_behind_gate e = true) ->
    h_alts h = [] \/
    exists l, In l (h_alts h) /\
              forall c, In c l -> approved_in (filter is_auth (before_gate (run_handler cb h st))) c = true.
  Proof.
    intros Hrest [e [He Hb]].
    unfold run_handler in *.
    destruct (authorize cb st (h_alts h)) as [[st1 res] tr] eqn:Ea.
    pose proof (authorize_trace_only_auth _ _ _ _ _ Ea) as Hauth.
    destruct res as [r|].
    - exfalso. apply in_app_or in He as [He|[He|[]]].
      + rewrite (auth_not_behind _ (Hauth e He)) in Hb. discriminate.
      + subst; discriminate.
    - destruct (Hrest st1) as [t [Ht _]]. rewrite Ht.
      rewrite (before_gate_auth _ _ Hauth), (filter_all_auth _ Hauth).
      apply (authorize_sound _ _ _ _ Ea).
  Qed.
End Gate.

(* non-vacuity: a stateful callback that approves the first call only *)
From Coq Require Import String.
Definition demo_cb (n : nat) (c : check) : nat * option refusal :=
  (S n, if Nat.eqb n 1 then None else Some (mkRefusal 401%N (s "no"))).
Definition demo_alts : list (list check) :=
  [[mkCheck (s "a") [s "r"]]; [mkCheck (s "b") []; mkCheck (s "c") []]; [mkCheck (s "d") []]]%string.
Definition demo_handler : handler nat := mkHandler demo_alts (fun _ => [EInit; EParsed (s "id"); EInvoked (s "C") (s "M"); EReplied 200%N []]%string).

Example demo_gate :
  (* a refused, b approved, c refused, d refused -> reply 401, controller untouched *)
  run_handler demo_cb demo_handler 0 =
  [EAuth (mkCheck (s "a") [s "r"]) (Some (mkRefusal 401%N (s "no")));
   EAuth (mkCheck (s "b") []) None;
   EAuth (mkCheck (s "c") []) (Some (mkRefusal 401%N (s "no")));
   EAuth (mkCheck (s "d") []) (Some (mkRefusal 401%N (s "no")));
   EReplied 401%N (s "no")]%string /\
  prop_C03 demo_alts (run_handler demo_cb demo_handler 0) = true /\
  (* starting in state 1 the first alternative is approved and the controller runs *)
  prop_C03 demo_alts (run_handler demo_cb demo_handler 1) = true /\
  (* a trace in which the controller ran although everything was refused is rejected *)
  prop_C03 demo_alts [EAuth (mkCheck (s "a") [s "r"]) (Some (mkRefusal 401%N (s "no"))); EInit;
                      EInvoked (s "C") (s "M")]%string = false /\
  (* parsing before the gate is rejected *)
  prop_C03 demo_alts [EParsed (s "id"); EAuth (mkCheck (s "a") [s "r"]) None; EInit]%string = false.
Proof. vm_compute. repeat split. Qed.
