From Gleece Require Import Base.Bytes Model.Project Model.Spec Model.Security Model.RouterGate
     Proofs.SecurityProofs.
Open Scope list_scope.

Lemma check_eqb_spec a b : check_eqb a b = true <-> a = b.
Proof.
  destruct a as [s1 sc1], b as [s2 sc2]. unfold check_eqb; simpl.
  rewrite andb_true_iff, str_eqb_spec, (list_eqb_spec str_eqb str_eqb_spec). split.
  - intros [-> ->]; reflexivity.
  - intros E; inversion E; auto.
Qed.

Lemma alts_eqb_spec a b : alts_eqb a b = true <-> a = b.
Proof.
  unfold alts_eqb. apply list_eqb_spec. intros x y. apply list_eqb_spec. apply check_eqb_spec.
Qed.

Lemma combine_in_left {A B} (l : list A) (r : list B) x :
  List.length r = List.length l -> In x l -> exists y, In (x, y) (combine l r).
Proof.
  revert r; induction l as [|a l IH]; intros [|b r] Hlen Hin; simpl in *; try contradiction; try discriminate.
  destruct Hin as [E|Hin].
  - subst. exists b. left; reflexivity.
  - destruct (IH r ltac:(lia) Hin) as [y Hy]. exists y. right; exact Hy.
Qed.

(* What a successful translation obligation gives: every annotated method (hidden ones included)
   has a registration whose gate enforces exactly the route's effective alternatives, and for
   every callback behaviour, every callback state and whatever follows the gate, the handler's
   trace satisfies the C03 oracle. *)
Theorem router_ok_gate (p : project) (regs : list registration) :
  router_ok p regs = true ->
  forall c m, In (c, m) (all_routes p) ->
  exists r, In r regs /\
    rg_verb r = m_verb m /\ rg_url_lit r = c_route c ++ m_route m /\ rg_op_id r = m_name m /\
    rg_alts r = to_checks (effective_by_text (p_config p) c m) /\
    rg_invokes r = [m_name m] /\
    forall (St : Type) (cb : St -> check -> St * option refusal) (rest : St -> list event) (st : St),
      rest_ok St (mkHandler (rg_alts r) rest) ->
      prop_C03 (to_checks (effective_by_text (p_config p) c m))
               (run_handler cb (mkHandler (rg_alts r) rest) st) = true.
Proof.
  unfold router_ok. rewrite andb_true_iff, Nat.eqb_eq, forallb_forall. intros [Hlen Hall] c m Hin.
  assert (Hin' : In (c, m) (routes_of p)).
  { unfold routes_of, all_routes in *. apply in_flat_map in Hin as [c' [Hc' Hm']].
    apply in_flat_map. exists c'. split; auto.
    (* sort_controllers is a permutation *)
    clear -Hc'. unfold sort_controllers.
    assert (G : forall l acc, In c' l \/ In c' acc -> In c' (fold_left (fun acc c => insert_ctrl c acc) l acc)).
    { induction l as [|x l IH]; intros acc [H|H]; simpl; auto; try contradiction.
      - destruct H as [E|H].
        + subst. apply IH. right. clear. induction acc as [|d t IHt]; simpl; auto.
          destruct (str_ltb (c_name c') (c_name d)); simpl; auto.
        + apply IH. left; auto.
      - apply IH. right. clear -H. induction acc as [|d t IHt]; simpl in *; [contradiction|].
        destruct (str_ltb (c_name x) (c_name d)); simpl; destruct H as [E|H]; auto. }
    apply G. left; exact Hc'. }
  destruct (combine_in_left (routes_of p) regs (c, m) Hlen Hin') as [r Hr].
  specialize (Hall _ Hr). simpl in Hall. unfold reg_matches in Hall.
  repeat (apply andb_true_iff in Hall as [Hall ?]).
  exists r. split; [eapply in_combine_r; eauto|].
  repeat match goal with
         | H : str_eqb _ _ = true |- _ => apply str_eqb_spec in H
         | H : alts_eqb _ _ = true |- _ => apply alts_eqb_spec in H
         end.
  match goal with H : list_eqb str_eqb _ _ = true |- _ => apply (list_eqb_spec str_eqb str_eqb_spec) in H end.
  repeat split; auto.
  intros St cb rest st Hrest.
  match goal with H : rg_alts r = _ |- _ => rewrite <- H end.
  apply (gate_holds St cb (mkHandler (rg_alts r) rest) st Hrest).
Qed.

(* the registration table is exactly the list of annotated methods (hidden ones included), in
   emission order: nothing missing, nothing extra, each handler invoking its own method of its
   own controller *)
Definition reg_key (r : registration) := (rg_verb r, rg_url_lit r, rg_ctrl_type r, rg_invokes r).
Definition route_key (cm : controller * method) :=
  (m_verb (snd cm), c_route (fst cm) ++ m_route (snd cm), c_name (fst cm), [m_name (snd cm)]).

Lemma table_aux cfg : forall (rs : list (controller * method)) (regs : list registration),
  List.length regs = List.length rs ->
  forallb (fun x => reg_matches cfg (fst (fst x)) (snd (fst x)) (snd x)) (combine rs regs) = true ->
  map reg_key regs = map route_key rs.
Proof.
  induction rs as [|cm rs IH]; intros [|r regs] Hlen Hall; simpl in *; try discriminate; auto.
  apply andb_true_iff in Hall as [Hm Hall].
  rewrite (IH regs ltac:(lia) Hall). f_equal.
  unfold reg_matches in Hm. repeat (apply andb_true_iff in Hm as [Hm ?]).
  repeat match goal with H : str_eqb _ _ = true |- _ => apply str_eqb_spec in H end.
  match goal with H : list_eqb str_eqb _ _ = true |- _ => apply (list_eqb_spec str_eqb str_eqb_spec) in H end.
  unfold reg_key, route_key. destruct cm as [c m]. simpl in *.
  repeat match goal with H : _ = _ |- _ => rewrite H; clear H end. reflexivity.
Qed.

Theorem router_ok_table (p : project) (regs : list registration) :
  router_ok p regs = true -> map reg_key regs = map route_key (routes_of p).
Proof.
  unfold router_ok. rewrite andb_true_iff, Nat.eqb_eq. intros [Hlen Hall].
  eapply table_aux; eauto.
Qed.
