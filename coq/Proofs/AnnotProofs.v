(* Proofs about Model/Annot.v (C16): the matcher on every well-formed spelling of an annotation
   line (round trip, with the exact side condition), soundness and completeness of the matcher
   w.r.t. the grammar, completeness of the independent recogniser used by the oracle, the F7
   witness, the holder (error exactly on malformed JSON5, attribute order, description rule),
   and prop_C16 on the model's own output. *)
From Gleece Require Import Base.Bytes Model.Annot.
From Coq Require Import String.
Open Scope list_scope.

(* ---------------------------------------------------------------- lists *)

Lemma slice_at : forall (a b c : str) off,
  off = List.length a -> slice (a ++ b ++ c) off (List.length b) = b.
Proof.
  intros a b c off ->. unfold slice.
  rewrite skipn_app, skipn_all, Nat.sub_diag. cbn [skipn app].
  rewrite firstn_app, firstn_all, Nat.sub_diag. cbn [firstn]. apply app_nil_r.
Qed.

Lemma span_stop : forall p a b,
  forallb p a = true ->
  match b with [] => True | c :: _ => p c = false end ->
  span p (a ++ b) = (a, b).
Proof.
  intros p a b. induction a as [|x a IH]; intros Ha Hb.
  - cbn [app]. destruct b as [|c b]; [reflexivity|]. cbn [span]. rewrite Hb. reflexivity.
  - cbn [forallb] in Ha. apply andb_true_iff in Ha as [Hx Ha].
    cbn [app span]. rewrite Hx, (IH Ha Hb). reflexivity.
Qed.

Lemma span_sound : forall p l a b,
  span p l = (a, b) ->
  l = a ++ b /\ forallb p a = true /\ match b with [] => True | c :: _ => p c = false end.
Proof.
  intros p l. induction l as [|x l IH]; intros a b H; cbn [span] in H.
  - inversion H; subst. auto.
  - destruct (p x) eqn:Hx.
    + destruct (span p l) as [a' b'] eqn:E. inversion H; subst.
      destruct (IH a' b eq_refl) as (-> & Ha & Hb).
      cbn [forallb]. rewrite Hx. auto.
    + inversion H; subst. cbn. auto.
Qed.
(* ---------------------------------------------------------------- byte facts *)

Lemma re_ws_cases : forall c, re_ws c = true -> c = x09 \/ c = x0a \/ c = x0c \/ c = x0d \/ c = x20.
Proof.
  intros c H. unfold re_ws in H. rewrite !orb_true_iff in H.
  destruct H as [[[[H|H]|H]|H]|H]; apply beqb_spec in H; auto.
Qed.

Lemma re_ws_not_word : forall c, re_ws c = true -> is_word c = false.
Proof. intros c H. destruct (re_ws_cases c H) as [->|[->|[->|[->| ->]]]]; reflexivity. Qed.

Lemma re_ws_not_rbrace : forall c, re_ws c = true -> beqb c c_rbrace = false.
Proof. intros c H. destruct (re_ws_cases c H) as [->|[->|[->|[->| ->]]]]; reflexivity. Qed.

Lemma re_ws_not_lpar : forall c, re_ws c = true -> beqb c c_lpar = false.
Proof. intros c H. destruct (re_ws_cases c H) as [->|[->|[->|[->| ->]]]]; reflexivity. Qed.

(* ---------------------------------------------------------------- flattening a parse tree *)

Definition flat_tail (tl : tail_res) : str :=
  match tl with TailNone => [] | TailDescr w d => w ++ d end.
Definition flat_json (jp : option (str * str * str)) : str :=
  match jp with Some (w1, w2, jt) => w1 ++ c_comma :: w2 ++ jt | None => [] end.
Definition flat_paren (v : str) (jp : option (str * str * str)) : str :=
  match v with [] => [] | _ => c_lpar :: v ++ flat_json jp ++ [c_rpar] end.
Definition flatten (tr : tree) : str :=
  s "// @" ++ t_name tr ++ flat_paren (t_value tr) (t_json tr) ++ flat_tail (t_tail tr).

(* the tail as the round trip needs it: the description does not start with \s *)
Definition wf_tail_b (tl : tail_res) : bool :=
  match tl with
  | TailNone => true
  | TailDescr w d =>
      nonempty w && forallb re_ws w
      && match d with c :: _ => negb (re_ws c) | [] => false end && no_lf d
  end.

Lemma tail_flat : forall tl, wf_tail_b tl = true -> tail (flat_tail tl) = Some tl.
Proof.
  intros [|w d] H; [reflexivity|].
  cbn [wf_tail_b] in H. rewrite !andb_true_iff in H. destruct H as [[[Hne Hw] Hd] Hlf].
  destruct w as [|b w]; [discriminate|]. destruct d as [|c d]; [discriminate|].
  apply negb_true_iff in Hd.
  cbn [flat_tail]. unfold tail. cbn [app].
  change (b :: w ++ c :: d) with ((b :: w) ++ c :: d).
  rewrite (span_stop re_ws (b :: w) (c :: d) Hw Hd). rewrite Hlf. reflexivity.
Qed.

(* ---------------------------------------------------------------- the greedy {.*} *)

Lemma last_close_none : forall d, false_close d = false -> last_close d = None.
Proof.
  induction d as [|c t IH]; intros H; [reflexivity|].
  cbn [false_close] in H. apply orb_false_iff in H as [H1 H2].
  cbn [last_close]. rewrite (IH H2).
  destruct (is_dot c); [|reflexivity].
  destruct (beqb c c_rbrace) eqn:Ec; [|reflexivity].
  cbn [andb] in H1.
  destruct t as [|c2 r]; [reflexivity|].
  destruct (beqb c2 c_rpar) eqn:E2; [|reflexivity].
  cbn [andb] in H1. destruct r as [|c3 r]; [discriminate|].
  unfold tail. cbn [span]. rewrite H1. reflexivity.
Qed.

Lemma last_close_ws : forall w r,
  forallb re_ws w = true -> last_close r = None -> last_close (w ++ r) = None.
Proof.
  induction w as [|c w IH]; intros r Hw Hr; [exact Hr|].
  cbn [forallb] in Hw. apply andb_true_iff in Hw as [Hc Hw].
  cbn [app last_close]. rewrite (IH r Hw Hr), (re_ws_not_rbrace c Hc).
  destruct (is_dot c); reflexivity.
Qed.

Lemma last_close_rpar : forall r, last_close r = None -> last_close (c_rpar :: r) = None.
Proof. intros r H. cbn [last_close]. rewrite H. reflexivity. Qed.

Lemma last_close_found : forall inner r8 tl,
  no_lf inner = true -> last_close (c_rpar :: r8) = None -> tail r8 = Some tl ->
  last_close (inner ++ c_rbrace :: c_rpar :: r8) = Some (inner, tl).
Proof.
  induction inner as [|c inner IH]; intros r8 tl Hlf Hn Ht.
  - cbn [app]. cbn [last_close] in *. 
    change (is_dot c_rbrace) with true. cbv iota.
    rewrite Hn. change (beqb c_rbrace c_rbrace) with true. change (beqb c_rpar c_rpar) with true.
    cbv iota. rewrite Ht. reflexivity.
  - unfold no_lf in Hlf. cbn [forallb] in Hlf. apply andb_true_iff in Hlf as [Hc Hlf].
    cbn [app last_close]. rewrite Hc, (IH r8 tl Hlf Hn Ht). reflexivity.
Qed.

Lemma flat_tail_no_close : forall tl,
  wf_tail_b tl = true ->
  match tl with TailDescr _ d => false_close d = false | TailNone => True end ->
  last_close (c_rpar :: flat_tail tl) = None.
Proof.
  intros [|w d] H Hd; apply last_close_rpar; [reflexivity|].
  cbn [wf_tail_b] in H. rewrite !andb_true_iff in H. destruct H as [[[_ Hw] _] _].
  cbn [flat_tail]. apply last_close_ws; [exact Hw|]. apply last_close_none; exact Hd.
Qed.

Lemma try_json_ok : forall w1 w2 inner r8 tl,
  forallb re_ws w1 = true -> forallb re_ws w2 = true -> no_lf inner = true ->
  last_close (c_rpar :: r8) = None -> tail r8 = Some tl ->
  try_json (w1 ++ c_comma :: w2 ++ c_lbrace :: inner ++ c_rbrace :: c_rpar :: r8)
  = Some (w1, w2, c_lbrace :: inner ++ [c_rbrace], tl).
Proof.
  intros w1 w2 inner r8 tl H1 H2 Hlf Hn Ht. unfold try_json.
  rewrite (span_stop re_ws w1 _ H1) by reflexivity.
  change (beqb c_comma c_comma) with true. cbv iota.
  rewrite (span_stop re_ws w2 _ H2) by reflexivity.
  change (beqb c_lbrace c_lbrace) with true. cbv iota.
  rewrite (last_close_found inner r8 tl Hlf Hn Ht). reflexivity.
Qed.
(* ---------------------------------------------------------------- the matcher on a flattened tree *)

Lemma wf_json_split : forall jt, wf_json jt = true ->
  exists inner, jt = c_lbrace :: inner ++ [c_rbrace] /\ no_lf inner = true.
Proof.
  intros [|c jt] H; [discriminate|]. cbn [wf_json] in H.
  rewrite !andb_true_iff in H. destruct H as [[[Hc Hl] Hn] Hlf].
  apply beqb_spec in Hc. subst c.
  destruct jt as [|y jt] using rev_ind; [discriminate|]. clear IHjt.
  change (c_lbrace :: jt ++ [y]) with ((c_lbrace :: jt) ++ [y]) in Hl.
  rewrite last_last in Hl. apply beqb_spec in Hl. subst y.
  exists jt. split; [reflexivity|].
  unfold no_lf in *. cbn [forallb] in Hlf. apply andb_true_iff in Hlf as [_ Hlf].
  rewrite forallb_app in Hlf. apply andb_true_iff in Hlf as [Hlf _]. exact Hlf.
Qed.

(* the round-trip conditions on a tree *)
Definition wf_tree (tr : tree) : Prop :=
  wf_name (t_name tr) = true /\ forallb is_valc (t_value tr) = true /\
  wf_tail_b (t_tail tr) = true /\
  match t_json tr with
  | None => True
  | Some (w1, w2, jt) =>
      t_value tr <> [] /\ forallb re_ws w1 = true /\
      match w1 with c :: _ => is_valc c = false | [] => True end /\
      forallb re_ws w2 = true /\ wf_json jt = true /\
      match t_tail tr with TailDescr _ d => false_close d = false | TailNone => True end
  end.

Lemma match_text_flatten : forall tr, wf_tree tr -> match_text (flatten tr) = Some tr.
Proof.
  intros [n v jp tl] (Hn & Hv & Htl & Hj). cbn [t_name t_value t_json t_tail] in *.
  unfold wf_name in Hn. apply andb_true_iff in Hn as [Hne Hn].
  unfold flatten. cbn [t_name t_value t_json t_tail].
  unfold match_text.
  change (strip_prefix (s "// @") (s "// @" ++ n ++ flat_paren v jp ++ flat_tail tl))
    with (Some (n ++ flat_paren v jp ++ flat_tail tl)).
  cbv iota.
  destruct v as [|v0 v].
  - (* no parenthesis group *)
    destruct jp as [[[w1 w2] jt]|]; [destruct Hj as [Hj _]; contradiction|].
    cbn [flat_paren app].
    destruct tl as [|w d].
    + cbn [flat_tail]. rewrite app_nil_r.
      rewrite <- (app_nil_r n) at 1. rewrite (span_stop is_word n [] Hn I).
      destruct n; [discriminate|]. reflexivity.
    + pose proof Htl as Htl'. cbn [wf_tail_b] in Htl'. rewrite !andb_true_iff in Htl'.
      destruct Htl' as [[[Hwne Hw] _] _].
      destruct w as [|b w]; [discriminate|].
      cbn [forallb] in Hw. apply andb_true_iff in Hw as [Hb Hw].
      cbn [flat_tail app].
      rewrite (span_stop is_word n (b :: w ++ d) Hn (re_ws_not_word b Hb)).
      destruct n as [|n0 n]; [discriminate|].
      rewrite (re_ws_not_lpar b Hb).
      change (b :: w ++ d) with (flat_tail (TailDescr (b :: w) d)).
      rewrite (tail_flat _ Htl). reflexivity.
  - (* parenthesis group *)
    cbn [flat_paren]. rewrite <- app_comm_cons.
    rewrite (span_stop is_word n _ Hn) by reflexivity.
    destruct n as [|n0 n]; [discriminate|].
    change (beqb c_lpar c_lpar) with true. cbv iota.
    rewrite <- !app_assoc.
    destruct jp as [[[w1 w2] jt]|].
    + destruct Hj as (_ & H1 & H1h & H2 & Hjt & Hfc).
      destruct (wf_json_split jt Hjt) as (inner & -> & Hlf).
      cbn [flat_json]. rewrite <- !app_assoc. cbn [app].
      assert (Hstop : match (w1 ++ c_comma :: w2 ++ c_lbrace :: inner ++ c_rbrace :: c_rpar :: flat_tail tl) with
                      | [] => True | c :: _ => is_valc c = false end).
      { destruct w1 as [|c w1]; [reflexivity| exact H1h]. }
      rewrite <- !app_assoc. cbn [app].
      replace (v0 :: v ++ w1 ++ c_comma :: w2 ++ c_lbrace :: (inner ++ [c_rbrace]) ++ c_rpar :: flat_tail tl)
        with ((v0 :: v) ++ (w1 ++ c_comma :: w2 ++ c_lbrace :: inner ++ c_rbrace :: c_rpar :: flat_tail tl))
        by (rewrite <- !app_assoc; reflexivity).
      rewrite (span_stop is_valc (v0 :: v) _ Hv Hstop).
      rewrite (try_json_ok w1 w2 inner (flat_tail tl) tl H1 H2 Hlf
                 (flat_tail_no_close tl Htl Hfc) (tail_flat tl Htl)).
      reflexivity.
    + cbn [flat_json app].
      change (v0 :: v ++ c_rpar :: flat_tail tl) with ((v0 :: v) ++ c_rpar :: flat_tail tl).
      rewrite (span_stop is_valc (v0 :: v) (c_rpar :: flat_tail tl) Hv) by reflexivity.
      unfold try_json. cbn [span]. change (re_ws c_rpar) with false. cbv iota.
      change (beqb c_rpar c_comma) with false. cbv iota.
      change (beqb c_rpar c_rpar) with true. cbv iota.
      rewrite (tail_flat tl Htl). reflexivity.
Qed.
(* ---------------------------------------------------------------- the groups *)

Definition pattr_of (tr : tree) : pattr :=
  {| p_name := t_name tr; p_value := t_value tr;
     p_json := match t_json tr with Some (_, _, j) => Some j | None => None end;
     p_descr := match t_tail tr with TailNone => [] | TailDescr _ d => d end |}.

Lemma slice_eq : forall raw a b c off len,
  raw = a ++ b ++ c -> off = List.length a -> len = List.length b -> slice raw off len = b.
Proof. intros raw a b c off len -> -> ->. apply slice_at; reflexivity. Qed.

(* a tree the matcher can return: a JSON5 part only inside a parenthesis group *)
Definition tree_ok (tr : tree) : Prop :=
  match t_json tr with Some _ => t_value tr <> [] | None => True end.

Lemma tree_len_flatten : forall tr, tree_ok tr -> tree_len tr = List.length (flatten tr).
Proof.
  intros [n v jp tl] Hok. unfold tree_ok in Hok. cbn [t_json t_value] in Hok.
  unfold tree_len, flatten. cbn [t_name t_value t_json t_tail].
  rewrite !app_length. change (List.length (s "// @")) with 4.
  assert (Ht : List.length (flat_tail tl) =
               match tl with TailNone => 0 | TailDescr w d => List.length w + List.length d end).
  { destruct tl as [|w d]; [reflexivity|]. cbn [flat_tail]. apply app_length. }
  rewrite Ht. clear Ht.
  destruct v as [|v0 v]; [cbn [flat_paren List.length]; lia|].
  unfold flat_paren. cbn [List.length]. rewrite !app_length. cbn [List.length].
  destruct jp as [[[w1 w2] j]|]; cbn [flat_json List.length].
  - rewrite !app_length. cbn [List.length]. rewrite !app_length. lia.
  - lia.
Qed.

Ltac norm_app := repeat (rewrite <- app_assoc || rewrite <- app_comm_cons); cbn [app].

Lemma groups_flatten : forall tr, tree_ok tr -> groups (flatten tr) tr = pattr_of tr.
Proof.
  intros tr Hok. pose proof (tree_len_flatten tr Hok) as Hlen.
  destruct tr as [n v jp tl]. unfold tree_ok in Hok. cbn [t_json t_value] in Hok.
  unfold groups, pattr_of, json_off, descr_off, value_off, name_off.
  rewrite Hlen. clear Hlen.
  unfold flatten. cbn [t_name t_value t_json t_tail].
  f_equal.
  - apply (slice_eq _ (s "// @") n (flat_paren v jp ++ flat_tail tl)); reflexivity.
  - destruct v as [|v0 v]; [reflexivity|].
    apply (slice_eq _ (s "// @" ++ n ++ [c_lpar]) (v0 :: v) (flat_json jp ++ [c_rpar] ++ flat_tail tl)).
    + unfold flat_paren. norm_app. reflexivity.
    + rewrite !app_length. cbn [List.length]. change (List.length (s "// @")) with 4. lia.
    + reflexivity.
  - destruct jp as [[[w1 w2] j]|]; [|reflexivity]. f_equal.
    destruct v as [|v0 v]; [contradiction|].
    apply (slice_eq _ (s "// @" ++ n ++ [c_lpar] ++ (v0 :: v) ++ w1 ++ [c_comma] ++ w2) j
                      ([c_rpar] ++ flat_tail tl)).
    + unfold flat_paren, flat_json. norm_app. reflexivity.
    + rewrite !app_length. cbn [List.length]. change (List.length (s "// @")) with 4. lia.
    + reflexivity.
  - destruct tl as [|w d]; [reflexivity|].
    apply (slice_eq _ (s "// @" ++ n ++ flat_paren v jp ++ w) d []).
    + cbn [flat_tail]. rewrite app_nil_r. norm_app. reflexivity.
    + cbn [flat_tail]. rewrite !app_length. lia.
    + reflexivity.
Qed.
(* ---------------------------------------------------------------- TrimSpace leaves the line alone *)

Lemma rtrim_id : forall t, last_ws_len (rev t) = 0 -> rtrim t = t.
Proof.
  intros t H. unfold rtrim. destruct (List.length t); cbn [rtrim_rev].
  - apply rev_involutive.
  - rewrite H. apply rev_involutive.
Qed.

Lemma ltrim_flatten : forall tr, ltrim (flatten tr) = flatten tr.
Proof. intros tr. unfold flatten. reflexivity. Qed.

(* an ASCII byte that is not white space is never the end of a white-space rune *)
Lemma ws2_ascii : forall b c, N.ltb (bN c) 128 = true -> ws2 b c = false.
Proof.
  intros b c H. destruct c; try discriminate H; unfold ws2; cbn; apply andb_false_r.
Qed.

Lemma ws3_ascii : forall a b c, N.ltb (bN c) 128 = true -> ws3 a b c = false.
Proof.
  intros a b c H. destruct c; try discriminate H; unfold ws3; cbn; rewrite ?andb_false_r; reflexivity.
Qed.

Lemma last_ws_len_ascii : forall c r,
  N.ltb (bN c) 128 = true -> ascii_ws c = false -> last_ws_len (c :: r) = 0.
Proof.
  intros c r H1 H2. unfold last_ws_len. rewrite H2.
  destruct r as [|b2 r]; [reflexivity|]. rewrite (ws2_ascii b2 c H1).
  destruct r as [|b3 r]; [reflexivity|]. rewrite (ws3_ascii b3 b2 c H1). reflexivity.
Qed.

Lemma last_ws_len_rpar : forall r, last_ws_len (c_rpar :: r) = 0.
Proof. intros r. apply last_ws_len_ascii; reflexivity. Qed.

Lemma last_ws_len_word : forall c r, is_word c = true -> last_ws_len (c :: r) = 0.
Proof.
  intros c r H. apply last_ws_len_ascii; destruct c; try discriminate H; reflexivity.
Qed.

Lemma ws3_first_ascii : forall a b c, N.ltb (bN a) 128 = true -> ws3 a b c = false.
Proof.
  intros a b c H. destruct a; try discriminate H; unfold ws3; cbn;
    destruct (beqb b x9a); destruct (beqb b x80); destruct (beqb b x81); reflexivity.
Qed.

Lemma re_ws_ascii : forall b, re_ws b = true -> N.ltb (bN b) 128 = true.
Proof. intros b H. destruct (re_ws_cases b H) as [->|[->|[->|[->| ->]]]]; reflexivity. Qed.

Lemma last_ws_len_ctx : forall d b x,
  d <> [] -> re_ws b = true ->
  last_ws_len (rev d ++ b :: x) = last_ws_len (rev d ++ [c_sp]).
Proof.
  intros d b x Hd Hb.
  destruct (rev d) as [|b1 [|b2 [|b3 r]]] eqn:E.
  - apply (f_equal (@rev byte)) in E. rewrite rev_involutive in E. contradiction.
  - destruct (re_ws_cases b Hb) as [->|[->|[->|[->| ->]]]];
      cbn [app]; unfold last_ws_len; destruct (ascii_ws b1); try reflexivity;
      destruct x; reflexivity.
  - cbn [app]. unfold last_ws_len.
    rewrite (ws3_first_ascii b b2 b1 (re_ws_ascii b Hb)).
    rewrite (ws3_first_ascii c_sp b2 b1 eq_refl). reflexivity.
  - reflexivity.
Qed.

Definition wf_end (tr : tree) : Prop :=
  match t_tail tr with
  | TailDescr _ d => last_ws_len (rev d ++ [c_sp]) = 0
  | TailNone => True
  end.

Lemma last_split : forall (l : str), l <> [] -> exists l' c, l = l' ++ [c].
Proof.
  intros l H. destruct (exists_last H) as (l' & c & E). eauto.
Qed.

Lemma flatten_end_weak : forall tr,
  wf_name (t_name tr) = true -> wf_tail_b (t_tail tr) = true -> wf_end tr ->
  last_ws_len (rev (flatten tr)) = 0.
Proof.
  intros [n v jp tl] Hn Htl He. unfold wf_end in He.
  cbn [t_name t_value t_json t_tail] in *. unfold flatten. cbn [t_name t_value t_json t_tail].
  destruct tl as [|w d].
  - cbn [flat_tail]. rewrite app_nil_r.
    destruct v as [|v0 v].
    + cbn [flat_paren]. rewrite app_nil_r.
      unfold wf_name in Hn. apply andb_true_iff in Hn as [Hne Hn].
      destruct (last_split n) as (n' & c & ->); [destruct n; [discriminate|congruence]|].
      rewrite forallb_app in Hn. apply andb_true_iff in Hn as [_ Hc]. cbn [forallb] in Hc.
      rewrite andb_true_r in Hc.
      rewrite app_assoc, rev_app_distr. cbn [rev app]. apply last_ws_len_word; exact Hc.
    + unfold flat_paren.
      replace (s "// @" ++ n ++ c_lpar :: (v0 :: v) ++ flat_json jp ++ [c_rpar])
        with ((s "// @" ++ n ++ c_lpar :: (v0 :: v) ++ flat_json jp) ++ [c_rpar])
        by (norm_app; reflexivity).
      rewrite rev_app_distr. cbn [rev app]. apply last_ws_len_rpar.
  - cbn [wf_tail_b] in Htl. rewrite !andb_true_iff in Htl. destruct Htl as [[[Hwne Hw] Hd] _].
    destruct (last_split w) as (w' & b & ->); [destruct w; [discriminate|congruence]|].
    rewrite forallb_app in Hw. apply andb_true_iff in Hw as [_ Hb]. cbn [forallb] in Hb.
    rewrite andb_true_r in Hb.
    cbn [flat_tail].
    replace (s "// @" ++ n ++ flat_paren v jp ++ (w' ++ [b]) ++ d)
      with ((s "// @" ++ n ++ flat_paren v jp ++ w') ++ [b] ++ d) by (norm_app; reflexivity).
    rewrite !rev_app_distr. cbn [rev app]. rewrite <- app_assoc. cbn [app].
    rewrite last_ws_len_ctx; [exact He| |exact Hb].
    destruct d; [discriminate|congruence].
Qed.

Lemma flatten_end : forall tr, wf_tree tr -> wf_end tr -> last_ws_len (rev (flatten tr)) = 0.
Proof. intros tr (Hn & _ & Htl & _) He. apply flatten_end_weak; assumption. Qed.

Lemma wf_tree_ok : forall tr, wf_tree tr -> tree_ok tr.
Proof.
  intros tr (_ & _ & _ & Hj). unfold tree_ok. destruct (t_json tr) as [[[w1 w2] jt]|]; [|exact I].
  destruct Hj as [H _]. exact H.
Qed.

(* every spelling (any \s runs as separators) parses back to its parts *)
Theorem parse_line_flatten : forall tr,
  wf_tree tr -> wf_end tr -> parse_line (flatten tr) = Some (pattr_of tr).
Proof.
  intros tr Hwf He. unfold parse_line, trim_space.
  rewrite ltrim_flatten, (rtrim_id _ (flatten_end tr Hwf He)), (match_text_flatten tr Hwf).
  rewrite (groups_flatten tr (wf_tree_ok tr Hwf)). reflexivity.
Qed.

(* ---------------------------------------------------------------- the canonical spelling *)

Definition tree_of (n v : str) (j : option str) (d : str) : tree :=
  {| t_name := n; t_value := v;
     t_json := match j with Some jt => Some ([], [c_sp], jt) | None => None end;
     t_tail := match d with [] => TailNone | _ => TailDescr [c_sp] d end |}.

Lemma render_flatten : forall n v j d, render n v j d = flatten (tree_of n v j d).
Proof.
  intros n v j d. unfold render, flatten, tree_of. cbn [t_name t_value t_json t_tail].
  destruct v as [|v0 v]; destruct j as [jt|]; destruct d as [|d0 d]; reflexivity.
Qed.

Definition roundtrip_pre (n v : str) (j : option str) (d : str) : Prop :=
  wf_name n = true /\ wf_value v = true /\ wf_descr d = true /\
  match j with
  | Some jt => wf_json jt = true /\ v <> [] /\ no_false_close d = true
  | None => True
  end.

Theorem roundtrip : forall n v j d,
  roundtrip_pre n v j d -> parse_line (render n v j d) = Attr n v j d.
Proof.
  intros n v j d (Hn & Hv & Hd & Hj).
  rewrite render_flatten.
  assert (Hd' : match d with
                | [] => True
                | c :: _ => re_ws c = false /\ no_lf d = true /\ last_ws_len (rev d ++ [c_sp]) = 0
                end).
  { destruct d as [|c d]; [exact I|]. cbn [wf_descr] in Hd.
    rewrite !andb_true_iff in Hd. destruct Hd as [[H1 H2] H3].
    apply negb_true_iff in H1. apply Nat.eqb_eq in H3. auto. }
  rewrite parse_line_flatten.
  - unfold Attr, pattr_of, tree_of. cbn [t_name t_value t_json t_tail].
    destruct j; destruct d; reflexivity.
  - unfold wf_tree, tree_of. cbn [t_name t_value t_json t_tail].
    split; [exact Hn|]. split; [exact Hv|]. split.
    + destruct d as [|c d]; [reflexivity|]. destruct Hd' as (H1 & H2 & _).
      cbn [wf_tail_b nonempty is_nil forallb]. rewrite H1, H2. reflexivity.
    + destruct j as [jt|]; [|exact I]. destruct Hj as (Hjt & Hvne & Hfc).
      repeat split; try assumption; try reflexivity.
      destruct d as [|c d]; [exact I|]. unfold no_false_close in Hfc.
      apply negb_true_iff in Hfc. exact Hfc.
  - unfold wf_end, tree_of. cbn [t_tail].
    destruct d as [|c d]; [exact I|]. destruct Hd' as (_ & _ & H3). exact H3.
Qed.
(* ---------------------------------------------------------------- F7: the side condition is needed *)

Definition f7_line : str := s "// @Query(a, {name:""b""}) see {x})".

Lemma roundtrip_refuted :
  exists n v j d,
    wf_name n = true /\ wf_value v = true /\ wf_json j = true /\ wf_descr d = true /\ v <> [] /\
    no_false_close d = false /\
    render n v (Some j) d = f7_line /\
    parse_line (render n v (Some j) d) <> Attr n v (Some j) d /\
    parse_line (render n v (Some j) d)
      = Attr n v (Some (s "{name:""b""}) see {x}")) [].
Proof.
  exists (s "Query"), (s "a"), (s "{name:""b""}"), (s "see {x})").
  repeat split; try (vm_compute; reflexivity); try (vm_compute; discriminate).
Qed.

(* ---------------------------------------------------------------- soundness of the matcher:
   whatever it accepts is of the form  // @Name(value, {json5}) description  *)

Definition shape_tail (tl : tail_res) : Prop :=
  match tl with
  | TailNone => True
  | TailDescr w d => w <> [] /\ forallb re_ws w = true /\ d <> [] /\ no_lf d = true
  end.

Definition shape_tree (tr : tree) : Prop :=
  wf_name (t_name tr) = true /\ forallb is_valc (t_value tr) = true /\ shape_tail (t_tail tr) /\
  match t_json tr with
  | None => True
  | Some (w1, w2, jt) =>
      t_value tr <> [] /\ forallb re_ws w1 = true /\ forallb re_ws w2 = true /\ wf_json jt = true
  end.

(* "of this form": some decomposition into the parts of the grammar exists *)
Definition attr_shaped (t : str) : Prop := exists tr, t = flatten tr /\ shape_tree tr.

Lemma strip_prefix_sound : forall p t r, strip_prefix p t = Some r -> t = p ++ r.
Proof.
  induction p as [|x p IH]; intros t r H; cbn [strip_prefix] in H.
  - inversion H; reflexivity.
  - destruct t as [|y t]; [discriminate|].
    destruct (beqb x y) eqn:E; [|discriminate]. apply beqb_spec in E. subst y.
    cbn [app]. f_equal. apply IH; exact H.
Qed.

Lemma tail_sound : forall r tl, tail r = Some tl -> r = flat_tail tl /\ shape_tail tl.
Proof.
  intros r tl H. unfold tail in H. destruct r as [|c r]; [inversion H; split; [reflexivity|exact I]|].
  destruct (span re_ws (c :: r)) as [w rest] eqn:E.
  destruct (span_sound _ _ _ _ E) as (Hr & Hw & _).
  destruct w as [|b w]; [discriminate|].
  destruct rest as [|x rest].
  - destruct (rev (b :: w)) as [|c0 [|c1 w']] eqn:Er; try discriminate.
    destruct (is_dot c0) eqn:Hd; [|discriminate]. inversion H; subst tl. clear H.
    assert (Hbw : b :: w = rev (c1 :: w') ++ [c0]).
    { apply (f_equal (@rev byte)) in Er. rewrite rev_involutive in Er. rewrite Er. reflexivity. }
    split.
    + cbn [flat_tail]. rewrite Hr, app_nil_r. exact Hbw.
    + cbn [shape_tail]. rewrite Hbw in Hw. rewrite forallb_app in Hw.
      apply andb_true_iff in Hw as [Hw _].
      repeat split; try assumption; try discriminate.
      * intros E0. cbn [rev] in E0. apply app_eq_nil in E0 as [_ E0]. discriminate.
      * unfold no_lf. cbn [forallb]. rewrite Hd. reflexivity.
  - destruct (no_lf (x :: rest)) eqn:Hlf; [|discriminate]. inversion H; subst tl.
    split; [exact Hr|]. cbn [shape_tail]. repeat split; try assumption; discriminate.
Qed.

Lemma last_close_sound : forall r inner tl,
  last_close r = Some (inner, tl) ->
  exists r8, r = inner ++ c_rbrace :: c_rpar :: r8 /\ no_lf inner = true /\ tail r8 = Some tl.
Proof.
  induction r as [|c r IH]; intros inner tl H; [discriminate|].
  cbn [last_close] in H. destruct (is_dot c) eqn:Hc; [|discriminate].
  destruct (last_close r) as [[inner' tl']|] eqn:E.
  - inversion H; subst. destruct (IH inner' tl eq_refl) as (r8 & -> & Hlf & Ht).
    exists r8. repeat split; try assumption.
    unfold no_lf. cbn [forallb]. rewrite Hc. exact Hlf.
  - destruct (beqb c c_rbrace) eqn:Ec; [|discriminate]. apply beqb_spec in Ec. subst c.
    destruct r as [|c2 r8]; [discriminate|].
    destruct (beqb c2 c_rpar) eqn:E2; [|discriminate]. apply beqb_spec in E2. subst c2.
    destruct (tail r8) as [tl'|] eqn:Et; [|discriminate]. inversion H; subst.
    exists r8. repeat split; try assumption.
Qed.

Lemma wf_json_braces : forall inner, no_lf inner = true -> wf_json (c_lbrace :: inner ++ [c_rbrace]) = true.
Proof.
  intros inner H. cbn [wf_json].
  change (c_lbrace :: inner ++ [c_rbrace]) with ((c_lbrace :: inner) ++ [c_rbrace]).
  rewrite last_last. rewrite app_length. cbn [List.length].
  unfold no_lf in *. rewrite forallb_app. cbn [forallb]. rewrite H.
  replace (Nat.leb 2 (S (List.length inner) + 1)) with true
    by (symmetry; apply Nat.leb_le; lia).
  reflexivity.
Qed.

Lemma try_json_sound : forall r3 w1 w2 jt tl,
  try_json r3 = Some (w1, w2, jt, tl) ->
  r3 = w1 ++ c_comma :: w2 ++ jt ++ c_rpar :: flat_tail tl /\
  forallb re_ws w1 = true /\ forallb re_ws w2 = true /\ wf_json jt = true /\ shape_tail tl.
Proof.
  intros r3 w1 w2 jt tl H. unfold try_json in H.
  destruct (span re_ws r3) as [a r4] eqn:E1. destruct (span_sound _ _ _ _ E1) as (-> & Ha & _).
  destruct r4 as [|c r5]; [discriminate|].
  destruct (beqb c c_comma) eqn:Ec; [|discriminate]. apply beqb_spec in Ec. subst c.
  destruct (span re_ws r5) as [b r6] eqn:E2. destruct (span_sound _ _ _ _ E2) as (-> & Hb & _).
  destruct r6 as [|c' r7]; [discriminate|].
  destruct (beqb c' c_lbrace) eqn:Ec'; [|discriminate]. apply beqb_spec in Ec'. subst c'.
  destruct (last_close r7) as [[inner tl']|] eqn:E3; [|discriminate].
  inversion H; subst. clear H.
  destruct (last_close_sound _ _ _ E3) as (r8 & -> & Hlf & Ht).
  destruct (tail_sound _ _ Ht) as (-> & Hs).
  repeat split; try assumption.
  - norm_app. reflexivity.
  - apply wf_json_braces; exact Hlf.
Qed.

Lemma match_sound : forall t tr, match_text t = Some tr -> t = flatten tr /\ shape_tree tr.
Proof.
  intros t tr H. unfold match_text in H.
  destruct (strip_prefix (s "// @") t) as [r0|] eqn:E0; [|discriminate].
  apply strip_prefix_sound in E0. subst t.
  destruct (span is_word r0) as [n r1] eqn:E1. destruct (span_sound _ _ _ _ E1) as (-> & Hn & _).
  destruct n as [|n0 n]; [discriminate|].
  assert (Hname : wf_name (n0 :: n) = true) by (unfold wf_name; rewrite Hn; reflexivity).
  destruct r1 as [|c r2].
  - inversion H; subst. split; [reflexivity|]. repeat split; auto.
  - destruct (beqb c c_lpar) eqn:Ec.
    + apply beqb_spec in Ec. subst c.
      destruct (span is_valc r2) as [v r3] eqn:E2. destruct (span_sound _ _ _ _ E2) as (-> & Hv & _).
      destruct v as [|v0 v]; [discriminate|].
      destruct (try_json r3) as [[[[w1 w2] jt] tl]|] eqn:E3.
      * inversion H; subst. clear H.
        destruct (try_json_sound _ _ _ _ _ E3) as (-> & H1 & H2 & Hj & Hs).
        split.
        -- unfold flatten, flat_paren, flat_json. cbn [t_name t_value t_json t_tail]. norm_app. reflexivity.
        -- repeat split; auto; discriminate.
      * destruct r3 as [|c3 r8]; [discriminate|].
        destruct (beqb c3 c_rpar) eqn:E4; [|discriminate]. apply beqb_spec in E4. subst c3.
        destruct (tail r8) as [tl|] eqn:Et; [|discriminate]. inversion H; subst. clear H.
        destruct (tail_sound _ _ Et) as (-> & Hs).
        split.
        -- unfold flatten, flat_paren, flat_json. cbn [t_name t_value t_json t_tail]. norm_app. reflexivity.
        -- repeat split; auto.
    + destruct (tail (c :: r2)) as [tl|] eqn:Et; [|discriminate]. inversion H; subst. clear H.
      destruct (tail_sound _ _ Et) as (Hr & Hs).
      split.
      * unfold flatten. cbn [t_name t_value t_json t_tail flat_paren app]. rewrite Hr. reflexivity.
      * repeat split; auto.
Qed.

Theorem match_text_shaped : forall t tr, match_text t = Some tr -> attr_shaped t.
Proof. intros t tr H. exists tr. apply match_sound; exact H. Qed.
(* ---------------------------------------------------------------- the independent recogniser
   [shaped_b] (used by the oracle prop_C16) accepts every text of the form *)

Lemma k_lit_in : forall p r, In r (k_lit p (p ++ r)).
Proof.
  intros p r. unfold k_lit.
  assert (H : strip_prefix p (p ++ r) = Some r).
  { induction p as [|x p IH]; [reflexivity|]. cbn [app strip_prefix]. rewrite beqb_refl. exact IH. }
  rewrite H. left; reflexivity.
Qed.

Lemma k_many1_in : forall c a r, a <> [] -> forallb c a = true -> In r (k_many1 c (a ++ r)).
Proof.
  intros c a r. induction a as [|x a IH]; intros Hne Ha; [contradiction|].
  cbn [forallb] in Ha. apply andb_true_iff in Ha as [Hx Ha].
  cbn [app k_many1]. rewrite Hx.
  destruct a as [|y a]; [left; reflexivity|].
  right. apply IH; [discriminate|exact Ha].
Qed.

Lemma k_many0_in : forall c a r, forallb c a = true -> In r (k_many0 c (a ++ r)).
Proof.
  intros c a r Ha. unfold k_many0. destruct a as [|x a]; [left; reflexivity|].
  right. apply k_many1_in; [discriminate|exact Ha].
Qed.

Lemma k_seq_in : forall (f g : kont) r m r', In m (f r) -> In r' (g m) -> In r' (k_seq f g r).
Proof. intros f g r m r' H1 H2. unfold k_seq. apply in_flat_map. exists m. auto. Qed.

Lemma k_opt_skip : forall f r, In r (k_opt f r).
Proof. intros; left; reflexivity. Qed.

Lemma k_opt_take : forall (f : kont) r r', In r' (f r) -> In r' (k_opt f r).
Proof. intros; right; assumption. Qed.

Lemma k_json_in : forall w1 w2 jt r,
  forallb re_ws w1 = true -> forallb re_ws w2 = true -> wf_json jt = true ->
  In r (k_json (w1 ++ c_comma :: w2 ++ jt ++ r)).
Proof.
  intros w1 w2 jt r H1 H2 Hj. destruct (wf_json_split jt Hj) as (inner & -> & Hlf).
  unfold k_json.
  eapply k_seq_in; [apply (k_many0_in re_ws w1 _ H1)|].
  eapply k_seq_in; [apply (k_lit_in [c_comma])|].
  eapply k_seq_in; [apply (k_many0_in re_ws w2 _ H2)|].
  replace ((c_lbrace :: inner ++ [c_rbrace]) ++ r) with ([c_lbrace] ++ inner ++ [c_rbrace] ++ r)
    by (norm_app; reflexivity).
  eapply k_seq_in; [apply (k_lit_in [c_lbrace])|].
  eapply k_seq_in; [apply (k_many0_in is_dot inner _ Hlf)|].
  apply k_lit_in.
Qed.

Lemma k_descr_in : forall w d, w <> [] -> forallb re_ws w = true -> d <> [] -> no_lf d = true ->
  In [] (k_descr (w ++ d)).
Proof.
  intros w d Hw1 Hw2 Hd1 Hd2. unfold k_descr.
  eapply k_seq_in; [apply (k_many1_in re_ws w d Hw1 Hw2)|].
  rewrite <- (app_nil_r d) at 1. apply k_many1_in; assumption.
Qed.

Theorem shaped_b_complete : forall t, attr_shaped t -> shaped_b t = true.
Proof.
  intros t ([n v jp tl] & -> & Hn & Hv & Htl & Hj). cbn [t_name t_value t_json t_tail] in *.
  assert (Hin : In [] (k_line (flatten {| t_name := n; t_value := v; t_json := jp; t_tail := tl |}))).
  { unfold flatten, k_line. cbn [t_name t_value t_json t_tail].
    eapply k_seq_in; [apply k_lit_in|].
    unfold wf_name in Hn. apply andb_true_iff in Hn as [Hne Hn].
    eapply k_seq_in; [apply (k_many1_in is_word n _)|];
      [destruct n; [discriminate|congruence] | exact Hn |].
    eapply k_seq_in with (m := flat_tail tl).
    - destruct v as [|v0 v]; [cbn [flat_paren app]; apply k_opt_skip|].
      apply k_opt_take. unfold flat_paren, k_paren.
      change (c_lpar :: (v0 :: v) ++ flat_json jp ++ [c_rpar]) with ([c_lpar] ++ (v0 :: v) ++ flat_json jp ++ [c_rpar]).
      rewrite <- !app_assoc.
      eapply k_seq_in; [apply (k_lit_in [c_lpar])|].
      eapply k_seq_in; [apply (k_many1_in is_valc (v0 :: v) _)|]; [discriminate | exact Hv |].
      destruct jp as [[[w1 w2] jt]|].
      + destruct Hj as (_ & H1 & H2 & Hjt).
        eapply k_seq_in with (m := [c_rpar] ++ flat_tail tl).
        * apply k_opt_take. cbn [flat_json]. 
          replace ((w1 ++ c_comma :: w2 ++ jt) ++ [c_rpar] ++ flat_tail tl)
            with (w1 ++ c_comma :: w2 ++ jt ++ [c_rpar] ++ flat_tail tl) by (norm_app; reflexivity).
          apply k_json_in; assumption.
        * apply k_lit_in.
      + cbn [flat_json app]. eapply k_seq_in; [apply k_opt_skip|]. apply (k_lit_in [c_rpar]).
    - destruct tl as [|w d].
      + cbn [flat_tail]. eapply k_seq_in; [apply k_opt_skip|]. left; reflexivity.
      + destruct Htl as (Hw1 & Hw2 & Hd1 & Hd2). cbn [flat_tail].
        eapply k_seq_in; [apply k_opt_take; apply k_descr_in; assumption|]. left; reflexivity. }
  unfold shaped_b. destruct (k_line _); [contradiction|reflexivity].
Qed.

(* lines that are not of the form never match *)
Theorem not_shaped_no_match : forall t, shaped_b t = false -> match_text t = None.
Proof.
  intros t H. destruct (match_text t) as [tr|] eqn:E; [|reflexivity].
  rewrite (shaped_b_complete t (match_text_shaped t tr E)) in H. discriminate.
Qed.
(* ---------------------------------------------------------------- the holder *)

Section HolderProofs.
  Variable P : Type.
  Variable json5 : str -> option P.
  Variable is_null : P -> bool.

  Notation cls := (classify P json5 is_null).
  Notation hfrom := (holder_from P json5 is_null).

  (* independent reading of a comment block, line by line *)
  Definition attrs_of (lines : list str) : list (attr P) :=
    flat_map (fun raw => match cls raw with LAttr a => [a] | _ => [] end) lines.

  Fixpoint frees_from (i : nat) (lines : list str) : list (nat * str) :=
    match lines with
    | [] => []
    | raw :: t =>
        match cls raw with
        | LFree v => (i, v) :: frees_from (S i) t
        | _ => frees_from (S i) t
        end
    end.

  (* the maximal prefix of lines that are free text *)
  Fixpoint leading_free_lines (lines : list str) : list str :=
    match lines with
    | raw :: t => match cls raw with LFree v => v :: leading_free_lines t | _ => [] end
    | [] => []
    end.

  Lemma holder_from_spec : forall lines i h,
    hfrom i lines = Some h -> h_attrs h = attrs_of lines /\ h_frees h = frees_from i lines.
  Proof.
    induction lines as [|raw t IH]; intros i h H; cbn [holder_from] in H.
    - inversion H; subst. split; reflexivity.
    - unfold attrs_of. cbn [flat_map frees_from].
      destruct (cls raw) as [v|a|] eqn:E; [| |discriminate];
        destruct (hfrom (S i) t) as [h'|] eqn:E'; try discriminate;
        inversion H; subst; cbn [h_attrs h_frees];
        destruct (IH (S i) h' E') as [Ha Hf]; rewrite Ha, Hf; split; reflexivity.
  Qed.

  Lemma holder_from_error : forall lines i,
    hfrom i lines = None <-> exists raw, In raw lines /\ cls raw = LError.
  Proof.
    induction lines as [|raw t IH]; intros i; cbn [holder_from].
    - split; [discriminate|]. intros (r & [] & _).
    - destruct (cls raw) as [v|a|] eqn:E.
      + destruct (hfrom (S i) t) as [h'|] eqn:E'.
        * split; [discriminate|]. intros (r & [<-|Hin] & Hr); [congruence|].
          assert (X : hfrom (S i) t = None) by (apply IH; eauto). congruence.
        * split; [|reflexivity]. intros _. destruct (proj1 (IH (S i)) E') as (r & Hin & Hr).
          exists r. split; [right; exact Hin|exact Hr].
      + destruct (hfrom (S i) t) as [h'|] eqn:E'.
        * split; [discriminate|]. intros (r & [<-|Hin] & Hr); [congruence|].
          assert (X : hfrom (S i) t = None) by (apply IH; eauto). congruence.
        * split; [|reflexivity]. intros _. destruct (proj1 (IH (S i)) E') as (r & Hin & Hr).
          exists r. split; [right; exact Hin|exact Hr].
      + split; [|reflexivity]. intros _. exists raw. split; [left; reflexivity|exact E].
  Qed.

  Lemma classify_error : forall raw,
    cls raw = LError <-> exists p j, parse_line raw = Some p /\ p_json p = Some j /\ json5 j = None.
  Proof.
    intros raw. unfold classify. destruct (parse_line raw) as [p|].
    - destruct (p_json p) as [j|] eqn:Ej.
      + destruct (json5 j) as [props|] eqn:E5.
        * split; [discriminate|]. intros (p' & j' & Hp & Hj & H5).
          inversion Hp; subst p'. rewrite Ej in Hj. inversion Hj; subst j'. congruence.
        * split; [|reflexivity]. intros _. exists p, j. auto.
      + split; [discriminate|]. intros (p' & j' & Hp & Hj & _).
        inversion Hp; subst p'. congruence.
    - split; [discriminate|]. intros (p' & j' & Hp & _). discriminate.
  Qed.

  (* malformed JSON5 is an error of the whole holder, never dropped *)
  Theorem bad_json_is_error : forall lines raw p j,
    In raw lines -> parse_line raw = Some p -> p_json p = Some j -> json5 j = None ->
    holder P json5 is_null lines = None.
  Proof.
    intros lines raw p j Hin Hp Hj H5. unfold holder. apply holder_from_error.
    exists raw. split; [exact Hin|]. apply classify_error. exists p, j. auto.
  Qed.

  (* and the only one *)
  Theorem holder_error_iff : forall lines,
    holder P json5 is_null lines = None <->
    exists raw p j, In raw lines /\ parse_line raw = Some p /\ p_json p = Some j /\ json5 j = None.
  Proof.
    intros lines. unfold holder. rewrite holder_from_error. split.
    - intros (raw & Hin & Hc). apply classify_error in Hc. destruct Hc as (p & j & H).
      exists raw, p, j. tauto.
    - intros (raw & p & j & Hin & H). exists raw. split; [exact Hin|].
      apply classify_error. exists p, j. exact H.
  Qed.

  (* attribute order is source order; free text keeps its comment index *)
  Theorem holder_order : forall lines h,
    holder P json5 is_null lines = Some h ->
    h_attrs h = attrs_of lines /\ h_frees h = frees_from 0 lines.
  Proof. intros lines h H. exact (holder_from_spec lines 0 h H). Qed.

  (* a line that is not of the form is kept as free text and yields no attribute *)
  Theorem free_text_kept : forall raw,
    shaped_b (trim_space raw) = false -> cls raw = LFree (free_value raw).
  Proof.
    intros raw H. unfold classify, parse_line. rewrite (not_shaped_no_match _ H). reflexivity.
  Qed.

  Lemma frees_from_ge : forall lines i k v, In (k, v) (frees_from i lines) -> i <= k.
  Proof.
    induction lines as [|raw t IH]; intros i k v H; cbn [frees_from] in H; [contradiction|].
    destruct (cls raw).
    - destruct H as [H|H]; [inversion H; lia|]. apply IH in H. lia.
    - apply IH in H. lia.
    - apply IH in H. lia.
  Qed.

  Lemma take_contig_later : forall lines i, take_contig i (frees_from (S i) lines) = [].
  Proof.
    intros lines i. destruct (frees_from (S i) lines) as [|[k v] r] eqn:E; [reflexivity|].
    cbn [take_contig]. assert (Hk : S i <= k) by (apply (frees_from_ge lines (S i) k v); rewrite E; left; reflexivity).
    replace (Nat.leb k i) with false by (symmetry; apply Nat.leb_gt; lia). reflexivity.
  Qed.

  Lemma take_contig_leading : forall lines i,
    take_contig i (frees_from i lines) = leading_free_lines lines.
  Proof.
    induction lines as [|raw t IH]; intros i; [reflexivity|].
    cbn [frees_from leading_free_lines]. destruct (cls raw) as [v|a|].
    - cbn [take_contig]. rewrite Nat.leb_refl. rewrite IH. reflexivity.
    - apply take_contig_later.
    - apply take_contig_later.
  Qed.

  (* GetDescription = the first @Description's text if there is one, else the leading
     contiguous free-text lines (trailing empty ones dropped), joined by line feeds *)
  Theorem description_spec : forall lines h,
    holder P json5 is_null lines = Some h ->
    description P h =
    match find (fun a => str_eqb (a_name a) (s "Description")) (attrs_of lines) with
    | Some a => a_descr a
    | None => join_with [c_lf] (drop_trailing_empty (leading_free_lines lines))
    end.
  Proof.
    intros lines h H. destruct (holder_order lines h H) as [Ha Hf].
    unfold description. rewrite Ha, Hf, take_contig_leading. reflexivity.
  Qed.
End HolderProofs.
(* ---------------------------------------------------------------- statements as used in Properties/C16.v *)

Lemma roundtrip_stmt : forall n v j d,
  wf_name n = true -> wf_value v = true -> wf_descr d = true ->
  match j with
  | Some jt => wf_json jt = true /\ v <> [] /\ no_false_close d = true
  | None => True
  end ->
  parse_line (render n v j d) = Attr n v j d.
Proof. intros n v j d Hn Hv Hd Hj. apply roundtrip. repeat split; assumption. Qed.

Lemma free_text_stmt : forall P json5 is_null raw,
  shaped_b (trim_space raw) = false ->
  parse_line raw = None /\ classify P json5 is_null raw = LFree (free_value raw).
Proof.
  intros P json5 is_null raw H. split.
  - unfold parse_line. rewrite (not_shaped_no_match _ H). reflexivity.
  - exact (free_text_kept P json5 is_null raw H).
Qed.

(* ---------------------------------------------------------------- non-vacuity *)

(* nested JSON5 with braces, parentheses, commas and "})" inside strings; multibyte description *)
Definition demo_json : str := s "{ scopes: [""a)"", ""}"", ""})x""], n: {k: '({,'} }".
Definition demo_descr : str := bs [116; 104; 101; 32; 40; 195; 169; 41; 32; 123; 120; 125; 41; 121; 32; 230; 151; 165]%N.

Lemma demo_roundtrip :
  wf_name (s "Security") = true /\ wf_value (s "sec-1 /{id}") = true /\ wf_json demo_json = true /\
  wf_descr demo_descr = true /\ no_false_close demo_descr = true /\
  parse_line (render (s "Security") (s "sec-1 /{id}") (Some demo_json) demo_descr)
  = Attr (s "Security") (s "sec-1 /{id}") (Some demo_json) demo_descr.
Proof. repeat split; vm_compute; reflexivity. Qed.

(* a spelling with tabs and several blanks *)
Definition demo_tree : tree :=
  {| t_name := s "Query"; t_value := s "a";
     t_json := Some ([x09], [c_sp; x09], s "{name:""b""}");
     t_tail := TailDescr [c_sp; c_sp; x09] (s "the })x y") |}.

Lemma demo_spelling :
  flatten demo_tree = bs [47;47;32;64;81;117;101;114;121;40;97;9;44;32;9;123;110;97;109;101;58;34;98;34;125;41;32;32;9;116;104;101;32;125;41;120;32;121]%N /\
  parse_line (flatten demo_tree) = Some (pattr_of demo_tree).
Proof. split; vm_compute; reflexivity. Qed.

Lemma demo_tree_wf : wf_tree demo_tree /\ wf_end demo_tree.
Proof.
  split.
  - unfold wf_tree, demo_tree. cbn [t_name t_value t_json t_tail].
    repeat split; try (vm_compute; reflexivity). discriminate.
  - vm_compute. reflexivity.
Qed.

(* near misses are not of the form; a proper line is *)
Lemma demo_shaped :
  shaped_b (s "// @Name(a, {x:1}") = false /\ shaped_b (s "// @Name()") = false /\
  shaped_b (s "//@Name") = false /\ shaped_b (s "// @Name(a,b)") = false /\
  shaped_b (s "// @Name(a, {x:1}) d") = true /\
  match_text (s "// @Name(a, {x:1}) d")
  = Some {| t_name := s "Name"; t_value := s "a"; t_json := Some ([], [c_sp], s "{x:1}");
            t_tail := TailDescr [c_sp] (s "d") |}.
Proof. repeat split; vm_compute; reflexivity. Qed.

(* a toy JSON5 library: rejects texts containing '!' *)
Definition toy_json5 (j : str) : option str := if existsb (fun c => beqb c x21) j then None else Some j.
Definition toy_null (p : str) : bool := false.

Definition demo_block : list str :=
  [ s "// Returns the user"; s "//   with the given id  "; s "//";
    s "// @Method(GET)"; s "// trailing note"; s "// @Route(/users/{id}, {x: [1,2]}) the route";
    s "// @Name(oops" ].

Lemma demo_holder :
  exists h, holder str toy_json5 toy_null demo_block = Some h /\
    map (fun a => (a_name a, a_value a, a_props a, a_descr a)) (h_attrs h)
    = [ (s "Method", s "GET", None, []); (s "Route", s "/users/{id}", Some (s "{x: [1,2]}"), s "the route") ] /\
    h_frees h = [ (0, s "Returns the user"); (1, s "with the given id"); (2, []); (4, s "trailing note");
                  (6, s "@Name(oops") ] /\
    description str h = bs [82;101;116;117;114;110;115;32;116;104;101;32;117;115;101;114;10;119;105;116;104;32;116;104;101;32;103;105;118;101;110;32;105;100]%N.
Proof. eexists. split; [vm_compute; reflexivity|]. repeat split; vm_compute; reflexivity. Qed.

Lemma demo_description_attr :
  exists h, holder str toy_json5 toy_null [s "// free"; s "// @Description the text"; s "// @Description other"] = Some h /\
    description str h = s "the text".
Proof. eexists. split; vm_compute; reflexivity. Qed.

Lemma demo_bad_json :
  parse_line (s "// @Query(a, {x:!})") = Attr (s "Query") (s "a") (Some (s "{x:!}")) [] /\
  toy_json5 (s "{x:!}") = None /\
  holder str toy_json5 toy_null [s "// fine"; s "// @Query(a, {x:!})"; s "// @Method(GET)"] = None.
Proof. repeat split; vm_compute; reflexivity. Qed.

(* the oracle accepts the model's answer on a block and rejects a wrong one *)
Definition demo_items : list item :=
  [ IFree (s "// lead"); 
    IAnnot (s "// @Query(a, {name:""b""}) see {x})y") (s "Query") (s "a") (Some (s "{name:""b""}", Some (s "P"))) (s "see {x})y");
    IFree (s "// @Name(") ].

Lemma demo_oracle :
  forallb wf_item demo_items = true /\
  prop_C16 demo_items (model_obs [(s "{name:""b""}", Some (s "P"))] (map item_raw demo_items)) = true /\
  prop_C16 demo_items {| ob_err := false; ob_attrs := []; ob_frees := [s "lead"; s "@Name("]; ob_description := s "lead" |} = false /\
  prop_C16 demo_items {| ob_err := true; ob_attrs := []; ob_frees := []; ob_description := [] |} = false.
Proof. repeat split; vm_compute; reflexivity. Qed.
(* ---------------------------------------------------------------- the side condition is exact:
   with a false close in the description the greedy group does over-capture *)

Lemma last_close_unfold : forall c r',
  last_close (c :: r') =
  if is_dot c then
    match last_close r' with
    | Some (inner, tl) => Some (c :: inner, tl)
    | None =>
        if beqb c c_rbrace then
          match r' with
          | c2 :: r8 =>
              if beqb c2 c_rpar then
                match tail r8 with Some tl => Some ([], tl) | None => None end
              else None
          | [] => None
          end
        else None
    end
  else None.
Proof. reflexivity. Qed.

Lemma last_close_prefix : forall pre r i t,
  no_lf pre = true -> last_close r = Some (i, t) -> last_close (pre ++ r) = Some (pre ++ i, t).
Proof.
  induction pre as [|c pre IH]; intros r i t Hlf H; [exact H|].
  unfold no_lf in Hlf. cbn [forallb] in Hlf. apply andb_true_iff in Hlf as [Hc Hlf].
  cbn [app]. rewrite last_close_unfold, Hc, (IH r i t Hlf H). reflexivity.
Qed.

Lemma forallb_last : forall (p : byte -> bool) l x, l <> [] -> forallb p l = true -> p (last l x) = true.
Proof.
  intros p l x Hne H. destruct (last_split l Hne) as (l' & c & ->).
  rewrite last_last. rewrite forallb_app in H. apply andb_true_iff in H as [_ H].
  cbn [forallb] in H. rewrite andb_true_r in H. exact H.
Qed.

Lemma false_close_found : forall d,
  false_close d = true -> no_lf d = true -> re_ws (last d x00) = false ->
  exists i t, last_close d = Some (i, t).
Proof.
  induction d as [|c t IH]; intros Hf Hlf Hl; [discriminate|].
  cbn [false_close] in Hf.
  unfold no_lf in Hlf. cbn [forallb] in Hlf. apply andb_true_iff in Hlf as [Hc Hlft].
  destruct (false_close t) eqn:Ft.
  - destruct t as [|c2 t']; [discriminate Ft|].
    destruct (IH eq_refl Hlft Hl) as (i & tl & E).
    exists (c :: i), tl. rewrite last_close_unfold, Hc, E. reflexivity.
  - rewrite orb_false_r in Hf. apply andb_true_iff in Hf as [Ec Hf]. apply beqb_spec in Ec. subst c.
    destruct t as [|c2 r]; [discriminate|]. apply andb_true_iff in Hf as [E2 Hf].
    apply beqb_spec in E2. subst c2.
    rewrite last_close_unfold. change (is_dot c_rbrace) with true. cbv iota.
    destruct (last_close (c_rpar :: r)) as [[i tl]|] eqn:E; [eexists _, _; reflexivity|].
    change (beqb c_rbrace c_rbrace) with true. change (beqb c_rpar c_rpar) with true. cbv iota.
    assert (Ht : exists tl, tail r = Some tl).
    { destruct r as [|c3 r']; [exists TailNone; reflexivity|].
      unfold tail. destruct (span re_ws (c3 :: r')) as [w rest] eqn:Es.
      destruct (span_sound _ _ _ _ Es) as (Hr & Hw & _).
      destruct w as [|b w].
      { cbn [span] in Es. rewrite Hf in Es. destruct (span re_ws r'); discriminate. }
      destruct rest as [|x rest].
      - exfalso. rewrite app_nil_r in Hr.
        assert (Hlast : re_ws (last (c3 :: r') x00) = true).
        { rewrite Hr. apply forallb_last; [discriminate|exact Hw]. }
        change (last (c_rbrace :: c_rpar :: c3 :: r') x00) with (last (c3 :: r') x00) in Hl.
        congruence.
      - assert (Hn : no_lf (x :: rest) = true).
        { change (forallb is_dot (c_rpar :: c3 :: r')) with (is_dot c_rpar && forallb is_dot (c3 :: r')) in Hlft.
          apply andb_true_iff in Hlft as [_ Hlft].
          rewrite Hr in Hlft. rewrite forallb_app in Hlft. apply andb_true_iff in Hlft as [_ Hlft].
          exact Hlft. }
        rewrite Hn. eexists; reflexivity. }
    destruct Ht as [tl Ht]. rewrite Ht. eexists _, _; reflexivity.
Qed.

Lemma match_text_json_general : forall n v w1 w2 r7 inner' tl',
  wf_name n = true -> forallb is_valc v = true -> v <> [] ->
  forallb re_ws w1 = true -> match w1 with c :: _ => is_valc c = false | [] => True end ->
  forallb re_ws w2 = true ->
  last_close r7 = Some (inner', tl') ->
  match_text (s "// @" ++ n ++ c_lpar :: v ++ w1 ++ c_comma :: w2 ++ c_lbrace :: r7)
  = Some {| t_name := n; t_value := v; t_json := Some (w1, w2, c_lbrace :: inner' ++ [c_rbrace]); t_tail := tl' |}.
Proof.
  intros n v w1 w2 r7 inner' tl' Hn Hv Hvne H1 H1h H2 Hl.
  unfold wf_name in Hn. apply andb_true_iff in Hn as [Hne Hn].
  unfold match_text.
  change (strip_prefix (s "// @") (s "// @" ++ n ++ c_lpar :: v ++ w1 ++ c_comma :: w2 ++ c_lbrace :: r7))
    with (Some (n ++ c_lpar :: v ++ w1 ++ c_comma :: w2 ++ c_lbrace :: r7)).
  cbv iota.
  rewrite (span_stop is_word n _ Hn) by reflexivity.
  destruct n as [|n0 n]; [discriminate|].
  change (beqb c_lpar c_lpar) with true. cbv iota.
  assert (Hstop : match (w1 ++ c_comma :: w2 ++ c_lbrace :: r7) with
                  | [] => True | c :: _ => is_valc c = false end).
  { destruct w1 as [|c w1]; [reflexivity|exact H1h]. }
  rewrite (span_stop is_valc v _ Hv Hstop).
  destruct v as [|v0 v]; [contradiction|].
  unfold try_json.
  rewrite (span_stop re_ws w1 _ H1) by reflexivity.
  change (beqb c_comma c_comma) with true. cbv iota.
  rewrite (span_stop re_ws w2 _ H2) by reflexivity.
  change (beqb c_lbrace c_lbrace) with true. cbv iota.
  rewrite Hl. reflexivity.
Qed.

Lemma shape_tree_ok : forall tr, shape_tree tr -> tree_ok tr.
Proof.
  intros tr (_ & _ & _ & Hj). unfold tree_ok. destruct (t_json tr) as [[[w1 w2] jt]|]; [|exact I].
  destruct Hj as [H _]. exact H.
Qed.

(* what parse_line returns is the flattening's parts, for ANY line it accepts *)
Lemma parse_line_of_match : forall raw tr,
  trim_space raw = raw -> match_text raw = Some tr -> parse_line raw = Some (pattr_of tr).
Proof.
  intros raw tr Ht Hm. unfold parse_line. rewrite Ht, Hm.
  destruct (match_sound raw tr Hm) as (Hr & Hs).
  rewrite Hr at 1. rewrite (groups_flatten tr (shape_tree_ok tr Hs)). reflexivity.
Qed.

Theorem roundtrip_needs_condition : forall n v jt d,
  wf_name n = true -> wf_value v = true -> v <> [] -> wf_json jt = true -> wf_descr d = true ->
  no_false_close d = false ->
  parse_line (render n v (Some jt) d) <> Attr n v (Some jt) d.
Proof.
  intros n v jt d Hn Hv Hvne Hj Hd Hfc.
  unfold no_false_close in Hfc. apply negb_false_iff in Hfc.
  destruct d as [|d0 d]; [discriminate|].
  cbn [wf_descr] in Hd. rewrite !andb_true_iff in Hd. destruct Hd as [[Hd1 Hd2] Hd3].
  apply negb_true_iff in Hd1. apply Nat.eqb_eq in Hd3.
  destruct (wf_json_split jt Hj) as (inner & -> & Hlf).
  (* the description does not end in \s *)
  assert (Hlast : re_ws (last (d0 :: d) x00) = false).
  { destruct (last_split (d0 :: d)) as (d' & b & E); [discriminate|]. rewrite E, last_last.
    rewrite E, rev_app_distr in Hd3. cbn [rev app] in Hd3. unfold last_ws_len in Hd3.
    destruct (ascii_ws b) eqn:Eb; [discriminate|].
    unfold ascii_ws in Eb. apply orb_false_iff in Eb as [Eb _]. exact Eb. }
  destruct (false_close_found (d0 :: d) Hfc Hd2 Hlast) as (i & tl & Hlc).
  set (inner' := (inner ++ [c_rbrace; c_rpar; c_sp]) ++ i).
  assert (Hl7 : last_close ((inner ++ [c_rbrace; c_rpar; c_sp]) ++ d0 :: d) = Some (inner', tl)).
  { apply last_close_prefix; [|exact Hlc]. unfold no_lf in *. rewrite forallb_app, Hlf. reflexivity. }
  assert (Hraw : render n v (Some (c_lbrace :: inner ++ [c_rbrace])) (d0 :: d)
                 = s "// @" ++ n ++ c_lpar :: v ++ [] ++ c_comma :: [c_sp] ++ c_lbrace
                   :: (inner ++ [c_rbrace; c_rpar; c_sp]) ++ d0 :: d).
  { unfold render. destruct v as [|v0 v]; [contradiction|]. norm_app. reflexivity. }
  assert (Hm := match_text_json_general n v [] [c_sp] _ inner' tl Hn Hv Hvne eq_refl I eq_refl Hl7).
  rewrite <- Hraw in Hm.
  assert (Htrim : trim_space (render n v (Some (c_lbrace :: inner ++ [c_rbrace])) (d0 :: d))
                  = render n v (Some (c_lbrace :: inner ++ [c_rbrace])) (d0 :: d)).
  { rewrite render_flatten. unfold trim_space. rewrite ltrim_flatten. apply rtrim_id.
    apply flatten_end_weak.
    - exact Hn.
    - cbn [tree_of t_tail wf_tail_b nonempty is_nil forallb]. rewrite Hd1, Hd2. reflexivity.
    - exact Hd3. }
  pose proof (parse_line_of_match _ _ Htrim Hm) as Hp.
  intros E0. pose proof (eq_trans (eq_sym Hp) E0) as E. clear E0 Hp.
  unfold Attr, pattr_of in E. cbn [t_name t_value t_json t_tail] in E.
  inversion E as [[Ej Ed]]. clear E Ed.
  apply (f_equal (@List.length byte)) in Ej. unfold inner' in Ej.
  rewrite !app_length in Ej. cbn [List.length] in Ej. lia.
Qed.

(* both directions: the side condition of the round trip is exact *)
Theorem roundtrip_iff : forall n v jt d,
  wf_name n = true -> wf_value v = true -> v <> [] -> wf_json jt = true -> wf_descr d = true ->
  (parse_line (render n v (Some jt) d) = Attr n v (Some jt) d <-> no_false_close d = true).
Proof.
  intros n v jt d Hn Hv Hvne Hj Hd. split.
  - intros H. destruct (no_false_close d) eqn:E; [reflexivity|].
    exfalso. exact (roundtrip_needs_condition n v jt d Hn Hv Hvne Hj Hd E H).
  - intros H. apply roundtrip. repeat split; assumption.
Qed.
(* ---------------------------------------------------------------- C16 on the model:
   for every block of canonically spelled, well-formed lines outside the F7 class, the oracle
   prop_C16 accepts what the model returns *)

Definition item_canon (tbl : list (str * option str)) (it : item) : Prop :=
  match it with
  | IAnnot raw n v j d =>
      raw = render n v (option_map fst j) d /\ roundtrip_pre n v (option_map fst j) d /\
      match j with
      | Some (jt, r) => table_json5 tbl jt = r /\ r <> Some json_null
      | None => True
      end
  | IFree raw => shaped_b (trim_space raw) = false
  end.

Definition nul (p : str) : bool := str_eqb p json_null.

Definition expected_cls (it : item) : line_res str :=
  match it with
  | IFree raw => LFree (free_value raw)
  | IAnnot _ n v None d => LAttr {| a_name := n; a_value := v; a_props := None; a_descr := d |}
  | IAnnot _ n v (Some (_, Some p)) d => LAttr {| a_name := n; a_value := v; a_props := Some p; a_descr := d |}
  | IAnnot _ _ _ (Some (_, None)) _ => LError
  end.

Lemma classify_item : forall tbl it, item_canon tbl it ->
  classify str (table_json5 tbl) nul (item_raw it) = expected_cls it.
Proof.
  intros tbl [raw n v j d|raw] H; cbn [item_canon item_raw expected_cls] in *.
  - destruct H as (-> & Hpre & Hj). unfold classify. rewrite (roundtrip _ _ _ _ Hpre).
    unfold Attr. cbn [p_name p_value p_json p_descr].
    destruct j as [[jt r]|]; cbn [option_map fst]; [|reflexivity].
    destruct Hj as [-> Hr]. destruct r as [p|]; [|reflexivity].
    unfold nul. replace (str_eqb p json_null) with false; [reflexivity|].
    symmetry. apply str_eqb_neq. congruence.
  - apply free_text_kept; exact H.
Qed.

Definition conv (a : attr str) : obs_attr :=
  {| o_name := a_name a; o_value := a_value a; o_props := a_props a; o_descr := a_descr a |}.

Lemma obs_attr_eqb_refl : forall a, obs_attr_eqb a a = true.
Proof.
  intros a. unfold obs_attr_eqb. rewrite !str_eqb_refl.
  destruct (o_props a); cbn [opt_str_eqb]; [rewrite str_eqb_refl|]; reflexivity.
Qed.

Lemma list_eqb_refl : forall A (eqb : A -> A -> bool), (forall x, eqb x x = true) -> forall l, list_eqb eqb l l = true.
Proof. intros A eqb H l. induction l as [|x l IH]; [reflexivity|]. cbn [list_eqb]. rewrite H, IH. reflexivity. Qed.

Section Holds.
  Variable tbl : list (str * option str).
  Notation cls := (classify str (table_json5 tbl) nul).

  Lemma no_malformed_cons : forall it items,
    existsb item_malformed (it :: items) = false ->
    item_malformed it = false /\ existsb item_malformed items = false.
  Proof. intros it items H. cbn [existsb] in H. apply orb_false_iff in H. exact H. Qed.

  Lemma attrs_expected : forall items,
    Forall (item_canon tbl) items -> existsb item_malformed items = false ->
    map conv (attrs_of str (table_json5 tbl) nul (map item_raw items)) = expected_attrs items.
  Proof.
    induction items as [|it items IH]; intros Hc Hm; [reflexivity|].
    inversion Hc as [|? ? Hit Hrest]; subst. destruct (no_malformed_cons _ _ Hm) as [Hm1 Hm2].
    unfold attrs_of, expected_attrs in *. cbn [map flat_map].
    rewrite (classify_item tbl it Hit). rewrite map_app. rewrite (IH Hrest Hm2).
    destruct it as [raw n v [[jt [p|]]|] d|raw]; cbn [expected_cls item_malformed] in *;
      try discriminate; reflexivity.
  Qed.

  Lemma frees_expected : forall items i,
    Forall (item_canon tbl) items -> existsb item_malformed items = false ->
    map snd (frees_from str (table_json5 tbl) nul i (map item_raw items)) = expected_frees items.
  Proof.
    induction items as [|it items IH]; intros i Hc Hm; [reflexivity|].
    inversion Hc as [|? ? Hit Hrest]; subst. destruct (no_malformed_cons _ _ Hm) as [Hm1 Hm2].
    unfold expected_frees in *. cbn [map frees_from flat_map].
    rewrite (classify_item tbl it Hit).
    destruct it as [raw n v [[jt [p|]]|] d|raw]; cbn [expected_cls item_malformed] in *;
      try discriminate; cbn [map app snd]; rewrite (IH (S i) Hrest Hm2); reflexivity.
  Qed.

  Lemma leading_expected : forall items,
    Forall (item_canon tbl) items ->
    leading_free_lines str (table_json5 tbl) nul (map item_raw items) = leading_free items.
  Proof.
    induction items as [|it items IH]; intros Hc; [reflexivity|].
    inversion Hc as [|? ? Hit Hrest]; subst. cbn [map leading_free_lines leading_free].
    rewrite (classify_item tbl it Hit).
    destruct it as [raw n v [[jt [p|]]|] d|raw]; cbn [expected_cls]; try reflexivity.
    rewrite (IH Hrest). reflexivity.
  Qed.

  Lemma find_description_expected : forall items,
    Forall (item_canon tbl) items -> existsb item_malformed items = false ->
    match find (fun a => str_eqb (a_name a) (s "Description"))
               (attrs_of str (table_json5 tbl) nul (map item_raw items)) with
    | Some a => Some (a_descr a)
    | None => None
    end = first_description items.
  Proof.
    induction items as [|it items IH]; intros Hc Hm; [reflexivity|].
    inversion Hc as [|? ? Hit Hrest]; subst. destruct (no_malformed_cons _ _ Hm) as [Hm1 Hm2].
    unfold attrs_of in *. cbn [map flat_map first_description].
    rewrite (classify_item tbl it Hit).
    destruct it as [raw n v [[jt [p|]]|] d|raw]; cbn [expected_cls item_malformed] in *;
      try discriminate; cbn [app find a_name a_descr];
      try (destruct (str_eqb n (s "Description")); [reflexivity|]); exact (IH Hrest Hm2).
  Qed.

  Lemma malformed_error : forall items,
    Forall (item_canon tbl) items -> existsb item_malformed items = true ->
    holder str (table_json5 tbl) nul (map item_raw items) = None.
  Proof.
    intros items Hc Hm. apply existsb_exists in Hm. destruct Hm as (it & Hin & Hit).
    unfold holder. apply holder_from_error. exists (item_raw it). split; [apply in_map; exact Hin|].
    rewrite Forall_forall in Hc. rewrite (classify_item tbl it (Hc it Hin)).
    destruct it as [raw n v [[jt [p|]]|] d|raw]; cbn [item_malformed] in Hit; try discriminate. reflexivity.
  Qed.

  Lemma well_formed_no_error : forall items,
    Forall (item_canon tbl) items -> existsb item_malformed items = false ->
    exists h, holder str (table_json5 tbl) nul (map item_raw items) = Some h.
  Proof.
    intros items Hc Hm. destruct (holder str (table_json5 tbl) nul (map item_raw items)) as [h|] eqn:E; [eauto|].
    exfalso. unfold holder in E. apply holder_from_error in E. destruct E as (raw & Hin & Hr).
    apply in_map_iff in Hin. destruct Hin as (it & <- & Hin).
    rewrite Forall_forall in Hc. rewrite (classify_item tbl it (Hc it Hin)) in Hr.
    assert (Hit : item_malformed it = true).
    { destruct it as [raw n v [[jt [p|]]|] d|raw]; cbn [expected_cls] in Hr; try discriminate. reflexivity. }
    assert (X : existsb item_malformed items = true) by (apply existsb_exists; eauto). congruence.
  Qed.

  Theorem model_satisfies_prop : forall items,
    Forall (item_canon tbl) items ->
    prop_C16 items (model_obs tbl (map item_raw items)) = true.
  Proof.
    intros items Hc. unfold prop_C16, model_obs. fold nul.
    destruct (existsb item_malformed items) eqn:Hm.
    - rewrite (malformed_error items Hc Hm). reflexivity.
    - destruct (well_formed_no_error items Hc Hm) as (h & Hh). rewrite Hh.
      cbn [ob_err ob_attrs ob_frees ob_description negb andb].
      destruct (holder_order str (table_json5 tbl) nul _ h Hh) as [Ha Hf].
      rewrite (description_spec str (table_json5 tbl) nul _ h Hh).
      rewrite Ha, Hf. fold conv. rewrite (attrs_expected items Hc Hm), (frees_expected items 0 Hc Hm).
      rewrite (list_eqb_refl _ obs_attr_eqb obs_attr_eqb_refl), (list_eqb_refl _ str_eqb str_eqb_refl).
      cbn [andb]. unfold expected_description.
      pose proof (find_description_expected items Hc Hm) as Hd.
      destruct (find _ _) as [a|]; rewrite <- Hd.
      + apply str_eqb_refl.
      + rewrite (leading_expected items Hc). apply str_eqb_refl.
  Qed.
End Holds.

Definition demo_canon_items : list item :=
  [ IFree (s "// lead");
    IAnnot (s "// @Query(a, {name:""b""}) see {x})y") (s "Query") (s "a") (Some (s "{name:""b""}", Some (s "P"))) (s "see {x})y");
    IFree (s "// @Name(");
    IAnnot (s "// @Description the text") (s "Description") [] None (s "the text") ].

Lemma demo_canon : Forall (item_canon [(s "{name:""b""}", Some (s "P"))]) demo_canon_items.
Proof.
  unfold demo_canon_items. repeat constructor; try (vm_compute; reflexivity); try discriminate.
Qed.
(* ---------------------------------------------------------------- completeness of the matcher:
   every text of the form is accepted (with whatever groups leftmost-first picks), so the
   deterministic scanner decides exactly the language of the regular expression *)

Lemma span_app_all : forall p a b,
  forallb p a = true -> span p (a ++ b) = (a ++ fst (span p b), snd (span p b)).
Proof.
  intros p a b. induction a as [|x a IH]; intros Ha.
  - cbn [app]. destruct (span p b); reflexivity.
  - cbn [forallb] in Ha. apply andb_true_iff in Ha as [Hx Ha].
    cbn [app span]. rewrite Hx, (IH Ha). reflexivity.
Qed.

Lemma span_all : forall p a, forallb p a = true -> span p a = (a, []).
Proof.
  intros p a H. pose proof (span_stop p a [] H I) as E. rewrite app_nil_r in E. exact E.
Qed.

Lemma tail_complete : forall tl, shape_tail tl -> exists tl', tail (flat_tail tl) = Some tl'.
Proof.
  intros [|w d] H; [exists TailNone; reflexivity|].
  destruct H as (Hw1 & Hw2 & Hd1 & Hd2). cbn [flat_tail]. unfold tail.
  destruct (w ++ d) as [|c r] eqn:Ewd.
  { apply app_eq_nil in Ewd. destruct Ewd; contradiction. }
  rewrite <- Ewd. rewrite (span_app_all re_ws w d Hw2).
  destruct (span re_ws d) as [k rest] eqn:Es. cbn [fst snd].
  destruct (span_sound _ _ _ _ Es) as (Hd & Hk & _).
  destruct (w ++ k) as [|b wk] eqn:Ewk.
  { apply app_eq_nil in Ewk. destruct Ewk; contradiction. }
  destruct rest as [|x rest].
  - (* the description is all white space: .+ gets the last byte *)
    rewrite app_nil_r in Hd. subst k.
    destruct (last_split d Hd1) as (d' & y & ->).
    rewrite <- Ewk. rewrite app_assoc, rev_app_distr. cbn [rev app].
    destruct (rev (w ++ d')) as [|z zs] eqn:Er.
    { apply (f_equal (@rev byte)) in Er. rewrite rev_involutive in Er. cbn [rev] in Er.
      apply app_eq_nil in Er. destruct Er; contradiction. }
    unfold no_lf in Hd2. rewrite forallb_app in Hd2. apply andb_true_iff in Hd2 as [_ Hy].
    cbn [forallb] in Hy. rewrite andb_true_r in Hy. rewrite Hy. eexists; reflexivity.
  - assert (Hn : no_lf (x :: rest) = true).
    { unfold no_lf in *. rewrite Hd, forallb_app in Hd2. apply andb_true_iff in Hd2 as [_ H]. exact H. }
    rewrite Hn. eexists; reflexivity.
Qed.

Lemma last_close_exists : forall inner r8 tl,
  no_lf inner = true -> tail r8 = Some tl ->
  exists i t, last_close (inner ++ c_rbrace :: c_rpar :: r8) = Some (i, t).
Proof.
  induction inner as [|c inner IH]; intros r8 tl Hlf Ht.
  - cbn [app]. rewrite last_close_unfold. change (is_dot c_rbrace) with true. cbv iota.
    destruct (last_close (c_rpar :: r8)) as [[i t]|]; [eexists _, _; reflexivity|].
    change (beqb c_rbrace c_rbrace) with true. change (beqb c_rpar c_rpar) with true. cbv iota.
    rewrite Ht. eexists _, _; reflexivity.
  - unfold no_lf in Hlf. cbn [forallb] in Hlf. apply andb_true_iff in Hlf as [Hc Hlf].
    destruct (IH r8 tl Hlf Ht) as (i & t & E).
    cbn [app]. rewrite last_close_unfold, Hc, E. eexists _, _; reflexivity.
Qed.

Lemma span_valc_ws : forall w1 Y, forallb re_ws w1 = true ->
  exists k w1', span is_valc (w1 ++ c_comma :: Y) = (k, w1' ++ c_comma :: Y) /\ forallb re_ws w1' = true.
Proof.
  induction w1 as [|c w IH]; intros Y Hw.
  - exists [], []. split; reflexivity.
  - cbn [forallb] in Hw. apply andb_true_iff in Hw as [Hc Hw].
    cbn [app span]. destruct (is_valc c) eqn:Ev.
    + destruct (IH Y Hw) as (k & w1' & E & Hw'). rewrite E. exists (c :: k), w1'. split; [reflexivity|exact Hw'].
    + exists [], (c :: w). split; [reflexivity|]. cbn [forallb]. rewrite Hc, Hw. reflexivity.
Qed.

Theorem match_complete : forall t, attr_shaped t -> exists tr, match_text t = Some tr.
Proof.
  intros t ([n v jp tl] & -> & Hn & Hv & Htl & Hj). cbn [t_name t_value t_json t_tail] in *.
  unfold wf_name in Hn. apply andb_true_iff in Hn as [Hne Hn].
  destruct (tail_complete tl Htl) as (tl' & Ht).
  unfold flatten. cbn [t_name t_value t_json t_tail]. unfold match_text.
  change (strip_prefix (s "// @") (s "// @" ++ n ++ flat_paren v jp ++ flat_tail tl))
    with (Some (n ++ flat_paren v jp ++ flat_tail tl)).
  cbv iota.
  destruct v as [|v0 v].
  - cbn [flat_paren app].
    destruct tl as [|w d].
    + cbn [flat_tail]. rewrite app_nil_r. rewrite (span_all is_word n Hn).
      destruct n; [discriminate|]. eexists; reflexivity.
    + destruct Htl as (Hw1 & Hw2 & _). destruct w as [|b w]; [contradiction|].
      cbn [forallb] in Hw2. apply andb_true_iff in Hw2 as [Hb Hw2].
      cbn [flat_tail app] in *.
      rewrite (span_stop is_word n (b :: w ++ d) Hn (re_ws_not_word b Hb)).
      destruct n as [|n0 n]; [discriminate|].
      rewrite (re_ws_not_lpar b Hb). rewrite Ht. eexists; reflexivity.
  - cbn [flat_paren]. rewrite <- app_comm_cons.
    rewrite (span_stop is_word n _ Hn) by reflexivity.
    destruct n as [|n0 n]; [discriminate|].
    change (beqb c_lpar c_lpar) with true. cbv iota.
    rewrite <- !app_assoc.
    destruct jp as [[[w1 w2] jt]|].
    + destruct Hj as (_ & H1 & H2 & Hjt).
      destruct (wf_json_split jt Hjt) as (inner & -> & Hlf).
      cbn [flat_json].
      replace ((v0 :: v) ++ (w1 ++ c_comma :: w2 ++ c_lbrace :: inner ++ [c_rbrace]) ++ [c_rpar] ++ flat_tail tl)
        with ((v0 :: v) ++ (w1 ++ c_comma :: (w2 ++ c_lbrace :: inner ++ c_rbrace :: c_rpar :: flat_tail tl)))
        by (norm_app; reflexivity).
      rewrite (span_app_all is_valc (v0 :: v) _ Hv).
      destruct (span_valc_ws w1 (w2 ++ c_lbrace :: inner ++ c_rbrace :: c_rpar :: flat_tail tl) H1)
        as (k & w1' & Es & Hw1').
      rewrite Es. cbn [fst snd app].
      unfold try_json.
      rewrite (span_stop re_ws w1' _ Hw1') by reflexivity.
      change (beqb c_comma c_comma) with true. cbv iota.
      rewrite (span_stop re_ws w2 _ H2) by reflexivity.
      change (beqb c_lbrace c_lbrace) with true. cbv iota.
      destruct (last_close_exists inner (flat_tail tl) tl' Hlf Ht) as (i & t & El).
      rewrite El. eexists; reflexivity.
    + cbn [flat_json app].
      change (v0 :: v ++ c_rpar :: flat_tail tl) with ((v0 :: v) ++ c_rpar :: flat_tail tl).
      rewrite (span_stop is_valc (v0 :: v) (c_rpar :: flat_tail tl) Hv) by reflexivity.
      unfold try_json. cbn [span]. change (re_ws c_rpar) with false. cbv iota.
      change (beqb c_rpar c_comma) with false. cbv iota.
      change (beqb c_rpar c_rpar) with true. cbv iota.
      rewrite Ht. eexists; reflexivity.
Qed.

(* the scanner accepts exactly the texts of the form *)
Theorem match_iff_shaped : forall t, (exists tr, match_text t = Some tr) <-> attr_shaped t.
Proof.
  intros t. split.
  - intros (tr & H). exact (match_text_shaped t tr H).
  - apply match_complete.
Qed.

(* ---------------------------------------------------------------- general comments  /* ... */ *)

(* TrimSpace only removes from the end what it removes: the result is a prefix of the text *)
Lemma skipn_add : forall (b a : nat) (l : str), skipn a (skipn b l) = skipn (a + b) l.
Proof.
  induction b as [|b IH]; intros a l.
  - rewrite Nat.add_0_r. reflexivity.
  - rewrite Nat.add_succ_r. destruct l as [|x l].
    + cbn [skipn]. destruct a; reflexivity.
    + cbn [skipn]. apply IH.
Qed.

Lemma rtrim_rev_skipn : forall fuel r, exists k, rtrim_rev fuel r = skipn k r.
Proof.
  induction fuel as [|f IH]; intros r.
  - exists 0. reflexivity.
  - cbn [rtrim_rev]. destruct (last_ws_len r) as [|k'] eqn:E.
    + exists 0. reflexivity.
    + destruct (IH (skipn (S k') r)) as (k2 & Hk2). exists (k2 + S k'). rewrite Hk2.
      apply skipn_add.
Qed.

Lemma rtrim_firstn : forall t, exists m, rtrim t = firstn m t.
Proof.
  intros t. unfold rtrim. destruct (rtrim_rev_skipn (List.length t) (rev t)) as (k & Hk).
  exists (List.length t - k). rewrite Hk, skipn_rev, rev_involutive. reflexivity.
Qed.

(* a comment that starts with the marker of a general comment is, whatever it contains (line feeds,
   lines that look like annotations), ONE free-text entry and never an attribute: its text is kept
   with the markers, outer blanks removed *)
Lemma general_comment_free : forall P json5 is_null body,
  parse_line (s "/*" ++ body) = None /\
  classify P json5 is_null (s "/*" ++ body) = LFree (trim_blanks (s "/*" ++ body)).
Proof.
  intros P json5 is_null body.
  assert (Hp : parse_line (s "/*" ++ body) = None).
  { unfold parse_line, trim_space.
    assert (Hl : ltrim (s "/*" ++ body) = s "/*" ++ body) by (destruct body; reflexivity).
    rewrite Hl. destruct (rtrim_firstn (s "/*" ++ body)) as (m & Hm). rewrite Hm.
    destruct m as [|[|m]]; reflexivity. }
  split; [exact Hp|]. unfold classify. rewrite Hp. reflexivity.
Qed.

(* a doc comment as go/ast hands it over: a general comment spanning four source lines with
   annotation-shaped lines inside, then more free text, then an annotation *)
Definition demo_general : str :=
  s "/*" ++ [c_lf] ++ s "// @Description not this" ++ [c_lf] ++ s "// @Method(POST)" ++ [c_lf] ++ s "*/".

Lemma demo_general_holder :
  exists h, holder str toy_json5 toy_null [demo_general; s "// Archived widgets are left out."; s "// @Method(GET)"] = Some h /\
    map (fun a => (a_name a, a_value a)) (h_attrs h) = [ (s "Method", s "GET") ] /\
    h_frees h = [ (0, demo_general); (1, s "Archived widgets are left out.") ] /\
    description str h = demo_general ++ [c_lf] ++ s "Archived widgets are left out.".
Proof. eexists. split; [vm_compute; reflexivity|]. repeat split; vm_compute; reflexivity. Qed.
