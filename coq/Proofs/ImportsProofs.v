(* Proofs for Model/Imports.v (C09). *)
From Gleece Require Import Base.Bytes Model.Imports.
From Coq Require Import String.

(* ---------- small facts ---------- *)
Lemma s_Param : s "Param" = [x50; x61; x72; x61; x6d].
Proof. reflexivity. Qed.

Lemma s_Response : s "Response" = [x52; x65; x73; x70; x6f; x6e; x73; x65].
Proof. reflexivity. Qed.

Lemma letter_not_digit c : is_letter c = true -> is_digit c = false.
Proof. destruct c; vm_compute; intros H; try reflexivity; discriminate H. Qed.

Lemma ident_char_letter c : is_letter c = true -> ident_char c = true.
Proof. unfold ident_char; intros ->; reflexivity. Qed.

Lemma ident_char_digit c : is_digit c = true -> ident_char c = true.
Proof. unfold ident_char; intros ->; apply orb_true_r. Qed.

Lemma digits_ident_chars d : forallb is_digit d = true -> forallb ident_char d = true.
Proof.
  induction d as [|c d IH]; simpl; [reflexivity|].
  rewrite !andb_true_iff. intros [Hc Hd]. split; [apply ident_char_digit; exact Hc|apply IH; exact Hd].
Qed.

Lemma go_ident_chars n : go_ident n = true -> forallb ident_char n = true.
Proof.
  destruct n as [|c r]; simpl; [discriminate|].
  rewrite !andb_true_iff. intros [Hc Hr]. split; [apply ident_char_letter; exact Hc|exact Hr].
Qed.

Lemma go_ident_prefixed (pre d n : str) :
  go_ident pre = true -> forallb is_digit d = true -> go_ident n = true ->
  go_ident (pre ++ d ++ n) = true.
Proof.
  intros Hp Hd Hn. destruct pre as [|c r]; [discriminate|].
  simpl in *. rewrite andb_true_iff in *. destruct Hp as [Hc Hr]. split; [exact Hc|].
  rewrite !forallb_app, Hr, (digits_ident_chars d Hd), (go_ident_chars n Hn). reflexivity.
Qed.

Lemma all_digits_forall d : all_digits d = true -> forallb is_digit d = true.
Proof. unfold all_digits. rewrite andb_true_iff. intros [_ H]; exact H. Qed.

(* digits ++ identifier splits uniquely *)
Lemma digits_split d1 : forall d2 n1 n2,
  forallb is_digit d1 = true -> forallb is_digit d2 = true ->
  go_ident n1 = true -> go_ident n2 = true ->
  d1 ++ n1 = d2 ++ n2 -> d1 = d2 /\ n1 = n2.
Proof.
  induction d1 as [|a d1 IH]; intros d2 n1 n2 H1 H2 Hn1 Hn2 E.
  - destruct d2 as [|b d2]; [split; [reflexivity|exact E]|].
    simpl in E. subst n1. simpl in Hn1, H2. rewrite andb_true_iff in Hn1, H2.
    destruct Hn1 as [Hl _]. destruct H2 as [Hb _].
    rewrite (letter_not_digit b Hl) in Hb. discriminate.
  - destruct d2 as [|b d2].
    + simpl in E. subst n2. simpl in Hn2, H1. rewrite andb_true_iff in Hn2, H1.
      destruct Hn2 as [Hl _]. destruct H1 as [Ha _].
      rewrite (letter_not_digit a Hl) in Ha. discriminate.
    + simpl in E. inversion E as [[Eab E']]. subst b.
      simpl in H1, H2. rewrite andb_true_iff in H1, H2.
      destruct (IH d2 n1 n2 (proj2 H1) (proj2 H2) Hn1 Hn2 E') as [-> ->].
      split; reflexivity.
Qed.

(* ---------- sorting keeps exactly the members ---------- *)
Lemma ipair_eqb_spec a b : ipair_eqb a b = true <-> a = b.
Proof.
  destruct a as [a1 a2], b as [b1 b2]; unfold ipair_eqb; simpl.
  rewrite andb_true_iff, !str_eqb_spec. split.
  - intros [-> ->]; reflexivity.
  - intros H; inversion H; auto.
Qed.

Lemma in_insert_pair x y l : In x (insert_pair y l) <-> x = y \/ In x l.
Proof.
  induction l as [|h t IH]; simpl.
  - split; [intros [E|[]]; left; symmetry; exact E|intros [E|[]]; left; symmetry; exact E].
  - destruct (ipair_eqb y h) eqn:Eq.
    + apply ipair_eqb_spec in Eq. subst h. simpl. split.
      * intros H; right; exact H.
      * intros [E|H]; [left; symmetry; exact E|exact H].
    + destruct (ipair_ltb y h); simpl.
      * split; [intros [E|H]; [left; symmetry; exact E|right; exact H]
               |intros [E|H]; [left; symmetry; exact E|right; exact H]].
      * rewrite IH. split.
        -- intros [E|[E|H]]; [right; left; exact E|left; exact E|right; right; exact H].
        -- intros [E|[E|H]]; [right; left; exact E|left; exact E|right; right; exact H].
Qed.

Lemma in_sort_pairs x l : In x (sort_pairs l) <-> In x l.
Proof.
  induction l as [|h t IH]; simpl; [reflexivity|].
  rewrite in_insert_pair, IH. split; intros [E|H]; auto.
Qed.

Lemma in_sort_pairs_1 x l : In x (sort_pairs l) -> In x l.
Proof. apply in_sort_pairs. Qed.

Lemma in_sort_pairs_2 x l : In x l -> In x (sort_pairs l).
Proof. apply in_sort_pairs. Qed.

(* ---------- where a pair comes from ---------- *)
Definition route_types (r : iroute) : list tyref := map ip_ty (r_params r) ++ map ir_ty (r_resps r).
Definition types_of (cs : list ictrl) : list tyref :=
  flat_map (fun c => flat_map route_types (c_routes c)) cs.

Inductive src := SCtrl (c : ictrl) | SParam (p : iparam) | SResp (t : tyref).

Definition src_pair (sr : tyref -> str) (o : src) : ipair :=
  match o with
  | SCtrl c => (c_pkg c, c_name c)
  | SParam p => (t_pkg (ip_ty p), param_alias sr p)
  | SResp t => (t_pkg t, resp_alias sr t)
  end.

Definition all_params (cs : list ictrl) : list iparam :=
  flat_map (fun c => flat_map r_params (c_routes c)) cs.

Definition src_ok (cs : list ictrl) (o : src) : Prop :=
  match o with
  | SCtrl c => In c cs
  | SParam p => In p (all_params cs) /\ In (ip_ty p) (types_of cs)
  | SResp t => In t (types_of cs)
  end.

Lemma raw_pairs_src sr cs x :
  In x (raw_pairs sr cs) -> exists o, src_ok cs o /\ x = src_pair sr o.
Proof.
  unfold raw_pairs. rewrite in_flat_map. intros [c [Hc Hx]].
  unfold ctrl_pairs in Hx. destruct Hx as [E|Hx].
  - exists (SCtrl c). split; [exact Hc|symmetry; exact E].
  - apply in_flat_map in Hx. destruct Hx as [r [Hr Hx]].
    unfold route_pairs in Hx. apply in_app_or in Hx. destruct Hx as [Hx|Hx].
    + unfold param_pairs in Hx. apply in_flat_map in Hx. destruct Hx as [p [Hp Hx]].
      destruct (is_nil (t_pkg (ip_ty p))); [destruct Hx|].
      destruct Hx as [E|[]]. exists (SParam p). split; [|symmetry; exact E].
      split.
      * unfold all_params. apply in_flat_map. exists c. split; [exact Hc|].
        apply in_flat_map. exists r. split; [exact Hr|exact Hp].
      * unfold types_of. apply in_flat_map. exists c. split; [exact Hc|].
        apply in_flat_map. exists r. split; [exact Hr|].
        unfold route_types. apply in_or_app. left. apply in_map. exact Hp.
    + unfold resp_pairs in Hx. apply in_flat_map in Hx. destruct Hx as [y [Hy Hx]].
      destruct (is_nil (t_pkg (ir_ty y))); [destruct Hx|].
      destruct Hx as [E|[]]. exists (SResp (ir_ty y)). split; [|symmetry; exact E].
      unfold types_of. apply in_flat_map. exists c. split; [exact Hc|].
      apply in_flat_map. exists r. split; [exact Hr|].
      unfold route_types. apply in_or_app. right. apply in_map. exact Hy.
Qed.

(* ---------- preconditions on the names of a project ---------- *)
Record names_ok (sr : tyref -> str) (cs : list ictrl) : Prop := {
  ok_ctrl_ident : forall c, In c cs -> go_ident (c_name c) = true;
  ok_ctrl_prefix : forall c, In c cs ->
      has_prefix (s "Param") (c_name c) = false /\ has_prefix (s "Response") (c_name c) = false;
  ok_ctrl_unique : forall c1 c2, In c1 cs -> In c2 cs -> c_name c1 = c_name c2 -> c_pkg c1 = c_pkg c2;
  ok_param_ident : forall p, In p (all_params cs) -> go_ident (ip_name p) = true;
  ok_type_ident : forall t, In t (types_of cs) -> go_ident (t_name t) = true;
  ok_serial_digits : forall t, In t (types_of cs) -> all_digits (sr t) = true;
  ok_serial_inj : forall t1 t2, In t1 (types_of cs) -> In t2 (types_of cs) -> sr t1 = sr t2 -> t1 = t2
}.

Lemma src_alias_ident sr cs o :
  names_ok sr cs -> src_ok cs o -> go_ident (snd (src_pair sr o)) = true.
Proof.
  intros W Ho. destruct o as [c|p|t]; cbn [src_pair snd]; cbn [src_ok] in Ho.
  - apply (ok_ctrl_ident sr cs W c Ho).
  - destruct Ho as [Hp Ht]. unfold param_alias.
    apply go_ident_prefixed; [reflexivity| |apply (ok_param_ident sr cs W p Hp)].
    apply all_digits_forall, (ok_serial_digits sr cs W _ Ht).
  - unfold resp_alias.
    apply go_ident_prefixed; [reflexivity| |apply (ok_type_ident sr cs W t Ho)].
    apply all_digits_forall, (ok_serial_digits sr cs W _ Ho).
Qed.

Theorem aliases_valid_identifiers sr cs :
  names_ok sr cs -> forall pkg a, In (pkg, a) (import_list sr cs) -> go_ident a = true.
Proof.
  intros W pkg a H. unfold import_list in H. apply in_sort_pairs_1 in H.
  destruct (raw_pairs_src sr cs _ H) as [o [Ho E]].
  pose proof (src_alias_ident sr cs o W Ho) as G. rewrite <- E in G. exact G.
Qed.

Lemma has_prefix_app pre x : has_prefix pre (pre ++ x) = true.
Proof. induction pre as [|c pre IH]; simpl; [reflexivity|]. rewrite beqb_refl, IH. reflexivity. Qed.

Lemma param_resp_distinct sr p t : param_alias sr p <> resp_alias sr t.
Proof. unfold param_alias, resp_alias. rewrite s_Param, s_Response. simpl. intros H; discriminate H. Qed.

Lemma src_same_alias_same_pkg sr cs o1 o2 :
  names_ok sr cs -> src_ok cs o1 -> src_ok cs o2 ->
  snd (src_pair sr o1) = snd (src_pair sr o2) -> fst (src_pair sr o1) = fst (src_pair sr o2).
Proof.
  intros W H1 H2 E.
  destruct o1 as [c1|p1|t1], o2 as [c2|p2|t2]; cbn [src_pair snd fst] in *; cbn [src_ok] in H1, H2.
  - apply (ok_ctrl_unique sr cs W c1 c2 H1 H2 E).
  - exfalso. destruct (ok_ctrl_prefix sr cs W c1 H1) as [Hp _].
    rewrite E in Hp. unfold param_alias in Hp. rewrite has_prefix_app in Hp. discriminate.
  - exfalso. destruct (ok_ctrl_prefix sr cs W c1 H1) as [_ Hp].
    rewrite E in Hp. unfold resp_alias in Hp. rewrite has_prefix_app in Hp. discriminate.
  - exfalso. destruct (ok_ctrl_prefix sr cs W c2 H2) as [Hp _].
    rewrite <- E in Hp. unfold param_alias in Hp. rewrite has_prefix_app in Hp. discriminate.
  - destruct H1 as [Hp1 Ht1], H2 as [Hp2 Ht2]. unfold param_alias in E.
    apply app_inv_head in E.
    destruct (digits_split _ _ _ _
                (all_digits_forall _ (ok_serial_digits sr cs W _ Ht1))
                (all_digits_forall _ (ok_serial_digits sr cs W _ Ht2))
                (ok_param_ident sr cs W _ Hp1) (ok_param_ident sr cs W _ Hp2) E) as [Es _].
    rewrite (ok_serial_inj sr cs W _ _ Ht1 Ht2 Es). reflexivity.
  - exfalso. exact (param_resp_distinct sr p1 t2 E).
  - exfalso. destruct (ok_ctrl_prefix sr cs W c2 H2) as [_ Hp].
    rewrite <- E in Hp. unfold resp_alias in Hp. rewrite has_prefix_app in Hp. discriminate.
  - exfalso. exact (param_resp_distinct sr p2 t1 (eq_sym E)).
  - unfold resp_alias in E. apply app_inv_head in E.
    destruct (digits_split _ _ _ _
                (all_digits_forall _ (ok_serial_digits sr cs W _ H1))
                (all_digits_forall _ (ok_serial_digits sr cs W _ H2))
                (ok_type_ident sr cs W _ H1) (ok_type_ident sr cs W _ H2) E) as [Es _].
    rewrite (ok_serial_inj sr cs W _ _ H1 H2 Es). reflexivity.
Qed.

(* one alias never names two packages: the import block has no duplicate alias *)
Theorem aliases_unique_per_package sr cs :
  names_ok sr cs ->
  forall p1 p2 a, In (p1, a) (import_list sr cs) -> In (p2, a) (import_list sr cs) -> p1 = p2.
Proof.
  intros W p1 p2 a H1 H2. unfold import_list in *.
  apply in_sort_pairs_1 in H1. apply in_sort_pairs_1 in H2.
  destruct (raw_pairs_src sr cs _ H1) as [o1 [Ho1 E1]].
  destruct (raw_pairs_src sr cs _ H2) as [o2 [Ho2 E2]].
  assert (Ea : snd (src_pair sr o1) = snd (src_pair sr o2)) by (rewrite <- E1, <- E2; reflexivity).
  pose proof (src_same_alias_same_pkg sr cs o1 o2 W Ho1 Ho2 Ea) as G.
  rewrite <- E1, <- E2 in G. exact G.
Qed.

(* what survives imports.Process is part of what the template emitted *)
Lemma used_subset_raw sr cs x : In x (used_pairs sr cs) -> In x (raw_pairs sr cs).
Proof.
  unfold used_pairs, raw_pairs. rewrite !in_flat_map. intros [c [Hc Hx]]. exists c. split; [exact Hc|].
  unfold ctrl_pairs. apply in_app_or in Hx. destruct Hx as [Hx|Hx].
  { destruct (is_nil (c_routes c)); [destruct Hx|]. destruct Hx as [E|[]]. left; exact E. }
  right.
  apply in_flat_map in Hx. destruct Hx as [r [Hr Hx]]. apply in_flat_map. exists r. split; [exact Hr|].
  unfold route_pairs. apply in_app_or in Hx. apply in_or_app. destruct Hx as [Hx|Hx]; [left; exact Hx|right].
  unfold last_resp_used in Hx. unfold resp_pairs.
  destruct (rev (r_resps r)) as [|y l] eqn:Er; [destruct Hx|].
  destruct (is_nil (t_pkg (ir_ty y))) eqn:En; simpl in Hx; [destruct Hx|].
  destruct (ir_by_addr y || str_eqb (t_name (ir_ty y)) (s "error")); [destruct Hx|].
  destruct Hx as [E|[]]. apply in_flat_map. exists y. split.
  - apply in_rev. rewrite Er. left; reflexivity.
  - rewrite En. left; exact E.
Qed.

Theorem used_imports_wf sr cs :
  names_ok sr cs ->
  (forall pkg a, In (pkg, a) (used_import_list sr cs) -> go_ident a = true) /\
  (forall p1 p2 a, In (p1, a) (used_import_list sr cs) -> In (p2, a) (used_import_list sr cs) -> p1 = p2).
Proof.
  intros W. split.
  - intros pkg a H. apply (aliases_valid_identifiers sr cs W pkg a).
    unfold used_import_list in H. apply in_sort_pairs_1 in H.
    unfold import_list. apply in_sort_pairs_2. apply used_subset_raw; exact H.
  - intros p1 p2 a H1 H2. apply (aliases_unique_per_package sr cs W p1 p2 a);
      unfold import_list; apply in_sort_pairs_2; apply used_subset_raw;
      [unfold used_import_list in H1; apply in_sort_pairs_1 in H1; exact H1
      |unfold used_import_list in H2; apply in_sort_pairs_1 in H2; exact H2].
Qed.

(* every alias a handler refers to (controller, parameter types, the by-value custom error of a route) is one
   of the import lines the template emitted: the import block is complete for the rendered code *)
Lemma used_imports_are_imported sr cs x : In x (used_import_list sr cs) -> In x (import_list sr cs).
Proof.
  unfold used_import_list, import_list. intros H.
  apply in_sort_pairs_2. apply used_subset_raw. apply in_sort_pairs_1. exact H.
Qed.

(* in particular: a route returning (T, E) with E a custom error returned by value gets the alias
   Response<serial E>E of E's package, whatever T is (also a type of the same package) *)
Lemma custom_error_alias_imported sr cs c r x :
  In c cs -> In r (c_routes c) -> In x (last_resp_used sr r) -> In x (import_list sr cs).
Proof.
  intros Hc Hr Hx. apply used_imports_are_imported. unfold used_import_list. apply in_sort_pairs_2.
  unfold used_pairs. apply in_flat_map. exists c. split; [exact Hc|].
  apply in_or_app. right. apply in_flat_map. exists r. split; [exact Hr|].
  apply in_or_app. right. exact Hx.
Qed.

Definition cerr_sr (t : tyref) : str :=
  if str_eqb (t_name t) (s "Dto") then s "1" else if str_eqb (t_name t) (s "Failure") then s "2" else s "0".
Definition cerr_cs : list ictrl :=
  [mkICtrl (s "OrdersCtl") (s "m/ctl")
     [mkIRoute [mkIParam (s "id") (mkTy (s "string") [])]
               [mkIResp (mkTy (s "Dto") (s "m/ctl")) false; mkIResp (mkTy (s "Failure") (s "m/ctl")) false];
      mkIRoute [] [mkIResp (mkTy (s "Dto") (s "m/ctl")) false; mkIResp (mkTy (s "error") []) false]]].
Lemma cerr_import_lists :
  import_list cerr_sr cerr_cs =
  [(s "m/ctl", s "OrdersCtl"); (s "m/ctl", s "Response1Dto"); (s "m/ctl", s "Response2Failure")]
  /\ used_import_list cerr_sr cerr_cs = [(s "m/ctl", s "OrdersCtl"); (s "m/ctl", s "Response2Failure")].
Proof. split; vm_compute; reflexivity. Qed.

(* ---------- the oracle says what the property text says ---------- *)
Definition P_C09 (cfg_pkg : str) (gen_ok wrote : bool) (o : option file_obs) : Prop :=
  if gen_ok then
    exists f, o = Some f /\ f_parse f = true /\ f_gofmt f = true /\ f_pkg f = cfg_pkg /\
              aliases_ok (f_imports f) = true /\ f_compiles f = true
  else wrote = false.

Lemma prop_C09_spec cfg gen_ok wrote o : prop_C09 cfg gen_ok wrote o = true <-> P_C09 cfg gen_ok wrote o.
Proof.
  unfold prop_C09, P_C09. destruct gen_ok.
  - destruct o as [f|].
    + rewrite !andb_true_iff, str_eqb_spec. split.
      * intros [[[[A B] C] D] E]. exists f. repeat split; assumption.
      * intros [f' [Ef [A [B [C [D E]]]]]]. inversion Ef; subst f'. repeat split; assumption.
    + split; [discriminate|intros [f [Ef _]]; discriminate].
  - destruct wrote; simpl; split; intros H; try reflexivity; try discriminate; auto.
Qed.

Lemma no_dup_str_spec l : no_dup_str l = true -> NoDup l.
Proof.
  induction l as [|x t IH]; simpl; [constructor|].
  rewrite andb_true_iff, negb_true_iff. intros [Hm Ht]. constructor; [|apply IH; exact Ht].
  intros Hin. assert (mem str_eqb x t = true) as M.
  { apply (mem_spec str_eqb str_eqb_spec). exact Hin. }
  rewrite M in Hm. discriminate.
Qed.

(* ---------- witnesses: the preconditions are needed (F13-like and prefix clash) ---------- *)
Definition demo_sr (t : tyref) : str :=
  if str_eqb (t_name t) (s "Item") then s "3" else if str_eqb (t_name t) (s "ItemKind") then s "0"
  else if str_eqb (t_name t) (s "int") then s "12" else s "7".
Definition tItem := mkTy (s "Item") (s "m/types").
Definition tKind := mkTy (s "ItemKind") (s "m/types").
Definition tErr := mkTy (s "error") [].
Definition demo_cs : list ictrl :=
  [mkICtrl (s "BCtl") (s "m/ctl")
     [mkIRoute [mkIParam (s "k") tKind; mkIParam (s "it") tItem; mkIParam (s "n") (mkTy (s "int") [])]
               [mkIResp tItem false; mkIResp tErr false];
      mkIRoute [mkIParam (s "k") tKind] [mkIResp tErr false]];
   mkICtrl (s "ACtl") (s "m/ctlb") []].

Lemma demo_import_list :
  import_list demo_sr demo_cs =
  [(s "m/ctl", s "BCtl"); (s "m/ctlb", s "ACtl"); (s "m/types", s "Param0k"); (s "m/types", s "Param3it");
   (s "m/types", s "Response3Item")]
  /\ used_import_list demo_sr demo_cs =
  [(s "m/ctl", s "BCtl"); (s "m/types", s "Param0k"); (s "m/types", s "Param3it")].
Proof. split; vm_compute; reflexivity. Qed.

Lemma demo_names_ok : names_ok demo_sr demo_cs.
Proof.
  constructor.
  - intros c [<-|[<-|[]]]; reflexivity.
  - intros c [<-|[<-|[]]]; split; reflexivity.
  - intros c1 c2 [<-|[<-|[]]] [<-|[<-|[]]] E; try reflexivity; vm_compute in E; discriminate E.
  - intros p Hp. vm_compute in Hp.
    repeat (destruct Hp as [<-|Hp]; [reflexivity|]). destruct Hp.
  - intros t Ht. vm_compute in Ht.
    repeat (destruct Ht as [<-|Ht]; [reflexivity|]). destruct Ht.
  - intros t Ht. vm_compute in Ht.
    repeat (destruct Ht as [<-|Ht]; [reflexivity|]). destruct Ht.
  - intros t1 t2 H1 H2. vm_compute in H1, H2.
    repeat (destruct H1 as [<-|H1]);
      repeat (destruct H2 as [<-|H2]); try contradiction; intros E; try reflexivity; vm_compute in E; discriminate E.
Qed.

(* two controllers with one name in two packages: one alias, two packages *)
Definition clash_cs : list ictrl := [mkICtrl (s "Ctl") (s "m/a") []; mkICtrl (s "Ctl") (s "m/b") []].
Lemma unique_refuted_same_name :
  exists sr cs p1 p2 a, In (p1, a) (import_list sr cs) /\ In (p2, a) (import_list sr cs) /\ p1 <> p2.
Proof.
  exists demo_sr, clash_cs, (s "m/a"), (s "m/b"), (s "Ctl").
  split; [vm_compute; left; reflexivity|].
  split; [vm_compute; right; left; reflexivity|].
  vm_compute. intros H; discriminate H.
Qed.

(* a controller named like a parameter alias *)
Definition clash2_cs : list ictrl :=
  [mkICtrl (s "Param0k") (s "m/ctl") [mkIRoute [mkIParam (s "k") tKind] []]].
Lemma unique_refuted_prefix :
  exists sr cs p1 p2 a, In (p1, a) (import_list sr cs) /\ In (p2, a) (import_list sr cs) /\ p1 <> p2.
Proof.
  exists demo_sr, clash2_cs, (s "m/ctl"), (s "m/types"), (s "Param0k").
  split; [vm_compute; left; reflexivity|].
  split; [vm_compute; right; left; reflexivity|].
  vm_compute. intros H; discriminate H.
Qed.

Lemma demo_oracle :
  prop_C09 (s "routes") true true
    (Some (mkFileObs true true (s "routes") [([], s "fmt", true); (s "BCtl", s "m/ctl", true)] true)) = true
  /\ prop_C09 (s "routes") true true
    (Some (mkFileObs false false (s "routes") [] false)) = false
  /\ prop_C09 (s "routes") true true
    (Some (mkFileObs true true (s "routes") [(s "A", s "m/a", true); (s "A", s "m/b", true)] true)) = false
  /\ prop_C09 (s "routes") false true None = false
  /\ prop_C09 (s "routes") false false None = true.
Proof. repeat split; vm_compute; reflexivity. Qed.
