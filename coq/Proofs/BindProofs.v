From Gleece Require Import Base.Bytes Model.Bind.
From Coq Require Import ZifyN ZifyNat ZifyBool.
Open Scope list_scope.
Open Scope N_scope.

(* ---- digits ---- *)

Lemma digit_roundtrip d : d < 10 -> digit_of_byte (byte_of_digit d) = Some d.
Proof.
  intros H.
  assert (d = 0 \/ d = 1 \/ d = 2 \/ d = 3 \/ d = 4 \/ d = 5 \/ d = 6 \/ d = 7 \/ d = 8 \/ d = 9) as C by lia.
  repeat (destruct C as [C|C]; [subst; reflexivity|]). subst; reflexivity.
Qed.

Lemma to_digits_value fuel : forall n acc,
  n < 10 ^ N.of_nat fuel -> fold_left step10 (to_digits fuel n acc) 0 = fold_left step10 acc n.
Proof.
  induction fuel as [|f IH]; intros n acc Hn.
  - simpl in *. assert (n = 0) by lia. subst. reflexivity.
  - cbn [to_digits]. destruct (N.ltb_spec n 10) as [Hlt|Hge].
    + cbn [fold_left]. unfold step10 at 2. f_equal.
    + rewrite IH.
      * cbn [fold_left]. unfold step10 at 2. f_equal.
        pose proof (N.div_mod n 10 ltac:(lia)). lia.
      * rewrite Nat2N.inj_succ, N.pow_succ_r' in Hn.
        apply N.div_lt_upper_bound; lia.
Qed.

Lemma to_digits_small fuel : forall n acc,
  Forall (fun d => d < 10) acc -> Forall (fun d => d < 10) (to_digits fuel n acc).
Proof.
  induction fuel as [|f IH]; intros n acc Ha; cbn [to_digits]; auto.
  destruct (N.ltb_spec n 10) as [Hlt|Hge].
  - constructor; auto.
  - apply IH. constructor; auto. apply N.mod_lt. lia.
Qed.

Lemma to_digits_nonempty fuel n acc : to_digits (S fuel) n acc <> [].
Proof.
  revert n acc. induction fuel as [|f IH]; intros n acc; cbn [to_digits].
  - destruct (n <? 10); [discriminate|]. simpl. discriminate.
  - destruct (n <? 10); [discriminate|]. apply IH.
Qed.

Lemma digits_of_map ds : Forall (fun d => d < 10) ds -> digits_of (map byte_of_digit ds) = Some ds.
Proof.
  induction ds as [|d ds IH]; intros H; simpl; auto.
  inversion H; subst. rewrite digit_roundtrip by assumption. rewrite IH by assumption. reflexivity.
Qed.

Lemma size_bound n : n < 10 ^ N.of_nat (S (N.to_nat (N.size n))).
Proof.
  rewrite Nat2N.inj_succ, N2Nat.id.
  destruct n as [|p]; [simpl; lia|].
  pose proof (N.size_gt (N.pos p)) as H.
  apply N.lt_le_trans with (2 ^ N.size (N.pos p)); auto.
  apply N.le_trans with (10 ^ N.size (N.pos p)).
  - apply N.pow_le_mono_l. lia.
  - apply N.pow_le_mono_r; lia.
Qed.

Theorem parse_print_N n : parse_N (print_N n) = Some n.
Proof.
  unfold parse_N, print_N.
  set (fuel := N.to_nat (N.size n)).
  pose proof (to_digits_nonempty fuel n []) as Hne.
  pose proof (to_digits_small (S fuel) n [] (Forall_nil _)) as Hsm.
  destruct (to_digits (S fuel) n []) as [|d ds] eqn:E; [contradiction Hne; reflexivity|].
  cbn [map]. rewrite <- (map_cons byte_of_digit d ds).
  assert (digits_of (map byte_of_digit (d :: ds)) = Some (d :: ds)) as Hd by (apply digits_of_map; exact Hsm).
  cbn [map] in Hd |- *. rewrite Hd. f_equal.
  rewrite <- E. rewrite to_digits_value; [reflexivity|]. apply size_bound.
Qed.

(* ---- unsigned ---- *)

Theorem parse_uint_print bits n : n < 2 ^ bits -> parse_uint bits (print_N n) = Some n.
Proof.
  intros H. unfold parse_uint. rewrite parse_print_N.
  destruct (N.ltb_spec n (2 ^ bits)); [reflexivity|lia].
Qed.

Theorem parse_uint_range bits p n : parse_uint bits p = Some n -> n < 2 ^ bits.
Proof.
  unfold parse_uint. destruct (parse_N p) as [m|]; [|discriminate].
  destruct (N.ltb_spec m (2 ^ bits)); intros E; inversion E; subst; assumption.
Qed.

(* ---- signed ---- *)

Lemma print_N_first_digit n : exists c t, print_N n = c :: t /\ beqb c "-"%byte = false /\ beqb c "+"%byte = false.
Proof.
  unfold print_N. set (fuel := N.to_nat (N.size n)).
  pose proof (to_digits_nonempty fuel n []) as Hne.
  pose proof (to_digits_small (S fuel) n [] (Forall_nil _)) as Hsm.
  destruct (to_digits (S fuel) n []) as [|d ds]; [contradiction Hne; reflexivity|].
  inversion Hsm; subst. exists (byte_of_digit d), (map byte_of_digit ds). split; [reflexivity|].
  assert (d = 0 \/ d = 1 \/ d = 2 \/ d = 3 \/ d = 4 \/ d = 5 \/ d = 6 \/ d = 7 \/ d = 8 \/ d = 9) as C by lia.
  repeat (destruct C as [C|C]; [subst; split; reflexivity|]). subst; split; reflexivity.
Qed.

Theorem parse_int_print bits z :
  0 < bits -> (- 2 ^ (Z.of_N bits - 1) <= z < 2 ^ (Z.of_N bits - 1))%Z ->
  parse_int bits (print_Z z) = Some z.
Proof.
  intros Hb Hr.
  assert (Hhalf : Z.of_N (2 ^ (bits - 1)) = (2 ^ (Z.of_N bits - 1))%Z).
  { rewrite N2Z.inj_pow, N2Z.inj_sub by lia. reflexivity. }
  destruct z as [|p|p]; unfold print_Z, parse_int.
  - destruct (print_N_first_digit 0) as [c [t [E [H1 H2]]]]. rewrite E, H1, H2, <- E, parse_print_N.
    destruct (N.ltb_spec 0 (2 ^ (bits - 1))); [reflexivity|].
    assert (0 < 2 ^ (bits - 1)) by (apply N.neq_0_lt_0, N.pow_nonzero; lia). lia.
  - destruct (print_N_first_digit (N.pos p)) as [c [t [E [H1 H2]]]]. rewrite E, H1, H2, <- E, parse_print_N.
    destruct (N.ltb_spec (N.pos p) (2 ^ (bits - 1))); [reflexivity|]. lia.
  - change (beqb "-"%byte "-"%byte) with true. cbv iota. rewrite parse_print_N.
    destruct (N.leb_spec (N.pos p) (2 ^ (bits - 1))); [reflexivity|]. lia.
Qed.

(* ---- bool ---- *)

Theorem parse_bool_print b : parse_bool (print_bool b) = Some b.
Proof. destruct b; reflexivity. Qed.

(* ---- the property: every representable value of the declared type survives the trip ---- *)

Theorem bind_roundtrip ty v : in_range ty v = true -> convert ty (print v) = Some v.
Proof.
  destruct ty, v; simpl; try discriminate; intros H.
  - reflexivity.
  - unfold int_bits. rewrite parse_int_print; [reflexivity|lia|].
    apply andb_true_iff in H as [H1 H2]. change (Z.of_N 64 - 1)%Z with 63%Z. lia.
  - apply andb_true_iff in H as [Hb H]. apply andb_true_iff in H as [H1 H2].
    rewrite parse_int_print; [reflexivity|lia|lia].
  - unfold uint_bits. rewrite parse_uint_print; [reflexivity|lia].
  - rewrite parse_uint_print; [reflexivity|lia].
  - rewrite parse_bool_print. reflexivity.
Qed.

Theorem prop_C05_value_holds ty v : prop_C05_value ty v (convert ty (print v)) = true.
Proof.
  unfold prop_C05_value. destruct (in_range ty v) eqn:E; [|reflexivity]. simpl.
  rewrite (bind_roundtrip ty v E).
  destruct v; simpl; auto using str_eqb_refl, Z.eqb_refl, N.eqb_refl, Bool.eqb_reflx.
Qed.

(* what a 32-bit conversion of uint loses (the behaviour before the fix) *)
Theorem uint32_conversion_refuted :
  exists n, in_range PUint (VUint n) = true /\ option_map VUint (parse_uint 32 (print_N n)) = None.
Proof. exists 4294967296. vm_compute. split; reflexivity. Qed.

From Coq Require Import String.
Example bind_demo :
  convert PUint (print (VUint 18446744073709551615)) = Some (VUint 18446744073709551615) /\
  convert (PIntN 8) (print (VInt (-128))) = Some (VInt (-128)) /\
  convert (PIntN 8) (s "128"%string) = None /\ convert (PUintN 16) (s "-1"%string) = None /\
  convert PInt (s "12x"%string) = None /\ convert PBool (s "yes"%string) = None /\
  in_range PInt (VInt (-9223372036854775808)) = true.
Proof. vm_compute. repeat split. Qed.
