(* Proofs about the loading step as a value (Model/ConfigLoad.v). *)
From Coq Require Import String.
From Gleece Require Import Base.Bytes Model.Config Model.ConfigLoad.
From Coq Require Import List Bool Lia.
Import ListNotations.
Open Scope list_scope.

(* what the oracle guarantees about the value the generators receive: the same glob
   expressions and the same package name as the document's (defaults included) ... *)
Lemma loaded_honours_effective : forall doc l,
  loaded_honours doc l = true -> globs_of l = globs_of doc /\ package_of l = package_of doc.
Proof.
  intros doc l H. unfold loaded_honours in H.
  apply andb_true_iff in H. destruct H as [H _].
  apply andb_true_iff in H. destruct H as [Hg Hp].
  split.
  - apply (proj1 (list_eqb_spec str_eqb str_eqb_spec _ _)). exact Hg.
  - apply (proj1 (str_eqb_spec _ _)). exact Hp.
Qed.

(* ... hence the same controllers contribute, in every world *)
Lemma loaded_honours_ctrls : forall doc l w,
  loaded_honours doc l = true -> selected_ctrls w l = selected_ctrls w doc.
Proof.
  intros doc l w H. destruct (loaded_honours_effective _ _ H) as [Hg _].
  unfold selected_ctrls, selected_files. rewrite Hg. reflexivity.
Qed.

(* a process that loads a history: the result of a load does not depend on what was loaded
   before or after it (it is what a process that loads this document alone returns) *)
Lemma run_loads_history_free : forall o a pre post d,
  nth_error (run_loads o a (pre ++ d :: post)) (List.length pre) = Some (load1 o a d) /\
  run_loads o a [d] = [load1 o a d].
Proof.
  intros o a pre post d. split; [|reflexivity].
  unfold run_loads. induction pre as [|x pre IH]; simpl; [reflexivity | exact IH].
Qed.

(* an accepted load returns the document; a refused one returns nothing *)
Lemma load1_spec : forall o a cfg,
  (validate o a cfg = Valid -> load1 o a cfg = (Valid, Some cfg)) /\
  (validate o a cfg <> Valid -> load1 o a cfg = (validate o a cfg, None)).
Proof.
  intros o a cfg. unfold load1. destruct (validate o a cfg); split; intros H; try reflexivity; congruence.
Qed.

(* non-vacuity: the oracle accepts the literal image and an image with the defaults spelled
   out; it refuses an image that carries the glob expressions of ANOTHER document (what a
   loader that decodes on top of shared defaults returns for the second document of a history)
   and an image whose package name differs *)
Lemma loads_nonvacuous :
  loaded_honours demo_cfg demo_cfg = true /\
  loaded_honours demo_no_globs demo_no_globs = true /\
  loaded_honours demo_no_globs demo_default_globs = true /\
  loaded_honours demo_no_globs demo_two_globs = false /\
  loaded_honours demo_two_globs demo_no_globs = false /\
  loaded_honours demo_cfg (with_member k_routes (s "packageName") (JStr (s "other")) demo_cfg) = false /\
  loaded_honours demo_cfg (with_member k_routes (s "validateResponsePayload") (JBool true) demo_cfg) = false /\
  loaded_honours demo_cfg (with_member k_routes (s "validateResponsePayload") (JBool false) demo_cfg) = true /\
  selected_ctrls demo_world_all demo_no_globs = [s "MainController"; s "DecoyController"] /\
  selected_ctrls demo_world_all demo_cfg = [s "MainController"] /\
  map fst (run_loads demo_oracle snapshot_schema [demo_two_globs; demo_no_globs]) = [Valid; Valid] /\
  prop_C20_loads
    [ {| lo_doc := demo_two_globs; lo_verdict := Valid; lo_value := Some demo_two_globs; lo_after := Some demo_two_globs |};
      {| lo_doc := demo_no_globs; lo_verdict := Valid; lo_value := Some demo_no_globs; lo_after := Some demo_no_globs |} ] = true /\
  prop_C20_loads
    [ {| lo_doc := demo_two_globs; lo_verdict := Valid; lo_value := Some demo_two_globs; lo_after := Some demo_two_globs |};
      {| lo_doc := demo_no_globs; lo_verdict := Valid; lo_value := Some demo_two_globs; lo_after := Some demo_two_globs |} ] = false.
Proof. vm_compute. repeat split; reflexivity. Qed.
