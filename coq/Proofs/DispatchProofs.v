(* C15 x C02: what the absence of route conflicts buys at dispatch time.
   A concrete request path [w] (its segments) is served by a route when the route's normalised
   template matches it (literal = segment, or a parameter); two same-verb routes that both match
   one path overlap in the sense of patternsConflict (ConflictsProofs.overlap_spec).  Hence a route
   list on which no pair of distinct same-verb entries overlaps - i.e. on which FindConflicts has
   nothing to report (C15_sound_complete) - dispatches every request to AT MOST ONE annotated
   method, whatever order the routes were registered in. *)
From Gleece Require Import Base.Bytes Model.Conflicts Proofs.ConflictsProofs.
From Coq Require Import String.
Open Scope list_scope.

Definition conflict_free (es : list entry) : Prop :=
  forall i j ei ej, i <> j -> nth_error es i = Some ei -> nth_error es j = Some ej ->
                    e_verb ei = e_verb ej -> patterns_conflict (segs ei) (segs ej) = false.

Definition serves (e : entry) (verb : str) (w : list str) : Prop :=
  e_verb e = verb /\ matches (segs e) w.

Theorem conflict_free_unique_dispatch es :
  conflict_free es ->
  forall verb w i j ei ej,
    nth_error es i = Some ei -> nth_error es j = Some ej ->
    serves ei verb w -> serves ej verb w -> i = j.
Proof.
  intros Hcf verb w i j ei ej Hi Hj [Hvi Hmi] [Hvj Hmj].
  destruct (Nat.eq_dec i j) as [E|N]; [exact E|exfalso].
  assert (Hv : e_verb ei = e_verb ej) by congruence.
  pose proof (Hcf i j ei ej N Hi Hj Hv) as Hno.
  assert (Hyes : patterns_conflict (segs ei) (segs ej) = true).
  { apply overlap_spec. exists w. split; assumption. }
  rewrite Hyes in Hno. discriminate Hno.
Qed.

(* conversely, an overlapping same-verb pair has a request both serve: the ambiguity is real *)
Theorem overlap_has_ambiguous_request ei ej :
  e_verb ei = e_verb ej -> patterns_conflict (segs ei) (segs ej) = true ->
  exists w, serves ei (e_verb ei) w /\ serves ej (e_verb ei) w.
Proof.
  intros Hv Hc. apply overlap_spec in Hc. destruct Hc as [w [Ha Hb]].
  exists w. split; split; auto.
Qed.

(* non-vacuity: two routes under one verb that never share a request, and a pair that does *)
Definition demo_a : entry := {| e_path := s "/items/{id}"%string; e_verb := s "GET"%string |}.
Definition demo_b : entry := {| e_path := s "/items/{id}/parts"%string; e_verb := s "GET"%string |}.
Definition demo_c : entry := {| e_path := s "/items/latest"%string; e_verb := s "GET"%string |}.

Example demo_free : patterns_conflict (segs demo_a) (segs demo_b) = false /\
                    patterns_conflict (segs demo_a) (segs demo_c) = true.
Proof. vm_compute. split; reflexivity. Qed.
