(* Proofs about the controller's own annotations (Model/CtlSelf.v). *)
From Gleece Require Import Base.Bytes Model.Annot Model.Linker Model.CtlSelf.
From Coq Require Import String List Bool Arith Lia.
Import ListNotations.
Open Scope list_scope.

Definition attr_in_error (a : cattr) : bool :=
  ckind_eqb (ca_kind a) CKUnknown || (needs_value (ca_kind a) && is_nil (ca_value a))
  || (ckind_eqb (ca_kind a) CKRouteOnly && negb (smem (ca_value a) supported_verbs)).

Lemma verb_diags_error : forall i v, existsb is_error (verb_diags i v) = negb (smem v supported_verbs).
Proof.
  intros i v. unfold verb_diags. destruct (smem v supported_verbs); [reflexivity|].
  destruct (smem v other_http_verbs); reflexivity.
Qed.

Lemma ctl_attr_error : forall seen i a, existsb is_error (ctl_attr seen i a) = attr_in_error a.
Proof.
  intros seen i a. unfold ctl_attr, attr_in_error.
  destruct (ca_kind a); cbn [crule_of cr_in_context cr_requires_value cr_allows_multiple cr_props ckind_eqb ckind_n
                             needs_value Nat.eqb orb andb negb];
    rewrite ?existsb_app, ?verb_diags_error;
    destruct (is_nil (ca_value a)); destruct (ca_props a); cbn; try reflexivity;
    try (destruct (count_ckind _ _) as [|[|n]]; cbn; try reflexivity);
    try (destruct (smem (ca_value a) supported_verbs); reflexivity).
Qed.

Lemma ctl_go_error : forall attrs seen i,
  existsb is_error (ctl_go seen (index_from i attrs)) = existsb attr_in_error attrs.
Proof.
  induction attrs as [|a t IH]; intros seen i; [reflexivity|].
  cbn [index_from ctl_go existsb]. rewrite existsb_app, ctl_attr_error, IH. reflexivity.
Qed.

(* the validator's case analysis reports an error exactly on the comments the text calls erroneous *)
Lemma ctl_self_error_iff : forall attrs,
  no_error (ctl_self_diags attrs) = negb (ctl_comment_in_error attrs).
Proof.
  intros attrs. unfold no_error, ctl_self_diags, indexed, ctl_comment_in_error.
  rewrite existsb_app, ctl_go_error.
  destruct (existsb (fun a => ckind_eqb (ca_kind a) CKTag) attrs); cbn; rewrite ?orb_false_r; reflexivity.
Qed.

Lemma existsb_In_true : forall {A} (f : A -> bool) l x, In x l -> f x = true -> existsb f l = true.
Proof. intros A f l x Hin Hf. apply existsb_exists. exists x. split; assumption. Qed.

(* an error on a controller's own comment blocks the command, whatever the controller exposes: its methods
   [c_routes c] are universally quantified - none, non-endpoints only, or endpoints *)
Lemma ctl_error_blocks_whatever_it_exposes : forall gen p before c,
  In c p -> ctl_comment_in_error (c_attrs c) = true ->
  run_project gen p before = (ExitFail, before).
Proof.
  intros gen p before c Hin Herr. unfold run_project.
  assert (Hb : existsb ctl_blocks p = true).
  { apply existsb_In_true with (x := c); [assumption|].
    unfold ctl_blocks, ctl_self_blocks. rewrite ctl_self_error_iff, Herr. reflexivity. }
  rewrite Hb. reflexivity.
Qed.

(* the verdict on the comment is the same for every list of methods *)
Lemma ctl_self_independent_of_methods : forall attrs rs rs',
  ctl_self_blocks {| c_attrs := attrs; c_routes := rs |} = ctl_self_blocks {| c_attrs := attrs; c_routes := rs' |}.
Proof. reflexivity. Qed.

(* a project whose command succeeds has no erroneous controller comment, and what is generated comes from
   accepted routes only *)
Lemma run_project_ok_clean : forall gen p before fs',
  run_project gen p before = (ExitOk, fs') ->
  forall c, In c p -> ctl_comment_in_error (c_attrs c) = false.
Proof.
  intros gen p before fs' Hrun c Hin.
  destruct (ctl_comment_in_error (c_attrs c)) eqn:E; [|reflexivity].
  rewrite (ctl_error_blocks_whatever_it_exposes gen p before c Hin E) in Hrun. discriminate.
Qed.

Lemma existsb_map' : forall {A B} (f : A -> B) (g : B -> bool) l, existsb g (map f l) = existsb (fun x => g (f x)) l.
Proof. induction l as [|x t IH]; cbn; [reflexivity|]. rewrite IH. reflexivity. Qed.

Lemma existsb_ext' : forall {A} (f g : A -> bool) l, (forall x, f x = g x) -> existsb f l = existsb g l.
Proof. intros A f g l H. induction l as [|x t IH]; cbn; [reflexivity|]. rewrite H, IH. reflexivity. Qed.

(* the oracle holds on the model: what the model reports and how the modelled command ends *)
Lemma prop_C10_ctl_on_model : forall gen attrs rs before,
  let c := {| c_attrs := attrs; c_routes := rs |} in
  let '(e, after) := run_project gen [c] before in
  ctl_comment_in_error attrs = true ->
  prop_C10_ctl attrs (ctl_obs attrs)
    (match e with ExitFail => true | ExitOk => false end) true true = true
  /\ after = before.
Proof.
  intros gen attrs rs before c.
  destruct (run_project gen [c] before) as [e after] eqn:Hrun. intros Herr.
  rewrite (ctl_error_blocks_whatever_it_exposes gen [c] before c (or_introl eq_refl) Herr) in Hrun.
  inversion Hrun; subst. split; [|reflexivity].
  unfold prop_C10_ctl, prop_C10_cmd. rewrite Herr. cbn.
  rewrite andb_true_r. unfold ctl_obs. rewrite existsb_map'.
  pose proof (ctl_self_error_iff attrs) as H. unfold no_error in H. rewrite Herr in H. cbn in H.
  apply negb_false_iff in H.
  erewrite existsb_ext'; [rewrite H; reflexivity|].
  intros d. cbn. unfold is_error. destruct (d_sev d); reflexivity.
Qed.

(* non-vacuity: the stub with a misspelt @Tag whose only method lost its @Method exposes nothing and blocks *)
Example stub_with_typo_blocks : forall gen before,
  endpoints {| c_attrs := demo_ctl_typo; c_routes := [demo_stub_method] |} = []
  /\ ctl_comment_in_error demo_ctl_typo = true
  /\ run_project gen [ {| c_attrs := demo_ctl_ok; c_routes := [demo_ok] |};
                       {| c_attrs := demo_ctl_typo; c_routes := [demo_stub_method] |} ] before = (ExitFail, before).
Proof. intros; repeat split; vm_compute; reflexivity. Qed.

Example valueless_route_without_methods_blocks : forall gen before,
  ctl_comment_in_error demo_ctl_valueless = true
  /\ run_project gen [ {| c_attrs := demo_ctl_valueless; c_routes := [] |} ] before = (ExitFail, before).
Proof. intros; split; vm_compute; reflexivity. Qed.

Example clean_stub_passes : ctl_comment_in_error demo_ctl_ok = false /\ ctl_obs demo_ctl_ok = [].
Proof. split; vm_compute; reflexivity. Qed.
