(* Proofs about Model/Spec.v (C01, C04, C06): the model of the OpenAPI paths emitter
   satisfies the property oracles for every abstract project. *)
From Gleece Require Import Base.Bytes Model.Project Model.Spec.
From Coq Require Import String Permutation.
Open Scope list_scope.

(* ------------------------------------------------------------------ *)
(* generic list facts                                                  *)

Lemma list_eqb_refl {A} (eqb : A -> A -> bool) (H : forall x, eqb x x = true) l :
  list_eqb eqb l l = true.
Proof. induction l as [|x l IH]; simpl; [reflexivity|]. rewrite H, IH. reflexivity. Qed.

Lemma mset_eqb_refl {A} (eqb : A -> A -> bool) (H : forall x, eqb x x = true) l :
  mset_eqb eqb l l = true.
Proof. induction l as [|x l IH]; simpl; [reflexivity|]. rewrite H. exact IH. Qed.

Lemma filter_twice {A} (f g : A -> bool) l :
  filter f (filter g l) = filter (fun x => f x && g x) l.
Proof.
  induction l as [|x l IH]; simpl; [reflexivity|].
  destruct (g x) eqn:Eg; simpl.
  - rewrite andb_true_r. destruct (f x); rewrite IH; reflexivity.
  - rewrite andb_false_r. exact IH.
Qed.

Lemma filter_all {A} (f : A -> bool) l : (forall x, In x l -> f x = true) -> filter f l = l.
Proof.
  induction l as [|x l IH]; intros H; simpl; [reflexivity|].
  rewrite (H x (or_introl eq_refl)). f_equal. apply IH. intros y Hy. apply H. right; exact Hy.
Qed.

Lemma filter_none {A} (f : A -> bool) l : (forall x, In x l -> f x = false) -> filter f l = [].
Proof.
  induction l as [|x l IH]; intros H; simpl; [reflexivity|].
  rewrite (H x (or_introl eq_refl)). apply IH. intros y Hy. apply H. right; exact Hy.
Qed.

Lemma nodup_map_filter {A B} (k : A -> B) (g : A -> bool) l :
  NoDup (map k l) -> NoDup (map k (filter g l)).
Proof.
  induction l as [|x l IH]; simpl; intros H; [constructor|].
  apply NoDup_cons_iff in H as [Hx Hl]. destruct (g x); simpl; auto.
  constructor; auto. intros Hin. apply Hx.
  apply in_map_iff in Hin as [y [Ey Hy]]. apply filter_In in Hy as [Hy _].
  apply in_map_iff. exists y; auto.
Qed.

(* a key that occurs once is counted once *)
Lemma count_nodup {A} (k : A -> N) l :
  NoDup (map k l) -> forall r, In r l ->
  List.length (filter (fun r' => N.eqb (k r) (k r')) l) = 1.
Proof.
  induction l as [|a l IH]; simpl; intros Hnd r Hin; [contradiction|].
  apply NoDup_cons_iff in Hnd as [Ha Hl]. destruct Hin as [->|Hin].
  - rewrite N.eqb_refl. simpl. f_equal.
    rewrite filter_none; [reflexivity|]. intros y Hy.
    apply N.eqb_neq. intros E. apply Ha. rewrite E. apply in_map. exact Hy.
  - assert (Hne : N.eqb (k r) (k a) = false).
    { apply N.eqb_neq. intros E. apply Ha. rewrite <- E. apply in_map. exact Hin. }
    rewrite Hne. apply IH; auto.
Qed.

(* boolean pairwise distinctness of strings *)
Fixpoint distinct (l : list str) : bool :=
  match l with
  | [] => true
  | x :: t => negb (mem str_eqb x t) && distinct t
  end.

Lemma distinct_NoDup l : distinct l = true <-> NoDup l.
Proof.
  induction l as [|x l IH]; simpl.
  - split; [constructor|reflexivity].
  - rewrite andb_true_iff, negb_true_iff, NoDup_cons_iff, IH.
    assert (Hm : mem str_eqb x l = false <-> ~ In x l).
    { rewrite <- (mem_spec str_eqb str_eqb_spec). destruct (mem str_eqb x l); split; congruence. }
    rewrite Hm. tauto.
Qed.

(* ------------------------------------------------------------------ *)
(* reflexivity of the structural equalities                            *)

Lemma schema_eqb_refl a : schema_eqb a a = true.
Proof. induction a; simpl; rewrite ?str_eqb_refl; auto. Qed.

Lemma oparam_eqb_refl a : oparam_eqb a a = true.
Proof.
  unfold oparam_eqb. rewrite !str_eqb_refl, schema_eqb_refl, Bool.eqb_reflx. reflexivity.
Qed.

Lemma prop_eqb_refl a : prop_eqb a a = true.
Proof. unfold prop_eqb. rewrite str_eqb_refl, schema_eqb_refl. reflexivity. Qed.

Lemma requirement_eqb_refl a : requirement_eqb a a = true.
Proof.
  unfold requirement_eqb. rewrite str_eqb_refl. apply (list_eqb_refl str_eqb str_eqb_refl).
Qed.

(* ------------------------------------------------------------------ *)
(* slots: same_slot is an equivalence, set_operation keeps one per slot *)

Lemma same_slot_iff a b :
  same_slot a b = true <-> o_path a = o_path b /\ o_verb a = o_verb b.
Proof. unfold same_slot. rewrite andb_true_iff, !str_eqb_spec. tauto. Qed.

Lemma same_slot_refl a : same_slot a a = true.
Proof. apply same_slot_iff; auto. Qed.

Lemma same_slot_sym a b : same_slot a b = same_slot b a.
Proof.
  unfold same_slot. rewrite (str_eqb_sym (o_path a)), (str_eqb_sym (o_verb a)). reflexivity.
Qed.

Lemma same_slot_trans a b c :
  same_slot a b = true -> same_slot b c = true -> same_slot a c = true.
Proof.
  rewrite !same_slot_iff. intros [H1 H2] [H3 H4]. split; congruence.
Qed.

Lemma same_slot_congr a b c : same_slot a b = true -> same_slot a c = same_slot b c.
Proof.
  intros Hab. destruct (same_slot b c) eqn:Ebc.
  - eapply same_slot_trans; eauto.
  - destruct (same_slot a c) eqn:Eac; [|reflexivity].
    rewrite same_slot_sym in Hab. rewrite <- Ebc. symmetry. eapply same_slot_trans; eauto.
Qed.

Lemma in_set_operation d o o' :
  In o' (set_operation d o) <-> (In o' d /\ same_slot o' o = false) \/ o' = o.
Proof.
  unfold set_operation. rewrite in_app_iff, filter_In, negb_true_iff. simpl.
  split; intros [H|H]; auto.
  destruct H as [H|[]]; auto.
Qed.

Definition Uniq (d : list operation) : Prop :=
  forall o, In o d -> List.length (filter (same_slot o) d) = 1.

Lemma uniq_nil : Uniq [].
Proof. intros o []. Qed.

Lemma uniq_set_operation d o : Uniq d -> Uniq (set_operation d o).
Proof.
  intros U o' Hin. apply in_set_operation in Hin.
  unfold set_operation. rewrite filter_app, app_length, filter_twice.
  destruct Hin as [[Hin Hs]| ->].
  - cbn [filter]. rewrite Hs. cbn [List.length]. rewrite Nat.add_0_r.
    rewrite <- (U o' Hin). f_equal. apply filter_ext_in. intros x _.
    destruct (same_slot o' x) eqn:E; [|reflexivity].
    rewrite <- (same_slot_congr _ _ _ E), Hs. reflexivity.
  - rewrite filter_none.
    + cbn [filter]. rewrite same_slot_refl. reflexivity.
    + intros x _. rewrite (same_slot_sym o x). destruct (same_slot x o); reflexivity.
Qed.

Lemma slot_preserved d o o0 :
  In o0 d -> exists o', In o' (set_operation d o) /\ same_slot o' o0 = true.
Proof.
  intros Hin. destruct (same_slot o0 o) eqn:E.
  - exists o. split; [apply in_set_operation; auto|]. rewrite same_slot_sym. exact E.
  - exists o0. split; [apply in_set_operation; auto|]. apply same_slot_refl.
Qed.

(* ------------------------------------------------------------------ *)
(* the emission loop                                                   *)

Lemma fold_spec_none cfg l : fold_left (spec_step cfg) l None = None.
Proof. induction l as [|cm l IH]; simpl; auto. Qed.

Lemma fold_spec_cons cfg c m l doc0 d :
  fold_left (spec_step cfg) ((c, m) :: l) (Some doc0) = Some d ->
  (m_hidden m = true /\ fold_left (spec_step cfg) l (Some doc0) = Some d) \/
  (m_hidden m = false /\ exists o, mk_operation cfg c m = Some o /\
     fold_left (spec_step cfg) l (Some (set_operation doc0 o)) = Some d).
Proof.
  intros H. cbn [fold_left] in H.
  remember (spec_step cfg (Some doc0) (c, m)) as acc eqn:Eacc.
  unfold spec_step in Eacc. cbn [fst snd] in Eacc.
  destruct (m_hidden m).
  - subst acc. left; auto.
  - destruct (mk_operation cfg c m) as [o|].
    + subst acc. right; split; auto. exists o; auto.
    + subst acc. rewrite fold_spec_none in H. discriminate.
Qed.

(* (a) every emitted operation comes from a visible route (or was there before) *)
Lemma fold_origin cfg : forall l doc0 d,
  fold_left (spec_step cfg) l (Some doc0) = Some d ->
  forall o, In o d ->
  In o doc0 \/ exists c m, In (c, m) l /\ m_hidden m = false /\ mk_operation cfg c m = Some o.
Proof.
  induction l as [|[c m] l IH]; intros doc0 d H o Hin.
  - simpl in H. inversion H; subst; auto.
  - apply fold_spec_cons in H as [[Hh H]|[Hh [o1 [Hmk H]]]].
    + destruct (IH _ _ H o Hin) as [Hd|[c' [m' [Hl Hr]]]]; auto.
      right; exists c', m'; split; [right; exact Hl|exact Hr].
    + destruct (IH _ _ H o Hin) as [Hd|[c' [m' [Hl Hr]]]].
      * apply in_set_operation in Hd as [[Hd _]| ->]; auto.
        right; exists c, m; split; [left; reflexivity|auto].
      * right; exists c', m'; split; [right; exact Hl|exact Hr].
Qed.

(* slots never disappear *)
Lemma fold_slots cfg : forall l doc0 d,
  fold_left (spec_step cfg) l (Some doc0) = Some d ->
  forall o0, In o0 doc0 -> exists o, In o d /\ same_slot o o0 = true.
Proof.
  induction l as [|[c m] l IH]; intros doc0 d H o0 Hin.
  - simpl in H. inversion H; subst. exists o0; split; auto. apply same_slot_refl.
  - apply fold_spec_cons in H as [[Hh H]|[Hh [o1 [Hmk H]]]].
    + eapply IH; eauto.
    + destruct (slot_preserved doc0 o1 o0 Hin) as [o' [Hin' Hs']].
      destruct (IH _ _ H o' Hin') as [o [Ho Hs]].
      exists o; split; auto. eapply same_slot_trans; eauto.
Qed.

(* (b) every visible route was accepted and its slot is in the document *)
Lemma fold_visible cfg : forall l doc0 d,
  fold_left (spec_step cfg) l (Some doc0) = Some d ->
  forall c m, In (c, m) l -> m_hidden m = false ->
  exists o1 o, mk_operation cfg c m = Some o1 /\ In o d /\ same_slot o o1 = true.
Proof.
  induction l as [|[c0 m0] l IH]; intros doc0 d H c m Hin Hvis; [contradiction|].
  apply fold_spec_cons in H as [[Hh H]|[Hh [o1 [Hmk H]]]].
  - destruct Hin as [E|Hin]; [inversion E; subst; congruence|]. eapply IH; eauto.
  - destruct Hin as [E|Hin]; [|eapply IH; eauto]. inversion E; subst c0 m0.
    assert (Hin1 : In o1 (set_operation doc0 o1)) by (apply in_set_operation; auto).
    destruct (fold_slots _ _ _ _ H o1 Hin1) as [o [Ho Hs]].
    exists o1, o; auto.
Qed.

(* (c) one operation per slot *)
Lemma fold_uniq cfg : forall l doc0 d,
  fold_left (spec_step cfg) l (Some doc0) = Some d -> Uniq doc0 -> Uniq d.
Proof.
  induction l as [|[c m] l IH]; intros doc0 d H U.
  - simpl in H. inversion H; subst; auto.
  - apply fold_spec_cons in H as [[Hh H]|[Hh [o1 [Hmk H]]]].
    + eapply IH; eauto.
    + eapply IH; eauto. apply uniq_set_operation; exact U.
Qed.

(* ------------------------------------------------------------------ *)
(* sorting the controllers does not change the set of routes           *)

Lemma in_insert_ctrl x c l : In x (insert_ctrl c l) <-> x = c \/ In x l.
Proof.
  induction l as [|d t IH]; simpl.
  - split; [intros [E|[]]; auto|intros [E|[]]; auto].
  - destruct (str_ltb (c_name c) (c_name d)); simpl; rewrite ?IH; intuition congruence.
Qed.

Lemma in_sort_fold x l : forall acc,
  In x (fold_left (fun acc c => insert_ctrl c acc) l acc) <-> In x l \/ In x acc.
Proof.
  induction l as [|c l IH]; intros acc; simpl; [tauto|].
  rewrite IH, in_insert_ctrl. intuition congruence.
Qed.

Lemma in_sort_controllers x l : In x (sort_controllers l) <-> In x l.
Proof. unfold sort_controllers. rewrite in_sort_fold. simpl. tauto. Qed.

Lemma in_pairs (cs : list controller) c m :
  In (c, m) (flat_map (fun c => map (fun m => (c, m)) (c_methods c)) cs) <->
  In c cs /\ In m (c_methods c).
Proof.
  rewrite in_flat_map. split.
  - intros [c' [Hc Hm]]. apply in_map_iff in Hm as [m' [E Hm]]. inversion E; subst; auto.
  - intros [Hc Hm]. exists c; split; auto. apply in_map_iff. exists m; auto.
Qed.

Lemma in_all_routes p c m :
  In (c, m) (all_routes p) <-> In c (p_controllers p) /\ In m (c_methods c).
Proof. apply in_pairs. Qed.

Lemma in_routes_of p c m : In (c, m) (routes_of p) <-> In (c, m) (all_routes p).
Proof.
  unfold routes_of, all_routes. rewrite !in_pairs, in_sort_controllers. tauto.
Qed.

(* ------------------------------------------------------------------ *)
(* security                                                            *)

Lemma effective_by_text_eq cfg c m : effective_by_text cfg c m = effective_security cfg c m.
Proof.
  unfold effective_by_text, effective_security, controller_security, default_security.
  destruct (m_security m); simpl; [|reflexivity].
  destruct (c_security c); simpl; reflexivity.
Qed.

Lemma effective_empty_iff cfg c m :
  effective_security cfg c m = [] <->
  m_security m = [] /\ c_security c = [] /\ cfg_default cfg = None.
Proof.
  unfold effective_security, controller_security, default_security.
  destruct (m_security m) as [|x xs]; [|split; [discriminate|intros [E _]; discriminate]].
  destruct (c_security c) as [|y ys]; [|split; [discriminate|intros [_ [E _]]; discriminate]].
  destruct (cfg_default cfg); split; try discriminate; auto.
  intros [_ [_ E]]; discriminate.
Qed.

(* the second defaulting step of generateOperationSecurity never fires: the reduction
   has already applied the default *)
Lemma op_security_spec cfg c m secu :
  op_security cfg c m = Some secu ->
  secu = map (fun x => (sc_name x, sc_scopes x)) (effective_security cfg c m) /\
  forallb (fun x => declared cfg (sc_name x)) (effective_security cfg c m) = true.
Proof.
  unfold op_security. destruct (effective_security cfg c m) as [|x xs] eqn:E.
  - apply effective_empty_iff in E as [_ [_ E]]. unfold default_security. rewrite E.
    simpl. intros H; inversion H; auto.
  - destruct (forallb _ (x :: xs)) eqn:F; intros H; inversion H; auto.
Qed.

Lemma op_security_some cfg c m :
  forallb (fun x => declared cfg (sc_name x)) (effective_security cfg c m) = true ->
  op_security cfg c m = Some (map (fun x => (sc_name x, sc_scopes x)) (effective_security cfg c m)).
Proof.
  intros F. unfold op_security. destruct (effective_security cfg c m) as [|x xs] eqn:E.
  - apply effective_empty_iff in E as [_ [_ E]]. unfold default_security. rewrite E. reflexivity.
  - rewrite F. reflexivity.
Qed.

(* ------------------------------------------------------------------ *)
(* one operation                                                       *)

Lemma mk_operation_fields cfg c m o :
  mk_operation cfg c m = Some o ->
  o_path o = remove_dup_slash (c_route c ++ m_route m) /\ o_verb o = m_verb m /\
  o_id o = m_name m /\ o_tags o = [c_tag c] /\ o_deprecated o = m_deprecated m /\
  op_security cfg c m = Some (o_security o) /\
  o_params o = gen_params (m_params m) /\ o_body o = gen_body (m_params m) /\
  o_responses o = gen_responses m.
Proof.
  unfold mk_operation. destruct (op_security cfg c m) as [secu|]; [|discriminate].
  intros H; inversion H; subst o; cbn. repeat split; reflexivity.
Qed.

Lemma mk_operation_witness cfg c m o :
  mk_operation cfg c m = Some o -> m_hidden m = false -> witness c m o = true.
Proof.
  intros H Hvis. apply mk_operation_fields in H as [Hp [Hv [Hi [Ht [Hd _]]]]].
  unfold witness. rewrite Hvis, Hp, Hv, Hi, Ht, Hd, !str_eqb_refl, Bool.eqb_reflx.
  rewrite (list_eqb_refl str_eqb str_eqb_refl). reflexivity.
Qed.

Lemma mk_operation_sec_matches cfg c m o :
  mk_operation cfg c m = Some o -> m_hidden m = false -> sec_matches c m cfg o = true.
Proof.
  intros H Hvis. apply mk_operation_fields in H as [Hp [Hv [Hi [_ [_ [Hs _]]]]]].
  apply op_security_spec in Hs as [Hs _].
  unfold sec_matches. rewrite Hvis, Hp, Hv, Hi, Hs, effective_by_text_eq, !str_eqb_refl.
  rewrite (list_eqb_refl requirement_eqb requirement_eqb_refl). reflexivity.
Qed.

(* ------------------------------------------------------------------ *)
(* what an accepted project guarantees                                 *)

Lemma spec_ops_some p d :
  spec_ops p = Some d ->
  enforce_ok p = true /\ spec_ops_unvalidated p = Some d /\ forallb path_ok d = true.
Proof.
  unfold spec_ops. destruct (enforce_ok p); simpl; [|discriminate].
  destruct (spec_ops_unvalidated p) as [d'|]; [|discriminate].
  destruct (lib_ok d') eqn:F; [|discriminate].
  unfold lib_ok in F. apply andb_true_iff in F as [F _].
  intros H; inversion H; subst; auto.
Qed.

Lemma spec_ops_origin p d o :
  spec_ops p = Some d -> In o d ->
  exists c m, In (c, m) (all_routes p) /\ m_hidden m = false /\
              mk_operation (p_config p) c m = Some o.
Proof.
  intros H Hin. apply spec_ops_some in H as [_ [H _]]. unfold spec_ops_unvalidated in H.
  destruct (fold_origin _ _ _ _ H o Hin) as [[]|[c [m [Hl Hr]]]].
  exists c, m. split; [apply in_routes_of; exact Hl|exact Hr].
Qed.

Lemma spec_ops_visible p d c m :
  spec_ops p = Some d -> In (c, m) (all_routes p) -> m_hidden m = false ->
  exists o1 o, mk_operation (p_config p) c m = Some o1 /\ In o d /\ same_slot o o1 = true.
Proof.
  intros H Hin Hvis. apply spec_ops_some in H as [_ [H _]]. unfold spec_ops_unvalidated in H.
  apply in_routes_of in Hin. eapply fold_visible; eauto.
Qed.

Lemma spec_ops_uniq p d : spec_ops p = Some d -> Uniq d.
Proof.
  intros H. apply spec_ops_some in H as [_ [H _]]. unfold spec_ops_unvalidated in H.
  eapply fold_uniq; eauto. apply uniq_nil.
Qed.

(* ------------------------------------------------------------------ *)
(* C01                                                                 *)

Definition P_C01 (p : project) (d : list operation) : Prop :=
  (forall o, In o d ->
     exists c m, In c (p_controllers p) /\ In m (c_methods c) /\ witness c m o = true) /\
  (forall c m, In c (p_controllers p) -> In m (c_methods c) -> m_hidden m = false ->
     exists o, In o d /\ o_verb o = m_verb m /\
               o_path o = remove_dup_slash (c_route c ++ m_route m)) /\
  (forall o, In o d -> List.length (filter (same_slot o) d) = 1).

Theorem prop_C01_spec p d : prop_C01 p d = true <-> P_C01 p d.
Proof.
  unfold prop_C01, P_C01. rewrite !andb_true_iff, !forallb_forall. split.
  - intros [[H1 H2] H3]. repeat split.
    + intros o Hin. specialize (H1 o Hin). apply existsb_exists in H1 as [[c m] [Hcm Hw]].
      apply in_all_routes in Hcm as [Hc Hm]. exists c, m; auto.
    + intros c m Hc Hm Hvis.
      assert (Hcm : In (c, m) (all_routes p)) by (apply in_all_routes; auto).
      specialize (H2 _ Hcm). cbn [fst snd] in H2. rewrite Hvis in H2. simpl in H2.
      apply existsb_exists in H2 as [o [Ho Hb]]. apply andb_true_iff in Hb as [Hv Hp].
      apply str_eqb_spec in Hv, Hp. exists o; auto.
    + intros o Hin. apply Nat.eqb_eq. apply H3; exact Hin.
  - intros [H1 [H2 H3]]. repeat split.
    + intros o Hin. destruct (H1 o Hin) as [c [m [Hc [Hm Hw]]]].
      apply existsb_exists. exists (c, m). split; [apply in_all_routes; auto|exact Hw].
    + intros [c m] Hcm. cbn [fst snd]. apply in_all_routes in Hcm as [Hc Hm].
      destruct (m_hidden m) eqn:Hvis; [reflexivity|]. simpl.
      destruct (H2 c m Hc Hm Hvis) as [o [Ho [Hv Hp]]].
      apply existsb_exists. exists o; split; auto.
      rewrite Hv, Hp, !str_eqb_refl. reflexivity.
    + intros o Hin. apply Nat.eqb_eq. apply H3; exact Hin.
Qed.

Theorem spec_ops_P_C01 p d : spec_ops p = Some d -> P_C01 p d.
Proof.
  intros H. repeat split.
  - intros o Hin. destruct (spec_ops_origin p d o H Hin) as [c [m [Hcm [Hvis Hmk]]]].
    apply in_all_routes in Hcm as [Hc Hm]. exists c, m. repeat split; auto.
    eapply mk_operation_witness; eauto.
  - intros c m Hc Hm Hvis.
    assert (Hcm : In (c, m) (all_routes p)) by (apply in_all_routes; auto).
    destruct (spec_ops_visible p d c m H Hcm Hvis) as [o1 [o [Hmk [Ho Hs]]]].
    apply mk_operation_fields in Hmk as [Hp [Hv _]]. apply same_slot_iff in Hs as [Hsp Hsv].
    exists o. repeat split; auto; congruence.
  - apply spec_ops_uniq with (p := p). exact H.
Qed.

Theorem spec_ops_C01 p d : spec_ops p = Some d -> prop_C01 p d = true.
Proof. intros H. apply prop_C01_spec, spec_ops_P_C01, H. Qed.

(* ------------------------------------------------------------------ *)
(* C04                                                                 *)

Theorem spec_ops_C04 p : prop_C04 p (spec_ops p) = true.
Proof.
  unfold prop_C04. destruct (spec_ops p) as [d|] eqn:H; [|reflexivity].
  rewrite !andb_true_iff. repeat split.
  - apply forallb_forall. intros o Hin.
    destruct (spec_ops_origin p d o H Hin) as [c [m [Hcm [Hvis Hmk]]]].
    apply existsb_exists. exists (c, m); split; auto. cbn [fst snd].
    eapply mk_operation_sec_matches; eauto.
  - apply forallb_forall. intros o Hin.
    destruct (spec_ops_origin p d o H Hin) as [c [m [Hcm [Hvis Hmk]]]].
    apply mk_operation_fields in Hmk as [_ [_ [_ [_ [_ [Hs _]]]]]].
    apply op_security_spec in Hs as [Hs Hd]. rewrite Hs.
    apply forallb_forall. intros r Hr. apply in_map_iff in Hr as [x [Ex Hx]]. subst r. simpl.
    rewrite forallb_forall in Hd. apply Hd; exact Hx.
  - apply forallb_forall. intros [c m] Hcm. cbn [fst snd].
    destruct (m_hidden m) eqn:Hvis; [reflexivity|]. simpl.
    destruct (spec_ops_visible p d c m H Hcm Hvis) as [o1 [o [Hmk _]]].
    apply mk_operation_fields in Hmk as [_ [_ [_ [_ [_ [Hs _]]]]]].
    apply op_security_spec in Hs as [_ Hd]. rewrite effective_by_text_eq. exact Hd.
  - apply spec_ops_some in H as [He _]. unfold enforce_ok in He.
    destruct (cfg_enforce (p_config p)); [|reflexivity]. simpl in *.
    apply forallb_forall. intros [c m] Hcm. cbn [fst snd].
    apply in_all_routes in Hcm as [Hc Hm]. rewrite forallb_forall in He.
    specialize (He c Hc). rewrite forallb_forall in He. rewrite effective_by_text_eq.
    apply He; exact Hm.
Qed.

(* ------------------------------------------------------------------ *)
(* C06: requiredness                                                   *)

Lemma split_on_nonempty sep p : split_on sep p <> [].
Proof.
  induction p as [|c t IH]; simpl; [discriminate|].
  destruct (beqb c sep); [discriminate|].
  destruct (split_on sep t); [contradiction|discriminate].
Qed.

Lemma split_on_app sep a b :
  split_on sep (a ++ sep :: b) = split_on sep a ++ split_on sep b.
Proof.
  induction a as [|c a IH]; simpl.
  - rewrite beqb_refl. reflexivity.
  - destruct (beqb c sep); rewrite IH; [reflexivity|].
    pose proof (split_on_nonempty sep a) as Hne.
    destruct (split_on sep a); [contradiction|reflexivity].
Qed.

Lemma has_required_tag_forced v :
  has_required_tag (if is_nil v then s "required"
                    else if has_required_tag v then v else v ++ s ",required") = true.
Proof.
  destruct (is_nil v); [reflexivity|].
  destruct (has_required_tag v) eqn:E; [exact E|].
  change (s ",required") with (comma :: s "required").
  unfold has_required_tag. rewrite split_on_app, existsb_app.
  apply orb_true_iff. right. reflexivity.
Qed.

Lemma param_required_by_text p : param_required p = required_by_text p.
Proof.
  unfold param_required, required_by_text, reduced_validator, explicitly_required.
  destruct (pa_ptr p); destruct (loc_eqb (pa_loc p) LPath); cbn [andb negb orb];
    try apply has_required_tag_forced.
  destruct (pa_validator p); reflexivity.
Qed.

Lemma gen_params_by_text ps :
  gen_params ps = map param_by_text (filter in_url_or_header ps).
Proof.
  unfold gen_params.
  assert (Hf : forall p, negb (pa_ctx p) && negb (loc_eqb (pa_loc p) LBody) &&
                         negb (loc_eqb (pa_loc p) LForm) = in_url_or_header p).
  { intros p. unfold in_url_or_header. destruct (pa_ctx p), (pa_loc p); reflexivity. }
  rewrite (filter_ext _ _ Hf). apply map_ext. intros p.
  unfold mk_oparam, param_by_text. rewrite param_required_by_text. reflexivity.
Qed.

(* ------------------------------------------------------------------ *)
(* C06: request body                                                   *)

Definition bodies (ps : list param) : list param :=
  filter (fun p => negb (pa_ctx p) && loc_eqb (pa_loc p) LBody) ps.
Definition forms (ps : list param) : list param :=
  filter (fun p => negb (pa_ctx p) && loc_eqb (pa_loc p) LForm) ps.

(* what ParamsValidator / the receiver visitor guarantee for an accepted method: at most one
   body parameter, never a body together with form fields, form field names distinct *)
Definition method_linked (ps : list param) : bool :=
  Nat.leb (List.length (bodies ps)) 1 &&
  (is_nil (bodies ps) || is_nil (forms ps)) &&
  distinct (map wire_name (forms ps)).

Definition params_linked (p : project) : bool :=
  forallb (fun cm => m_hidden (snd cm) || method_linked (m_params (snd cm))) (all_routes p).

Definition form_prop (p : param) : str * schema := (wire_name p, schema_of (declared_type p)).

Definition body_step (acc : obody) (p : param) : obody :=
  if pa_ctx p then acc else
  match pa_loc p with
  | LBody => BJson (param_required p) (schema_of (declared_type p))
  | LForm =>
      let prop := (wire_name p, schema_of (declared_type p)) in
      let req := if param_required p then [wire_name p] else [] in
      match acc with
      | BForm props rq =>
          BForm (filter (fun q => negb (str_eqb (fst q) (wire_name p))) props ++ [prop]) (rq ++ req)
      | BNone => BForm [prop] req
      | BJson _ _ => acc
      end
  | _ => acc
  end.

Lemma gen_body_fold ps : gen_body ps = fold_left body_step ps BNone.
Proof. reflexivity. Qed.

Lemma body_by_text_unfold ps b :
  body_by_text ps b =
  match bodies ps, forms ps, b with
  | [], [], BNone => true
  | [bp], [], BJson r sch =>
      Bool.eqb r (required_by_text bp) && schema_eqb sch (schema_of (declared_type bp))
  | [], _ :: _, BForm props req =>
      mset_eqb prop_eqb props (map form_prop (forms ps)) &&
      mset_eqb str_eqb req (map wire_name (filter required_by_text (forms ps)))
  | _, _, _ => false
  end.
Proof. reflexivity. Qed.

(* how one parameter contributes to the two filtered views *)
Lemma bodies_cons p ps :
  bodies (p :: ps) = if negb (pa_ctx p) && loc_eqb (pa_loc p) LBody then p :: bodies ps else bodies ps.
Proof. reflexivity. Qed.

Lemma forms_cons p ps :
  forms (p :: ps) = if negb (pa_ctx p) && loc_eqb (pa_loc p) LForm then p :: forms ps else forms ps.
Proof. reflexivity. Qed.

(* no body, no form: the accumulator is untouched *)
Lemma body_fold_inert : forall ps acc,
  bodies ps = [] -> forms ps = [] -> fold_left body_step ps acc = acc.
Proof.
  induction ps as [|p ps IH]; intros acc Hb Hf; [reflexivity|].
  rewrite bodies_cons in Hb. rewrite forms_cons in Hf. cbn [fold_left].
  unfold body_step at 2.
  destruct (pa_ctx p); cbn [negb andb] in *; [apply IH; auto|].
  destruct (pa_loc p); cbn [loc_eqb] in *; try discriminate; apply IH; auto.
Qed.

(* exactly one body parameter and no form fields *)
Lemma body_fold_json : forall ps acc bp,
  bodies ps = [bp] -> forms ps = [] ->
  fold_left body_step ps acc = BJson (param_required bp) (schema_of (declared_type bp)).
Proof.
  induction ps as [|p ps IH]; intros acc bp Hb Hf; [discriminate|].
  rewrite bodies_cons in Hb. rewrite forms_cons in Hf. cbn [fold_left].
  unfold body_step at 2.
  destruct (pa_ctx p); cbn [negb andb] in *; [apply IH; auto|].
  destruct (pa_loc p); cbn [loc_eqb] in *; try discriminate; try solve [apply IH; auto].
  inversion Hb; subst. apply body_fold_inert; auto.
Qed.

(* only form fields, names fresh: they are appended in order *)
Lemma body_fold_form : forall ps props rq,
  bodies ps = [] -> NoDup (map wire_name (forms ps)) ->
  (forall p, In p (forms ps) -> ~ In (wire_name p) (map fst props)) ->
  fold_left body_step ps (BForm props rq) =
  BForm (props ++ map form_prop (forms ps))
        (rq ++ map wire_name (filter param_required (forms ps))).
Proof.
  induction ps as [|p ps IH]; intros props rq Hb Hnd Hfresh.
  - simpl. rewrite !app_nil_r. reflexivity.
  - rewrite bodies_cons in Hb. rewrite forms_cons in Hnd, Hfresh. rewrite forms_cons.
    cbn [fold_left]. unfold body_step at 2.
    destruct (pa_ctx p); cbn [negb andb] in *; [apply IH; auto|].
    destruct (pa_loc p) eqn:El; cbn [loc_eqb] in *; try discriminate; try solve [apply IH; auto].
    cbn [map] in Hnd. apply NoDup_cons_iff in Hnd as [Hp Hnd].
    rewrite filter_all.
    + rewrite IH; auto.
      * rewrite <- app_assoc. cbn [map app filter]. f_equal.
        rewrite <- app_assoc. f_equal. destruct (param_required p); reflexivity.
      * intros q Hq Hin. rewrite map_app, in_app_iff in Hin. destruct Hin as [Hin|[E|[]]].
        -- apply (Hfresh q (or_intror Hq)); exact Hin.
        -- simpl in E. apply Hp. rewrite E. apply in_map. exact Hq.
    + intros q Hq. apply negb_true_iff, str_eqb_neq. intros E.
      apply (Hfresh p (or_introl eq_refl)). rewrite <- E. apply in_map. exact Hq.
Qed.

Lemma body_fold_none : forall ps,
  bodies ps = [] -> NoDup (map wire_name (forms ps)) ->
  fold_left body_step ps BNone =
  match forms ps with
  | [] => BNone
  | _ :: _ => BForm (map form_prop (forms ps)) (map wire_name (filter param_required (forms ps)))
  end.
Proof.
  induction ps as [|p ps IH]; intros Hb Hnd; [reflexivity|].
  rewrite bodies_cons in Hb. rewrite forms_cons in Hnd. rewrite forms_cons.
  cbn [fold_left]. unfold body_step at 2.
  destruct (pa_ctx p); cbn [negb andb] in *; [apply IH; auto|].
  destruct (pa_loc p) eqn:El; cbn [loc_eqb] in *; try discriminate; try solve [apply IH; auto].
  cbn [map] in Hnd. apply NoDup_cons_iff in Hnd as [Hp Hnd].
  rewrite body_fold_form; auto.
  - cbn [map app filter]. f_equal. destruct (param_required p); reflexivity.
  - intros q Hq [E|[]]. simpl in E. apply Hp. rewrite E. apply in_map. exact Hq.
Qed.

Lemma method_linked_spec ps :
  method_linked ps = true ->
  NoDup (map wire_name (forms ps)) /\
  ((bodies ps = [] ) \/ (exists bp, bodies ps = [bp] /\ forms ps = [])).
Proof.
  unfold method_linked. rewrite !andb_true_iff. intros [[Hle Hor] Hd].
  apply distinct_NoDup in Hd. split; auto.
  destruct (bodies ps) as [|bp [|bp' r]]; auto.
  - right. exists bp. split; auto. simpl in Hor. destruct (forms ps); [reflexivity|discriminate].
  - simpl in Hle. discriminate.
Qed.

Theorem body_by_text_gen_body ps :
  method_linked ps = true -> body_by_text ps (gen_body ps) = true.
Proof.
  intros H. apply method_linked_spec in H as [Hnd [Hb|[bp [Hb Hf]]]];
    rewrite body_by_text_unfold, gen_body_fold.
  - rewrite (body_fold_none ps Hb Hnd), Hb. destruct (forms ps) as [|f fs] eqn:Ef; [reflexivity|].
    rewrite (mset_eqb_refl prop_eqb prop_eqb_refl).
    rewrite (filter_ext _ _ param_required_by_text).
    rewrite (mset_eqb_refl str_eqb str_eqb_refl). reflexivity.
  - rewrite (body_fold_json ps BNone bp Hb Hf), Hb, Hf.
    rewrite param_required_by_text, Bool.eqb_reflx, schema_eqb_refl. reflexivity.
Qed.

(* ------------------------------------------------------------------ *)
(* C06: responses                                                      *)

Lemma existsb_Neqb c seen : existsb (N.eqb c) seen = true <-> In c seen.
Proof.
  rewrite existsb_exists. split.
  - intros [x [Hx E]]. apply N.eqb_eq in E. subst; exact Hx.
  - intros H. exists c. split; auto. apply N.eqb_refl.
Qed.

Lemma first_codes_in : forall l seen c d,
  In (c, d) (first_codes seen l) -> In (c, d) l /\ ~ In c seen.
Proof.
  induction l as [|[c0 d0] l IH]; intros seen c d Hin; simpl in *; [contradiction|].
  destruct (existsb (N.eqb c0) seen) eqn:E.
  - destruct (IH _ _ _ Hin); auto.
  - destruct Hin as [Heq|Hin].
    + inversion Heq; subst. split; auto. intros Hs. apply existsb_Neqb in Hs. congruence.
    + destruct (IH _ _ _ Hin) as [H1 H2]. split; auto. intros Hs. apply H2. right; exact Hs.
Qed.

Lemma first_codes_complete : forall l seen c,
  In c (map fst l) -> ~ In c seen -> In c (map fst (first_codes seen l)).
Proof.
  induction l as [|[c0 d0] l IH]; intros seen c Hin Hns; simpl in *; [contradiction|].
  destruct (existsb (N.eqb c0) seen) eqn:E.
  - apply existsb_Neqb in E. destruct Hin as [Heq|Hin]; [subst; contradiction|]. apply IH; auto.
  - simpl. destruct (N.eq_dec c0 c) as [Heq|Hne]; [left; exact Heq|]. right.
    destruct Hin as [Heq|Hin]; [contradiction|]. apply IH; auto.
    intros [Heq|Hs]; auto.
Qed.

Lemma first_codes_nodup : forall l seen, NoDup (map fst (first_codes seen l)).
Proof.
  induction l as [|[c0 d0] l IH]; intros seen; simpl; [constructor|].
  destruct (existsb (N.eqb c0) seen); [apply IH|].
  simpl. constructor; [|apply IH].
  intros Hin. apply in_map_iff in Hin as [[c d] [Ec Hin]]. simpl in Ec. subst c.
  apply first_codes_in in Hin as [_ Hns]. apply Hns. left; reflexivity.
Qed.

Definition want_content (m : method) : option schema :=
  match m_ret m with Some t => Some (schema_of (strip_ptr t)) | None => None end.

Definition err_resp (m : method) (cd : N * str) : oresp :=
  (fst cd, snd cd, Some (SRef (error_schema_name m))).

Lemma gen_responses_unfold m :
  gen_responses m =
  map (err_resp m) (filter (fun cd => negb (N.eqb (fst cd) (success_code m))) (first_codes [] (m_errors m)))
  ++ [(success_code m, success_descr m, want_content m)].
Proof. reflexivity. Qed.

Lemma gen_responses_codes m :
  map (fun r : oresp => fst (fst r)) (gen_responses m) =
  map fst (filter (fun cd => negb (N.eqb (fst cd) (success_code m))) (first_codes [] (m_errors m)))
  ++ [success_code m].
Proof.
  rewrite gen_responses_unfold, map_app, map_map. reflexivity.
Qed.

Lemma nodup_snoc {A} (l : list A) a : NoDup l -> ~ In a l -> NoDup (l ++ [a]).
Proof.
  induction l as [|x l IH]; simpl; intros Hnd Hn.
  - constructor; [intros []|constructor].
  - apply NoDup_cons_iff in Hnd as [Hx Hl]. constructor.
    + rewrite in_app_iff. intros [H|[H|[]]]; [contradiction|]. apply Hn. left; auto.
    + apply IH; auto.
Qed.

Lemma gen_responses_nodup m : NoDup (map (fun r : oresp => fst (fst r)) (gen_responses m)).
Proof.
  rewrite gen_responses_codes. apply nodup_snoc.
  - apply nodup_map_filter, first_codes_nodup.
  - intros Hin. apply in_map_iff in Hin as [cd [E Hin]]. apply filter_In in Hin as [_ Hne].
    apply negb_true_iff, N.eqb_neq in Hne. contradiction.
Qed.

Lemma responses_by_text_unfold m rs :
  responses_by_text m rs =
  existsb (fun r : oresp => let '(c, _, x) := r in
             N.eqb c (success_code m) &&
             match x, want_content m with
             | Some a, Some b => schema_eqb a b | None, None => true | _, _ => false end) rs &&
  forallb (fun cd : N * str => N.eqb (fst cd) (success_code m) ||
             existsb (fun r : oresp => let '(c, _, x) := r in
                        N.eqb c (fst cd) &&
                        match x with Some a => schema_eqb a (SRef (error_schema_name m)) | None => false end) rs)
          (m_errors m) &&
  forallb (fun r : oresp => let '(c, _, _) := r in
             N.eqb c (success_code m) || existsb (fun cd : N * str => N.eqb c (fst cd)) (m_errors m)) rs &&
  forallb (fun r : oresp =>
             Nat.eqb (List.length (filter (fun r' : oresp => N.eqb (fst (fst r)) (fst (fst r'))) rs)) 1) rs.
Proof. reflexivity. Qed.

Theorem responses_by_text_gen m : responses_by_text m (gen_responses m) = true.
Proof.
  rewrite responses_by_text_unfold, !andb_true_iff. repeat split.
  - apply existsb_exists. exists (success_code m, success_descr m, want_content m). split.
    + rewrite gen_responses_unfold. apply in_or_app. right; left; reflexivity.
    + rewrite N.eqb_refl. destruct (want_content m); simpl; auto. apply schema_eqb_refl.
  - apply forallb_forall. intros [c dsc] Hin. cbn [fst].
    destruct (N.eqb c (success_code m)) eqn:E; [reflexivity|]. simpl.
    assert (Hc : In c (map fst (first_codes [] (m_errors m)))).
    { apply first_codes_complete; [|intros []]. apply in_map_iff. exists (c, dsc); auto. }
    apply in_map_iff in Hc as [[c' d'] [Ec Hc]]. simpl in Ec. subst c'.
    apply existsb_exists. exists (err_resp m (c, d')). split.
    + rewrite gen_responses_unfold. apply in_or_app. left. apply in_map.
      apply filter_In. split; auto. cbn [fst]. rewrite E. reflexivity.
    + unfold err_resp. cbn [fst snd]. rewrite N.eqb_refl. simpl. apply str_eqb_refl.
  - apply forallb_forall. intros [[c dsc] x] Hin. rewrite gen_responses_unfold in Hin.
    apply in_app_or in Hin as [Hin|[Hin|[]]].
    + apply in_map_iff in Hin as [[c' d'] [E Hin]]. unfold err_resp in E. cbn [fst snd] in E.
      inversion E; subst. apply filter_In in Hin as [Hin _].
      apply first_codes_in in Hin as [Hin _]. apply orb_true_iff. right.
      apply existsb_exists. exists (c, dsc). split; auto. cbn [fst]. apply N.eqb_refl.
    + inversion Hin; subst. rewrite N.eqb_refl. reflexivity.
  - apply forallb_forall. intros r Hin. apply Nat.eqb_eq.
    apply (count_nodup (fun r : oresp => fst (fst r))); auto. apply gen_responses_nodup.
Qed.

(* ------------------------------------------------------------------ *)
(* C06                                                                 *)

Lemma mk_operation_sig_matches cfg c m o :
  mk_operation cfg c m = Some o -> m_hidden m = false ->
  method_linked (m_params m) = true -> sig_matches c m o = true.
Proof.
  intros H Hvis Hl.
  apply mk_operation_fields in H as [Hp [Hv [Hi [_ [_ [_ [Hpa [Hb Hr]]]]]]]].
  unfold sig_matches.
  rewrite Hvis, Hp, Hv, Hi, Hpa, Hb, Hr, !str_eqb_refl, gen_params_by_text.
  rewrite (list_eqb_refl oparam_eqb oparam_eqb_refl).
  rewrite (body_by_text_gen_body _ Hl), responses_by_text_gen. reflexivity.
Qed.

Theorem spec_ops_C06 p d :
  params_linked p = true -> spec_ops p = Some d -> prop_C06 p d = true.
Proof.
  intros Hl H. unfold prop_C06. apply forallb_forall. intros o Hin.
  destruct (spec_ops_origin p d o H Hin) as [c [m [Hcm [Hvis Hmk]]]].
  apply existsb_exists. exists (c, m); split; auto. cbn [fst snd].
  unfold params_linked in Hl. rewrite forallb_forall in Hl. specialize (Hl _ Hcm).
  cbn [fst snd] in Hl. rewrite Hvis in Hl. simpl in Hl.
  eapply mk_operation_sig_matches; eauto.
Qed.

(* ------------------------------------------------------------------ *)
(* the linking condition is exact for the body clause: whenever it fails, the emitted body
   is not the one the signature describes                              *)

Lemma schema_eqb_spec a b : schema_eqb a b = true <-> a = b.
Proof.
  revert b; induction a as [t f|n|x IH|x IH|]; intros [t' f'|n'|y|y|]; simpl;
    try (split; congruence).
  - rewrite andb_true_iff, !str_eqb_spec. split; [intros [-> ->]; reflexivity|].
    intros E; inversion E; auto.
  - rewrite str_eqb_spec. split; congruence.
  - rewrite IH. split; congruence.
  - rewrite IH. split; congruence.
Qed.

Lemma prop_eqb_spec a b : prop_eqb a b = true <-> a = b.
Proof.
  destruct a as [n x], b as [n' y]. unfold prop_eqb. simpl.
  rewrite andb_true_iff, str_eqb_spec, schema_eqb_spec. split.
  - intros [-> ->]; reflexivity.
  - intros E; inversion E; auto.
Qed.

Lemma remove_one_perm {A} (eqb : A -> A -> bool) (H : forall x y, eqb x y = true -> x = y) x :
  forall l l', remove_one eqb x l = Some l' -> Permutation l (x :: l').
Proof.
  induction l as [|y t IH]; intros l' E; simpl in E; [discriminate|].
  destruct (eqb x y) eqn:Exy.
  - apply H in Exy. subst y. inversion E; subst. apply Permutation_refl.
  - destruct (remove_one eqb x t) as [t'|]; [|discriminate]. inversion E; subst.
    eapply Permutation_trans; [apply perm_skip, IH; reflexivity|apply perm_swap].
Qed.

Lemma mset_eqb_perm {A} (eqb : A -> A -> bool) (H : forall x y, eqb x y = true -> x = y) :
  forall a b, mset_eqb eqb a b = true -> Permutation a b.
Proof.
  induction a as [|x a IH]; intros b E; simpl in E.
  - destruct b; [constructor|discriminate].
  - destruct (remove_one eqb x b) as [b'|] eqn:R; [|discriminate].
    apply (remove_one_perm eqb H) in R. apply Permutation_sym.
    eapply Permutation_trans; [exact R|]. apply perm_skip, Permutation_sym, IH, E.
Qed.

Definition names_ok (b : obody) : Prop :=
  match b with BForm props _ => NoDup (map fst props) | _ => True end.

Lemma body_step_names b p : names_ok b -> names_ok (body_step b p).
Proof.
  intros Hb. unfold body_step. destruct (pa_ctx p); [exact Hb|].
  destruct (pa_loc p); try exact Hb; [|exact I].
  destruct b as [|r x|props rq]; simpl in *; auto.
  - constructor; [intros []|constructor].
  - rewrite map_app. apply nodup_snoc.
    + apply nodup_map_filter; exact Hb.
    + intros Hin. apply in_map_iff in Hin as [q [Eq Hq]]. apply filter_In in Hq as [_ Hq].
      rewrite Eq, str_eqb_refl in Hq. discriminate.
Qed.

Lemma body_fold_names : forall ps b, names_ok b -> names_ok (fold_left body_step ps b).
Proof.
  induction ps as [|p ps IH]; intros b Hb; simpl; auto. apply IH, body_step_names, Hb.
Qed.

Theorem body_by_text_needs_linking ps :
  body_by_text ps (gen_body ps) = true -> method_linked ps = true.
Proof.
  intros H. rewrite body_by_text_unfold in H. unfold method_linked.
  pose proof (body_fold_names ps BNone I) as Hn. rewrite <- gen_body_fold in Hn.
  destruct (bodies ps) as [|bp [|bp' r]] eqn:Hb.
  - destruct (forms ps) as [|f fs] eqn:Hf; [reflexivity|].
    destruct (gen_body ps) as [|r x|props req]; try discriminate.
    apply andb_true_iff in H as [H _].
    apply (mset_eqb_perm prop_eqb (fun x y => proj1 (prop_eqb_spec x y))) in H.
    change (distinct (map wire_name (f :: fs)) = true). apply distinct_NoDup.
    replace (map wire_name (f :: fs)) with (map fst (map form_prop (f :: fs)))
      by (rewrite map_map; reflexivity).
    eapply Permutation_NoDup; [apply Permutation_map; exact H|exact Hn].
  - destruct (forms ps); [reflexivity|]. destruct (gen_body ps); discriminate.
  - destruct (forms ps); destruct (gen_body ps); discriminate.
Qed.

Theorem body_by_text_exact ps : body_by_text ps (gen_body ps) = method_linked ps.
Proof.
  destruct (method_linked ps) eqn:E; [apply body_by_text_gen_body; exact E|].
  destruct (body_by_text ps (gen_body ps)) eqn:B; [|reflexivity].
  apply body_by_text_needs_linking in B. congruence.
Qed.

(* ------------------------------------------------------------------ *)
(* C06 without the linking precondition is false of the model: each of the three clauses
   of [method_linked] is needed                                        *)

Open Scope string_scope.
Open Scope list_scope.

Definition cx_param (n : string) (l : loc) (alias : option string) : param :=
  {| pa_name := s n; pa_ctx := false; pa_loc := l;
     pa_alias := match alias with Some a => Some (s a) | None => None end;
     pa_type := s "string"; pa_ptr := false; pa_slice := false; pa_validator := None |}.

Definition cx_project (ps : list param) : project :=
  {| p_config := {| cfg_schemes := []; cfg_default := None; cfg_enforce := false |};
     p_controllers :=
       [ {| c_name := s "C"; c_pkg := s "p"; c_tag := s "C"; c_route := s "/c"; c_security := [];
            c_methods :=
              [ {| m_name := s "M"; m_verb := s "POST"; m_route := s "/m"; m_hidden := false;
                   m_deprecated := false; m_security := []; m_params := ps; m_ret := None;
                   m_errtype := s "error"; m_response := None; m_errors := []; m_descr := [] |} ] |} ] |}.

Definition doc_of (p : project) : list operation :=
  match spec_ops p with Some d => d | None => [] end.

(* two form fields with one wire name: the document has one property, the signature two *)
Definition cx_dup_form : project :=
  cx_project [cx_param "a" LForm (Some "x"); cx_param "b" LForm (Some "x")].
(* two body parameters: the last one wins silently *)
Definition cx_two_bodies : project :=
  cx_project [cx_param "a" LBody None; cx_param "b" LBody None].
(* a body and a form field: the form field is dropped *)
Definition cx_body_and_form : project :=
  cx_project [cx_param "a" LBody None; cx_param "b" LForm None].

Theorem C06_unconditional_refuted :
  exists p d, spec_ops p = Some d /\ prop_C06 p d = false.
Proof. exists cx_dup_form, (doc_of cx_dup_form). split; vm_compute; reflexivity. Qed.

(* every clause of [method_linked] is needed: each project is accepted by the model, violates
   exactly one clause, and its document fails the oracle *)
Example cx_each_clause_needed :
  (spec_ops cx_dup_form = Some (doc_of cx_dup_form) /\
   prop_C06 cx_dup_form (doc_of cx_dup_form) = false /\ params_linked cx_dup_form = false) /\
  (spec_ops cx_two_bodies = Some (doc_of cx_two_bodies) /\
   prop_C06 cx_two_bodies (doc_of cx_two_bodies) = false /\ params_linked cx_two_bodies = false) /\
  (spec_ops cx_body_and_form = Some (doc_of cx_body_and_form) /\
   prop_C06 cx_body_and_form (doc_of cx_body_and_form) = false /\
   params_linked cx_body_and_form = false).
Proof. vm_compute. repeat split. Qed.

(* what the model emits for them *)
Example cx_bodies :
  map o_body (doc_of cx_dup_form) = [BForm [(s "x", SType (s "string") [])] [s "x"; s "x"]] /\
  map o_body (doc_of cx_two_bodies) = [BJson true (SType (s "string") [])] /\
  map o_body (doc_of cx_body_and_form) = [BJson true (SType (s "string") [])].
Proof. vm_compute. repeat split. Qed.

(* ------------------------------------------------------------------ *)
(* non-vacuity: a concrete project                                     *)

Definition dp (n : string) (ctx : bool) (l : loc) (alias : option string) (ty : string)
           (ptr slice : bool) (v : option string) : param :=
  {| pa_name := s n; pa_ctx := ctx; pa_loc := l;
     pa_alias := match alias with Some a => Some (s a) | None => None end;
     pa_type := s ty; pa_ptr := ptr; pa_slice := slice;
     pa_validator := match v with Some x => Some (s x) | None => None end |}.

Definition dsec (n : string) (scopes : list string) : sec :=
  {| sc_name := s n; sc_scopes := map s scopes |}.

Definition demo_project : project :=
  {| p_config := {| cfg_schemes := [s "basic"; s "oauth"];
                    cfg_default := Some (dsec "basic" []); cfg_enforce := true |};
     p_controllers :=
       [ {| c_name := s "Users"; c_pkg := s "api"; c_tag := s "users"; c_route := s "/users";
            c_security := [dsec "oauth" ["read"]];
            c_methods :=
              [ {| m_name := s "GetOld"; m_verb := s "GET"; m_route := s "/{id}"; m_hidden := false;
                   m_deprecated := true; m_security := [];
                   m_params := [dp "id" false LPath None "string" false false None];
                   m_ret := Some (s "User"); m_errtype := s "error"; m_response := None;
                   m_errors := []; m_descr := s "replaced by the next one" |};
                {| m_name := s "Get"; m_verb := s "GET"; m_route := s "/{id}"; m_hidden := false;
                   m_deprecated := false; m_security := [];
                   m_params := [dp "ctx" true LQuery None "context.Context" false false None;
                                dp "id" false LPath None "string" false false None;
                                dp "q" false LQuery None "int" true false None;
                                dp "h" false LHeader (Some "X-Trace") "string" true false
                                   (Some "min=1,required");
                                dp "tags" false LQuery None "string" false true (Some "max=3")];
                   m_ret := Some (s "User"); m_errtype := s "error";
                   m_response := Some (200%N, s "ok");
                   m_errors := [(404%N, s "not found"); (500%N, s "boom"); (404%N, s "again")];
                   m_descr := s "get a user" |};
                {| m_name := s "Create"; m_verb := s "POST"; m_route := s "//"; m_hidden := false;
                   m_deprecated := false;
                   m_security := [dsec "basic" []; dsec "oauth" ["write"; "admin"]];
                   m_params := [dp "u" false LBody None "User" true false None];
                   m_ret := Some (s "*User"); m_errtype := s "ApiError";
                   m_response := Some (201%N, s "created");
                   m_errors := [(201%N, s "shadowed by success"); (409%N, s "conflict")];
                   m_descr := [] |};
                {| m_name := s "Secret"; m_verb := s "GET"; m_route := s "/secret"; m_hidden := true;
                   m_deprecated := false; m_security := [dsec "undeclared" []];
                   m_params := [dp "a" false LBody None "X" false false None;
                                dp "b" false LBody None "Y" false false None];
                   m_ret := None; m_errtype := s "error"; m_response := None;
                   m_errors := []; m_descr := [] |} ] |};
         {| c_name := s "Files"; c_pkg := s "api"; c_tag := s "files"; c_route := s "/files/";
            c_security := [];
            c_methods :=
              [ {| m_name := s "Upload"; m_verb := s "POST"; m_route := s "/upload"; m_hidden := false;
                   m_deprecated := false; m_security := [];
                   m_params := [dp "name" false LForm (Some "file_name") "string" false false None;
                                dp "size" false LForm None "int64" true false None;
                                dp "labels" false LForm None "string" true true (Some "required")];
                   m_ret := None; m_errtype := s "error"; m_response := None;
                   m_errors := [(400%N, s "bad")]; m_descr := s "upload" |};
                {| m_name := s "Delete"; m_verb := s "DELETE"; m_route := s "/{id}"; m_hidden := false;
                   m_deprecated := true; m_security := [dsec "oauth" []];
                   m_params := [dp "id" false LPath None "int" false false None];
                   m_ret := None; m_errtype := s "error"; m_response := None;
                   m_errors := []; m_descr := [] |} ] |} ] |}.

Definition demo_doc : list operation := doc_of demo_project.

Definition with_security (o : operation) (secu : list requirement) : operation :=
  {| o_path := o_path o; o_verb := o_verb o; o_id := o_id o; o_tags := o_tags o;
     o_deprecated := o_deprecated o; o_descr := o_descr o; o_security := secu;
     o_params := o_params o; o_body := o_body o; o_responses := o_responses o |}.

Definition with_id (o : operation) (id : str) : operation :=
  {| o_path := o_path o; o_verb := o_verb o; o_id := id; o_tags := o_tags o;
     o_deprecated := o_deprecated o; o_descr := o_descr o; o_security := o_security o;
     o_params := o_params o; o_body := o_body o; o_responses := o_responses o |}.

Definition with_sig (o : operation) (ps : list oparam) (b : obody) (rs : list oresp) : operation :=
  {| o_path := o_path o; o_verb := o_verb o; o_id := o_id o; o_tags := o_tags o;
     o_deprecated := o_deprecated o; o_descr := o_descr o; o_security := o_security o;
     o_params := ps; o_body := b; o_responses := rs |}.

Definition flip_required (q : oparam) : oparam :=
  {| op_name := op_name q; op_in := op_in q; op_required := negb (op_required q);
     op_schema := op_schema q |}.

Example demo_accepted :
  spec_ops demo_project = Some demo_doc /\
  map (fun o => (o_verb o, o_path o, o_id o)) demo_doc =
    [(s "POST", s "/files/upload", s "Upload"); (s "DELETE", s "/files/{id}", s "Delete");
     (s "GET", s "/users/{id}", s "Get"); (s "POST", s "/users/", s "Create")] /\
  params_linked demo_project = true.
Proof. vm_compute. repeat split. Qed.

Example demo_C01 :
  spec_ops demo_project = Some demo_doc /\ List.length demo_doc = 4 /\
  prop_C01 demo_project demo_doc = true /\
  prop_C01 demo_project (tl demo_doc) = false /\               (* a route without operation *)
  prop_C01 demo_project (demo_doc ++ demo_doc) = false /\       (* two operations in one slot *)
  prop_C01 demo_project (map (fun o => with_id o (s "GetOld")) demo_doc) = false.  (* wrong labels *)
Proof. vm_compute. repeat split. Qed.

Example demo_C04 :
  spec_ops demo_project = Some demo_doc /\ List.length demo_doc = 4 /\
  map o_security demo_doc =
    [[(s "basic", [])]; [(s "oauth", [])]; [(s "oauth", [s "read"])];
     [(s "basic", []); (s "oauth", [s "write"; s "admin"])]] /\
  prop_C04 demo_project (spec_ops demo_project) = true /\
  (* security dropped from the document *)
  prop_C04 demo_project (Some (map (fun o => with_security o []) demo_doc)) = false /\
  (* alternatives reordered *)
  prop_C04 demo_project (Some (map (fun o => with_security o (rev (o_security o))) demo_doc)) = false /\
  (* an undeclared scheme in the document *)
  prop_C04 demo_project
    (Some (map (fun o => with_security o (o_security o ++ [(s "undeclared", [])])) demo_doc)) = false.
Proof. vm_compute. repeat split. Qed.

Example demo_C06 :
  spec_ops demo_project = Some demo_doc /\ List.length demo_doc = 4 /\
  params_linked demo_project = true /\
  prop_C06 demo_project demo_doc = true /\
  (* requiredness flipped *)
  prop_C06 demo_project
    (map (fun o => with_sig o (map flip_required (o_params o)) (o_body o) (o_responses o)) demo_doc) = false /\
  (* request bodies dropped *)
  prop_C06 demo_project
    (map (fun o => with_sig o (o_params o) BNone (o_responses o)) demo_doc) = false /\
  (* an error response dropped *)
  prop_C06 demo_project
    (map (fun o => with_sig o (o_params o) (o_body o) [last (o_responses o) (0%N, [], None)]) demo_doc) = false /\
  (* an undeclared response added *)
  prop_C06 demo_project
    (map (fun o => with_sig o (o_params o) (o_body o) ((418%N, [], None) :: o_responses o)) demo_doc) = false.
Proof. vm_compute. repeat split. Qed.
