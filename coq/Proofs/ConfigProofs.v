(* Proofs for Model/Config.v (C20). *)
From Gleece Require Import Base.Bytes Model.Config.
From Coq Require Import String.
Open Scope list_scope.

(* ------------------------------------------------------------------ equalities *)

Lemma seg_eqb_spec a b : seg_eqb a b = true <-> a = b.
Proof.
  destruct a, b; simpl; try (split; [discriminate | intros H; inversion H]);
    rewrite str_eqb_spec; split; intros H; try congruence; inversion H; reflexivity.
Qed.

Lemma path_eqb_spec a b : path_eqb a b = true <-> a = b.
Proof. apply list_eqb_spec, seg_eqb_spec. Qed.

Lemma rule_eqb_true a b : rule_eqb a b = true -> a = b.
Proof.
  destruct a, b; simpl; try discriminate; try reflexivity.
  - intros H. apply (list_eqb_spec str_eqb str_eqb_spec) in H. congruence.
  - intros H. apply N.eqb_eq in H. congruence.
  - rewrite andb_true_iff, !str_eqb_spec. intros [-> ->]. reflexivity.
Qed.

Lemma mem_str_spec x l : mem str_eqb x l = true <-> In x l.
Proof. apply mem_spec, str_eqb_spec. Qed.

(* ------------------------------------------------------------------ rule lists *)

Lemma eval_before_dive o rs i : eval o (before_dive rs) i = eval o rs i.
Proof.
  induction rs as [|r rs IH]; [reflexivity|].
  destruct r; cbn [before_dive eval]; try rewrite IH; reflexivity.
Qed.

Lemma before_dive_no_dive rs r : In r (before_dive rs) -> is_dive r = false.
Proof.
  induction rs as [|x rs IH]; [intros []|].
  destruct x; cbn [before_dive]; try (intros [<-|H]; [reflexivity | auto]).
  intros [].
Qed.

(* a rule list without omitempty and dive passes exactly when every rule passes *)
Lemma eval_body o b i :
  no_omit b = true -> (forall r, In r b -> is_dive r = false) ->
  (eval o b i = None <-> forallb (fun r => check o r i) b = true).
Proof.
  induction b as [|r b IH]; intros Ho Hd; [split; reflexivity|].
  cbn [no_omit forallb] in Ho. apply andb_true_iff in Ho. destruct Ho as [Hr Ho].
  assert (Hdr : is_dive r = false) by (apply Hd; left; reflexivity).
  assert (IH' := IH Ho (fun r' H => Hd r' (or_intror H))).
  destruct r; try discriminate Hr; try discriminate Hdr; cbn [eval forallb];
    (destruct (check o _ i) eqn:E; [rewrite andb_true_l; exact IH' | split; discriminate]).
Qed.

Lemma split_guard_spec o rs i g b :
  split_guard rs = (g, b) -> no_omit b = true ->
  (eval o rs i = None <->
   (g = true /\ has_value i = false) \/ forallb (fun r => check o r i) b = true).
Proof.
  intros Hs Hb.
  assert (Hbody : forall l, b = before_dive l ->
            (eval o l i = None <-> forallb (fun r => check o r i) b = true)).
  { intros l ->. rewrite <- eval_before_dive. apply eval_body; [exact Hb|].
    intros r; apply before_dive_no_dive. }
  destruct rs as [|r rs].
  - inversion Hs; subst. cbn. split; auto.
  - destruct r; cbn [split_guard] in Hs; inversion Hs; subst g b; clear Hs;
      try (match goal with |- eval o ?l i = None <-> _ => rewrite (Hbody l eq_refl) end;
           split; [intros H; right; exact H | intros [[H _]|H]; [discriminate H | exact H]]).
    (* omitempty first *)
    cbn [eval]. destruct (has_value i) eqn:Hv.
    + rewrite (Hbody rs eq_refl). split; [intros H; right; exact H | intros [[_ H]|H]; [discriminate H | exact H]].
    + split; [intros _; left; split; reflexivity | reflexivity].
Qed.

(* the claim about the oracle-decided enum validators: nothing outside the enumeration passes *)
Definition enum_sound (o : oracle) : Prop :=
  forall n p alts v, In (n, p, alts) enum_claims -> o n p v = true -> In v alts.

Lemma claim_for_in n p A : claim_for n p = Some A -> In (n, p, A) enum_claims.
Proof.
  unfold claim_for. destruct (find _ enum_claims) as [c|] eqn:E; [|discriminate].
  intros H. injection H as <-. apply find_some in E. destruct E as [Hin Hk].
  apply andb_true_iff in Hk. destruct Hk as [Hn Hp]. apply str_eqb_spec in Hn. apply str_eqb_spec in Hp.
  destruct c as [[n' p'] A']. cbn [fst snd] in *. subst. exact Hin.
Qed.

(* what the check evaluates is the claim restricted to the strings it asked about *)
Lemma enum_sound_on_spec o vals :
  enum_sound_on o vals = true <->
  forall n p alts v, In (n, p, alts) enum_claims -> In v vals -> o n p v = true -> In v alts.
Proof.
  unfold enum_sound_on. rewrite forallb_forall. split.
  - intros H n p alts v Hc Hv Ho. specialize (H _ Hc). cbn [fst snd] in H.
    rewrite forallb_forall in H. specialize (H v Hv). rewrite Ho in H. cbn [implb] in H.
    apply mem_str_spec. exact H.
  - intros H [[n p] alts] Hc. cbn [fst snd]. apply forallb_forall. intros v Hv.
    destruct (o n p v) eqn:Ho; [|reflexivity]. cbn [implb]. apply mem_str_spec. exact (H n p alts v Hc Hv Ho).
Qed.

Lemma enum_sound_on_all o : enum_sound o -> forall vals, enum_sound_on o vals = true.
Proof. intros H vals. apply enum_sound_on_spec. intros n p alts v Hc _ Ho. exact (H n p alts v Hc Ho). Qed.

Lemma atom_implies_sound a d : atom_implies a d = true ->
  forall o, enum_sound o -> forall i, check o a i = true -> check o d i = true.
Proof.
  unfold atom_implies. intros H o Henum i Hc.
  apply orb_true_iff in H. destruct H as [H|H].
  - apply rule_eqb_true in H. subst. exact Hc.
  - destruct a, d; try discriminate H; cbn [check] in *.
    + apply mem_str_spec in Hc. apply mem_str_spec.
      rewrite forallb_forall in H. apply mem_str_spec. apply H. exact Hc.
    + apply N.leb_le in H. apply N.leb_le in Hc. apply N.leb_le. lia.
    + destruct (claim_for name param) as [A|] eqn:EA; [|discriminate H].
      apply claim_for_in in EA. rewrite forallb_forall in H.
      apply H. exact (Henum _ _ _ _ EA Hc).
Qed.

(* the once-proved fact behind the per-run obligation, for one field *)
Lemma rules_imply_sound a d : rules_imply a d = true ->
  forall o, enum_sound o -> forall i, eval o a i = None -> eval o d i = None.
Proof.
  unfold rules_imply. intros H o Henum i Ha.
  destruct (split_guard a) as [ga ba] eqn:Ea. destruct (split_guard d) as [gd bd] eqn:Ed.
  repeat (apply andb_true_iff in H; destruct H as [H ?]).
  rename H into Hoa. rename H2 into Hod. rename H1 into Hg. rename H0 into Hall.
  apply (split_guard_spec o a i ga ba Ea Hoa) in Ha.
  apply (split_guard_spec o d i gd bd Ed Hod).
  destruct Ha as [[Hga Hv]|Hpass].
  - left. subst ga. destruct gd; [split; [reflexivity | exact Hv] | discriminate Hg].
  - right. apply forallb_forall. intros rd Hrd.
    rewrite forallb_forall in Hall. specialize (Hall rd Hrd).
    apply existsb_exists in Hall. destruct Hall as [ra [Hra Himp]].
    apply (atom_implies_sound ra rd Himp o Henum).
    rewrite forallb_forall in Hpass. apply Hpass. exact Hra.
Qed.

(* ------------------------------------------------------------------ violates *)

(* some declared rule list fails on some value its path denotes in the document *)
Definition violates (o : oracle) (d : schema) (cfg : jv) : Prop :=
  exists e i, In e d /\ In i (instances (e_path e) (Some cfg)) /\ eval o (e_eff e) i <> None.

Lemma entry_errors_nonempty o cfg e :
  entry_errors o cfg e <> [] <->
  exists i, In i (instances (e_path e) (Some cfg)) /\ eval o (e_eff e) i <> None.
Proof.
  unfold entry_errors. split.
  - intros H. destruct (flat_map _ _) as [|x l] eqn:E; [contradiction|].
    assert (Hin : In x (x :: l)) by (left; reflexivity). rewrite <- E in Hin.
    apply in_flat_map in Hin. destruct Hin as [i [Hi Hx]]. exists i. split; [exact Hi|].
    destruct (eval o (e_eff e) i); [discriminate | destruct Hx].
  - intros [i [Hi He]] E.
    destruct (eval o (e_eff e) i) as [t|] eqn:Et; [|contradiction].
    assert (Hin : In (e_go e, t) (flat_map (fun i => match eval o (e_eff e) i with
                      Some t => [(e_go e, t)] | None => [] end) (instances (e_path e) (Some cfg)))).
    { apply in_flat_map. exists i. split; [exact Hi|]. rewrite Et. left; reflexivity. }
    rewrite E in Hin. destruct Hin.
Qed.

Lemma entry_errors_names o cfg e x : In x (entry_errors o cfg e) -> fst x = e_go e.
Proof.
  unfold entry_errors. intros H. apply in_flat_map in H. destruct H as [i [_ H]].
  destruct (eval o (e_eff e) i); [destruct H as [<-|[]]; reflexivity | destruct H].
Qed.

Lemma is_nil_false {A} (l : list A) : negb (is_nil l) = true <-> l <> [].
Proof. destruct l; simpl; split; congruence. Qed.

Lemma violated_entries_spec o d cfg e :
  In e (violated_entries o d cfg) <->
  In e d /\ exists i, In i (instances (e_path e) (Some cfg)) /\ eval o (e_eff e) i <> None.
Proof.
  unfold violated_entries. rewrite filter_In, is_nil_false, entry_errors_nonempty. reflexivity.
Qed.

Lemma violatesb_spec o d cfg : violatesb o d cfg = true <-> violates o d cfg.
Proof.
  unfold violatesb, violates. rewrite is_nil_false. split.
  - intros H. destruct (violated_entries o d cfg) as [|e l] eqn:E; [contradiction|].
    assert (Hin : In e (violated_entries o d cfg)) by (rewrite E; left; reflexivity).
    apply violated_entries_spec in Hin. destruct Hin as [Hd [i [Hi He]]]. exists e, i. auto.
  - intros [e [i [Hd [Hi He]]]] E.
    assert (Hin : In e (violated_entries o d cfg)) by (apply violated_entries_spec; eauto).
    rewrite E in Hin. destruct Hin.
Qed.

(* ------------------------------------------------------------------ schema_at_least *)

Lemma entry_at_some a p ea : entry_at a p = Some ea -> In ea a /\ e_path ea = p.
Proof.
  unfold entry_at. intros H. apply find_some in H. destruct H as [Hin Hp].
  apply path_eqb_spec in Hp. auto.
Qed.

(* a violated declared field is reported, under the name the running code gives it *)
Lemma covered_reports o d a cfg ed :
  schema_at_least d a = true -> enum_sound o -> In ed (violated_entries o d cfg) ->
  exists t, In (name_in a ed, t) (all_errors o a cfg).
Proof.
  intros Hs Henum Hv. apply violated_entries_spec in Hv. destruct Hv as [Hd [i [Hi He]]].
  unfold schema_at_least in Hs. rewrite forallb_forall in Hs. specialize (Hs ed Hd).
  unfold covered in Hs. unfold name_in.
  destruct (entry_at a (e_path ed)) as [ea|] eqn:Eat; [|discriminate Hs].
  apply andb_true_iff in Hs. destruct Hs as [Hlive Himp].
  apply entry_at_some in Eat. destruct Eat as [Hina Hp].
  assert (Hea : eval o (e_eff ea) i <> None).
  { intros Hn. apply He. apply (rules_imply_sound _ _ Himp o Henum i Hn). }
  destruct (eval o (e_eff ea) i) as [t|] eqn:Et; [|contradiction].
  exists t. unfold all_errors. apply in_flat_map. exists ea. split.
  - unfold live_part. cbv zeta. apply filter_In. split; [exact Hina | exact Hlive].
  - unfold entry_errors. apply in_flat_map. exists i. split; [rewrite Hp; exact Hi|].
    rewrite Et. left; reflexivity.
Qed.

Theorem schema_at_least_sound : forall d a,
  schema_at_least d a = true ->
  forall o cfg, enum_sound o -> violates o d cfg -> validate o a cfg <> Valid.
Proof.
  intros d a Hs o cfg Henum Hv. apply violatesb_spec in Hv. unfold violatesb in Hv.
  apply is_nil_false in Hv.
  destruct (violated_entries o d cfg) as [|ed l] eqn:E; [contradiction|].
  assert (Hin : In ed (violated_entries o d cfg)) by (rewrite E; left; reflexivity).
  destruct (covered_reports o d a cfg ed Hs Henum Hin) as [t Ht].
  unfold validate. destruct (decode_ok a cfg); [|discriminate].
  destruct (all_errors o a cfg); [destruct Ht | discriminate].
Qed.

(* and the message names every violated field *)
Theorem schema_at_least_names : forall d a,
  schema_at_least d a = true ->
  forall o cfg errs, enum_sound o -> validate o a cfg = Invalid errs ->
  forall ed, In ed (violated_entries o d cfg) -> In (name_in a ed) (map fst errs).
Proof.
  intros d a Hs o cfg errs Henum Hval ed Hin.
  destruct (covered_reports o d a cfg ed Hs Henum Hin) as [t Ht].
  unfold validate in Hval. destruct (decode_ok a cfg); [|discriminate].
  destruct (all_errors o a cfg) as [|x l] eqn:E; [discriminate|].
  inversion Hval; subst errs. apply in_map_iff. exists (name_in a ed, t). auto.
Qed.

(* ------------------------------------------------------------------ commands: rejection *)

Theorem cmd_rejects : forall o a c w cfg,
  validate o a cfg <> Valid ->
  cmd o a c w cfg = Rejected (validate o a cfg) /\
  written (cmd o a c w cfg) = [] /\ analysis_started (cmd o a c w cfg) = false.
Proof.
  intros o a c w cfg H. unfold cmd. destruct (validate o a cfg); [contradiction | |]; auto.
Qed.

Theorem cmd_accepts : forall o a c w cfg,
  validate o a cfg = Valid -> analysis_started (cmd o a c w cfg) = true.
Proof.
  intros o a c w cfg H. unfold cmd. rewrite H.
  destruct (w_analysis_ok w); [|reflexivity]. destruct c; cbn; try reflexivity;
    destruct (w_spec_ok w); reflexivity.
Qed.

(* a document violating a declared constraint, given the per-run obligation *)
Theorem reject_declared : forall a, schema_at_least declared_schema a = true ->
  forall o c w cfg, enum_sound o -> violates o declared_schema cfg ->
  exists v, cmd o a c w cfg = Rejected v /\ v <> Valid /\
            written (cmd o a c w cfg) = [] /\ analysis_started (cmd o a c w cfg) = false /\
            (forall errs, v = Invalid errs ->
               forall ed, In ed (violated_entries o declared_schema cfg) -> In (name_in a ed) (map fst errs)).
Proof.
  intros a Hs o c w cfg Henum Hv.
  assert (Hn := schema_at_least_sound _ _ Hs o cfg Henum Hv).
  destruct (cmd_rejects o a c w cfg Hn) as [Hc [Hw Hst]].
  exists (validate o a cfg). repeat split; auto.
  intros errs He. apply (schema_at_least_names _ _ Hs o cfg errs Henum He).
Qed.

(* ------------------------------------------------------------------ commands: honoured *)

Lemma instances_fld ks v : instances (fld ks) v = [get_path ks v].
Proof. revert v. induction ks as [|k ks IH]; intros v; [reflexivity|]. cbn. apply IH. Qed.

Lemma mset_eqb_refl {A} (eqb : A -> A -> bool) (Hr : forall x, eqb x x = true) l : mset_eqb eqb l l = true.
Proof. induction l as [|x l IH]; [reflexivity|]. cbn. rewrite Hr. exact IH. Qed.

Lemma engine_import_known e : mem str_eqb e engines = true -> engine_import e <> [].
Proof.
  unfold engines, engine_import. cbn [mem].
  destruct (str_eqb e (s "gin")); [discriminate|].
  destruct (str_eqb e (s "echo")); [discriminate|].
  destruct (str_eqb e (s "mux")); [discriminate|].
  destruct (str_eqb e (s "fiber")); [discriminate|].
  destruct (str_eqb e (s "chi")); [discriminate|].
  cbn. discriminate.
Qed.

Definition engine_entry : entry :=
  D (fld [k_routes; s "engine"]) (s "Engine") KStr [RRequired; ROneof engines].

Lemma engine_entry_declared : In engine_entry declared_schema.
Proof. unfold declared_schema. right. left. reflexivity. Qed.

(* a document not violating the declared schema names one of the five engines *)
Lemma engine_known o cfg : violatesb o declared_schema cfg = false ->
  mem str_eqb (str_at [k_routes; s "engine"] cfg) engines = true.
Proof.
  intros H. destruct (mem str_eqb (str_at [k_routes; s "engine"] cfg) engines) eqn:E; [reflexivity|].
  exfalso. assert (Hv : violatesb o declared_schema cfg = true); [|congruence].
  apply violatesb_spec. exists engine_entry, (get_path [k_routes; s "engine"] (Some cfg)).
  split; [exact engine_entry_declared|]. split.
  - change (e_path engine_entry) with (fld [k_routes; s "engine"]). rewrite instances_fld. left; reflexivity.
  - change (e_eff engine_entry) with [RRequired; ROneof engines]. cbn [eval check].
    destruct (has_value _); [|discriminate].
    unfold str_at in E. rewrite E. discriminate.
Qed.

Lemma selected_refl w cfg : mset_eqb str_eqb (selected_ctrls w cfg) (selected_ctrls w cfg) = true.
Proof. apply mset_eqb_refl, str_eqb_refl. Qed.

Ltac closed_str_eqb :=
  repeat match goal with
  | |- context [str_eqb ?a ?b] =>
      let v := eval vm_compute in (str_eqb a b) in
      match v with
      | true => change (str_eqb a b) with true
      | false => change (str_eqb a b) with false
      end; cbv iota
  end.

Lemma honoured_routes w cfg :
  engine_import (str_at [k_routes; s "engine"] cfg) <> [] ->
  honoured_artifact w cfg (routes_artifact w cfg) = true.
Proof.
  intros He. unfold honoured_artifact, routes_artifact.
  cbn [a_kind a_path a_mode a_attrs a_ctrls a_schemes].
  rewrite selected_refl. cbn [andb].
  unfold copied, routes_copy_table, attr. cbn [forallb fst snd assoc].
  closed_str_eqb. unfold str_at in *.
  rewrite !str_eqb_refl. cbn [andb]. rewrite andb_true_r.
  repeat (apply andb_true_iff; split).
  - unfold routes_mode, perms_of.
    destruct (str_of (get_path [k_routes; s "outputFilePerms"] (Some cfg))) as [|c t]; [reflexivity|].
    cbn [is_nil orb]. destruct (parse_octal_from 0 (c :: t)); [apply N.eqb_refl | reflexivity].
  - destruct (str_of (get_path [k_routes; s "packageName"] (Some cfg))) as [|c t]; [reflexivity|].
    cbn [is_nil orb]. apply str_eqb_refl.
  - reflexivity.
  - destruct (engine_import (str_of (get_path [k_routes; s "engine"] (Some cfg)))); [contradiction | reflexivity].
Qed.

Lemma survivors_incl l e : In e (survivors l) -> In e l.
Proof.
  induction l as [|x l IH]; [intros []|]. cbn [survivors].
  destruct (existsb _ l); [intros H; right; auto | intros [<-|H]; [left; reflexivity | right; auto]].
Qed.

(* reading a scheme's attributes back gives the scheme's fields *)
Lemma scheme_copied e : copied scheme_copy_table e (scheme_attrs e) = true.
Proof.
  unfold copied. apply forallb_forall. intros row Hin. apply str_eqb_spec.
  unfold scheme_copy_table in Hin. cbn [In] in Hin.
  repeat (destruct Hin as [<-|Hin]; [reflexivity|]). destruct Hin.
Qed.

Lemma spec_copied cfg w : copied spec_copy_table (Some cfg) (a_attrs (spec_artifact w cfg)) = true.
Proof.
  unfold copied. apply forallb_forall. intros row Hin. apply str_eqb_spec.
  unfold spec_copy_table in Hin. cbn [In] in Hin.
  repeat (destruct Hin as [<-|Hin]; [reflexivity|]). destruct Hin.
Qed.

Lemma honoured_spec w cfg : honoured_artifact w cfg (spec_artifact w cfg) = true.
Proof.
  unfold honoured_artifact.
  change (a_kind (spec_artifact w cfg)) with ASpec.
  change (a_ctrls (spec_artifact w cfg)) with (selected_ctrls w cfg).
  change (a_path (spec_artifact w cfg)) with (str_at [k_openapi_cfg; k_specgen; s "outputPath"] cfg).
  change (a_schemes (spec_artifact w cfg))
    with (map (fun e => (scheme_name e, scheme_attrs (norm e))) (survivors (scheme_elems cfg))).
  rewrite selected_refl, str_eqb_refl, spec_copied. cbn [andb].
  rewrite map_length, Nat.eqb_refl, andb_true_r.
  apply andb_true_iff. split.
  - apply forallb_forall. intros e He. apply existsb_exists.
    exists (scheme_name e, scheme_attrs (norm e)). split.
    + apply in_map_iff. exists e. auto.
    + cbn [fst snd]. rewrite str_eqb_refl, scheme_copied. reflexivity.
  - apply forallb_forall. intros sc Hsc. apply in_map_iff in Hsc. destruct Hsc as [e [<- He]].
    cbn [fst]. apply mem_str_spec. apply in_map. apply survivors_incl. exact He.
Qed.

(* ------------------------------------------------------------------ the oracle on the model *)

Lemma prop_ok_done o a c w cfg L :
  violatesb o declared_schema cfg = false -> cross_ok cfg = true ->
  list_eqb art_kind_eqb (map a_kind L) (kinds_for c) = true ->
  forallb (honoured_artifact w cfg) L = true ->
  prop_C20 o a c w cfg (observe (Done L)) = true.
Proof.
  intros H1 H2 H3 H4. unfold prop_C20. rewrite H1, H2.
  cbn [observe ob_status ob_written ob_stray is_refusal negb orb andb]. rewrite H3, H4. reflexivity.
Qed.

Lemma prop_ok_failed o a c w cfg L :
  violatesb o declared_schema cfg = false -> cross_ok cfg = true ->
  prop_C20 o a c w cfg (observe (Failed L)) = true.
Proof.
  intros H1 H2. unfold prop_C20. rewrite H1, H2. reflexivity.
Qed.

Lemma violated_in o a d cfg f :
  In f (violated o a d cfg) -> exists ed, name_in a ed = f /\ In ed (violated_entries o d cfg).
Proof. unfold violated. intros H. apply in_map_iff in H. exact H. Qed.

Lemma prop_ok_rejected o a c w cfg v :
  v <> Valid ->
  (forall errs, v = Invalid errs ->
     forall f, In f (violated o a declared_schema cfg) -> In f (map fst errs)) ->
  prop_C20 o a c w cfg (observe (Rejected v)) = true.
Proof.
  intros Hv Hn. unfold prop_C20.
  destruct v as [| |errs]; [contradiction | |].
  - cbn [observe ob_status is_refusal untouched ob_started ob_written ob_stray negb is_nil Nat.eqb andb orb names_all].
    rewrite orb_true_r. reflexivity.
  - cbn [observe ob_status is_refusal untouched ob_started ob_written ob_stray negb is_nil Nat.eqb andb orb names_all ob_fields].
    rewrite !andb_true_r.
    apply orb_true_iff. right.
    apply forallb_forall. intros f Hf. apply mem_str_spec. exact (Hn errs eq_refl f Hf).
Qed.

(* FULL STATEMENT (not provable for the code as it is, see scheme_shape_refuted):
     forall a o c w cfg, schema_at_least declared_schema a = true ->
       prop_C20 o a c w cfg (observe (cmd o a c w cfg)) = true.
   Proved: the same for documents whose security schemes are well-formed across fields. *)
Theorem prop_holds_partial : forall a, schema_at_least declared_schema a = true ->
  forall o c w cfg, enum_sound o -> cross_ok cfg = true ->
  prop_C20 o a c w cfg (observe (cmd o a c w cfg)) = true.
Proof.
  intros a Hs o c w cfg Henum Hx.
  destruct (validate o a cfg) as [| |errs] eqn:Ev.
  - (* accepted *)
    assert (Hnv : violatesb o declared_schema cfg = false).
    { destruct (violatesb o declared_schema cfg) eqn:E; [|reflexivity].
      apply violatesb_spec in E. exfalso. exact (schema_at_least_sound _ _ Hs o cfg Henum E Ev). }
    assert (He := engine_import_known _ (engine_known o cfg Hnv)).
    assert (Hr := honoured_routes w cfg He). assert (Hp := honoured_spec w cfg).
    unfold cmd. rewrite Ev.
    destruct (w_analysis_ok w); [|apply prop_ok_failed; assumption]. cbn [negb].
    destruct c.
    + destruct (w_spec_ok w); [|apply prop_ok_failed; assumption].
      apply prop_ok_done; [assumption | assumption | reflexivity |].
      cbn [forallb]. rewrite Hp. reflexivity.
    + apply prop_ok_done; [assumption | assumption | reflexivity |].
      cbn [forallb]. rewrite Hr. reflexivity.
    + destruct (w_spec_ok w); [|apply prop_ok_failed; assumption].
      apply prop_ok_done; [assumption | assumption | reflexivity |].
      cbn [forallb]. rewrite Hr, Hp. reflexivity.
  - unfold cmd. rewrite Ev. apply prop_ok_rejected; [discriminate | discriminate].
  - unfold cmd. rewrite Ev. apply prop_ok_rejected; [discriminate|].
    intros errs' Heq f Hf. injection Heq as <-.
    apply violated_in in Hf. destruct Hf as [ed [<- Hed]].
    exact (schema_at_least_names _ _ Hs o cfg errs Henum Ev ed Hed).
Qed.

Theorem load_holds_partial : forall a, schema_at_least declared_schema a = true ->
  forall o cfg, enum_sound o -> cross_ok cfg = true -> prop_C20_load o a cfg (validate o a cfg) = true.
Proof.
  intros a Hs o cfg Henum Hx. unfold prop_C20_load. rewrite Hx. cbn [negb]. rewrite orb_false_r.
  destruct (violatesb o declared_schema cfg) eqn:E; [|reflexivity]. cbn [negb orb].
  apply violatesb_spec in E. assert (Hn := schema_at_least_sound _ _ Hs o cfg Henum E).
  destruct (validate o a cfg) as [| |errs] eqn:Ev; [contradiction | reflexivity |].
  apply forallb_forall. intros f Hf. apply mem_str_spec.
  apply violated_in in Hf. destruct Hf as [ed [<- Hed]].
  exact (schema_at_least_names _ _ Hs o cfg errs Henum Ev ed Hed).
Qed.

(* readable form of "honoured", straight from the command model *)
Theorem honoured_routes_readable : forall o a c w cfg arts r,
  cmd o a c w cfg = Done arts -> In r arts -> a_kind r = ARoutes ->
  a_path r = str_at [k_routes; s "outputPath"] cfg /\
  (forall m, str_at [k_routes; s "outputFilePerms"] cfg <> [] ->
             parse_octal_from 0 (str_at [k_routes; s "outputFilePerms"] cfg) = Some m -> a_mode r = m) /\
  (str_at [k_routes; s "outputFilePerms"] cfg = [] ->
     a_mode r = match w_pre w (a_path r) with Some old => old | None => N.ldiff default_mode (w_umask w) end) /\
  attr (s "package") (a_attrs r) =
    (match str_at [k_routes; s "packageName"] cfg with [] => s "routes" | p => p end) /\
  attr (s "engine") (a_attrs r) = engine_import (str_at [k_routes; s "engine"] cfg) /\
  attr (s "auth") (a_attrs r) = str_at [k_routes; k_auth; s "authFileFullPackageName"] cfg /\
  a_ctrls r = flat_map snd (filter (fun f => glob_hit w (globs_of cfg) (fst f)) (w_files w)).
Proof.
  intros o a c w cfg arts r Hc Hin Hk.
  assert (Hr : r = routes_artifact w cfg).
  { unfold cmd in Hc. destruct (validate o a cfg); try discriminate Hc.
    destruct (w_analysis_ok w); try discriminate Hc.
    destruct c; cbn in Hc; try destruct (w_spec_ok w); try discriminate Hc;
      inversion Hc; subst arts; cbn in Hin;
      repeat (destruct Hin as [Hin|Hin]; [subst r; try reflexivity; discriminate Hk|]); destruct Hin. }
  subst r. cbn [a_path a_mode a_attrs a_ctrls routes_artifact]. repeat split.
  - intros m Hne Hp. unfold routes_mode, perms_of.
    destruct (str_at [k_routes; s "outputFilePerms"] cfg); [contradiction|]. rewrite Hp. reflexivity.
  - intros He. unfold routes_mode. rewrite He. reflexivity.
Qed.

Theorem honoured_spec_readable : forall o a c w cfg arts p,
  cmd o a c w cfg = Done arts -> In p arts -> a_kind p = ASpec ->
  a_path p = str_at [k_openapi_cfg; k_specgen; s "outputPath"] cfg /\
  attr (s "openapi") (a_attrs p) = str_at [k_openapi_cfg; s "openapi"] cfg /\
  copied spec_copy_table (Some cfg) (a_attrs p) = true /\
  attr (s "server") (a_attrs p) = str_at [k_openapi_cfg; s "baseUrl"] cfg /\
  (forall e, In e (survivors (scheme_elems cfg)) ->
     exists sc, In sc (a_schemes p) /\ fst sc = scheme_name e /\ copied scheme_copy_table (norm e) (snd sc) = true) /\
  (forall sc, In sc (a_schemes p) -> In (fst sc) (map scheme_name (scheme_elems cfg))) /\
  a_ctrls p = flat_map snd (filter (fun f => glob_hit w (globs_of cfg) (fst f)) (w_files w)).
Proof.
  intros o a c w cfg arts p Hc Hin Hk.
  assert (Hp : p = spec_artifact w cfg).
  { unfold cmd in Hc. destruct (validate o a cfg); try discriminate Hc.
    destruct (w_analysis_ok w); try discriminate Hc.
    destruct c; cbn in Hc; try destruct (w_spec_ok w); try discriminate Hc;
      inversion Hc; subst arts; cbn in Hin;
      repeat (destruct Hin as [Hin|Hin]; [subst p; try reflexivity; discriminate Hk|]); destruct Hin. }
  subst p. split; [reflexivity|]. split; [reflexivity|]. split; [apply spec_copied|].
  split; [reflexivity|]. split; [|split; [|reflexivity]].
  - intros e He. exists (scheme_name e, scheme_attrs (norm e)). split; [|split].
    + cbn [a_schemes spec_artifact]. apply in_map_iff. exists e. auto.
    + reflexivity.
    + apply scheme_copied.
  - intros sc Hsc. cbn [a_schemes spec_artifact] in Hsc. apply in_map_iff in Hsc.
    destruct Hsc as [e [<- He]]. cbn [fst]. apply in_map. apply survivors_incl. exact He.
Qed.

Theorem done_kinds : forall o a c w cfg arts,
  cmd o a c w cfg = Done arts -> map a_kind arts = kinds_for c /\ validate o a cfg = Valid.
Proof.
  intros o a c w cfg arts Hc. unfold cmd in Hc. destruct (validate o a cfg); try discriminate Hc.
  destruct (w_analysis_ok w); try discriminate Hc.
  destruct c; cbn in Hc; try destruct (w_spec_ok w); try discriminate Hc; inversion Hc; auto.
Qed.

(* ------------------------------------------------------------------ controllerGlobs *)

(* a file is selected exactly when SOME expression of the list matches it *)
Lemma glob_hit_spec w gs f : glob_hit w gs f = true <-> exists g, In g gs /\ w_glob w g f = true.
Proof. unfold glob_hit. apply existsb_exists. Qed.

(* ... so only the SET of expressions matters: neither their order nor their multiplicity *)
Theorem glob_hit_set : forall w gs gs' f,
  (forall g, In g gs <-> In g gs') -> glob_hit w gs f = glob_hit w gs' f.
Proof.
  intros w gs gs' f H.
  destruct (glob_hit w gs f) eqn:E1, (glob_hit w gs' f) eqn:E2; try reflexivity; exfalso.
  - apply glob_hit_spec in E1. destruct E1 as [g [Hg Hm]].
    assert (X : glob_hit w gs' f = true) by (apply glob_hit_spec; exists g; split; [apply H; exact Hg | exact Hm]).
    congruence.
  - apply glob_hit_spec in E2. destruct E2 as [g [Hg Hm]].
    assert (X : glob_hit w gs f = true) by (apply glob_hit_spec; exists g; split; [apply H; exact Hg | exact Hm]).
    congruence.
Qed.

(* ... and a further expression, before or after, never removes a file *)
Theorem glob_hit_mono : forall w gs before after f,
  glob_hit w gs f = true -> glob_hit w (before ++ gs ++ after) f = true.
Proof.
  intros w gs before after f H. apply glob_hit_spec in H. destruct H as [g [Hg Hm]].
  apply glob_hit_spec. exists g. split; [|exact Hm].
  apply in_or_app. right. apply in_or_app. left. exact Hg.
Qed.

(* the controllers of the artifacts are those declared in the matched files - both directions *)
Theorem selected_ctrls_spec : forall w cfg c,
  In c (selected_ctrls w cfg) <->
  exists f cs g, In (f, cs) (w_files w) /\ In c cs /\ In g (globs_of cfg) /\ w_glob w g f = true.
Proof.
  intros w cfg c. unfold selected_ctrls, selected_files. rewrite in_flat_map. split.
  - intros [[f cs] [Hin Hc]]. apply filter_In in Hin. destruct Hin as [Hf Hh]. cbn [fst snd] in *.
    apply glob_hit_spec in Hh. destruct Hh as [g [Hg Hm]]. exists f, cs, g. auto.
  - intros [f [cs [g [Hf [Hc [Hg Hm]]]]]]. exists (f, cs). split; [|exact Hc].
    apply filter_In. split; [exact Hf|]. cbn [fst]. apply glob_hit_spec. exists g. auto.
Qed.

(* both artifacts of a successful run list exactly those controllers *)
Theorem done_ctrls : forall o a c w cfg arts x,
  cmd o a c w cfg = Done arts -> In x arts -> a_ctrls x = selected_ctrls w cfg.
Proof.
  intros o a c w cfg arts x Hc Hin. unfold cmd in Hc. destruct (validate o a cfg); try discriminate Hc.
  destruct (w_analysis_ok w); try discriminate Hc.
  destruct c; cbn in Hc; try destruct (w_spec_ok w); try discriminate Hc;
    inversion Hc; subst arts; cbn in Hin;
    repeat (destruct Hin as [Hin|Hin]; [subst x; reflexivity|]); destruct Hin.
Qed.

(* ------------------------------------------------------------------ witnesses *)

Lemma snapshot_at_least : schema_at_least declared_schema snapshot_schema = true.
Proof. vm_compute. reflexivity. Qed.

Definition bad_world : world :=
  {| w_pre := w_pre demo_world; w_umask := 0; w_files := w_files demo_world; w_glob := w_glob demo_world;
     w_analysis_ok := true; w_spec_ok := false |}.

(* finding C20-scheme-shape: a security scheme that is malformed across fields passes the up-front validation;
   the routes file is written before the spec generator refuses the document *)
Theorem scheme_shape_refuted :
  exists cfg, cross_ok cfg = false /\ validate demo_oracle snapshot_schema cfg = Valid /\
    map a_kind (written (cmd demo_oracle snapshot_schema CBoth bad_world cfg)) = [ARoutes] /\
    prop_C20 demo_oracle snapshot_schema CBoth bad_world cfg
             (observe (cmd demo_oracle snapshot_schema CBoth bad_world cfg)) = false.
Proof. exists demo_cfg_bad_scheme. vm_compute. repeat split. Qed.

(* F14 before the fix: configured 0600, file already there with 0644: it stays 0644 *)
Theorem perms_unfixed_refuted :
  exists w path perms m, parse_octal_from 0 perms = Some m /\ routes_mode_unfixed w path perms <> m /\
                         routes_mode w path perms = m.
Proof.
  exists demo_world, (s "./out/routes.go"), (s "0600"), 384%N. vm_compute. repeat split. discriminate.
Qed.

Definition drop_key (k : str) (v : jv) : jv :=
  match v with JObj m => JObj (filter (fun kv => negb (str_eqb (fst kv) k)) m) | _ => v end.

Definition set_in (k1 k2 : str) (x : jv) (v : jv) : jv :=
  match v with
  | JObj m => JObj (map (fun kv => if str_eqb (fst kv) k1
                                   then (fst kv, match snd kv with
                                                 | JObj m2 => JObj (map (fun kv2 => if str_eqb (fst kv2) k2 then (fst kv2, x) else kv2) m2)
                                                 | y => y end)
                                   else kv) m)
  | _ => v
  end.

Definition is_valid (v : verdict) : bool := match v with Valid => true | _ => false end.

Definition corruptions : list jv :=
  [ drop_key k_routes demo_cfg;                                              (* missing section *)
    set_in k_routes (s "engine") JNull demo_cfg;                             (* missing field *)
    demo_cfg_with "express" "3.1.0" "0600" "https://api.example.com" "me@example.com" [demo_scheme];
    demo_cfg_with "echo" "2.0" "0600" "https://api.example.com" "me@example.com" [demo_scheme];
    demo_cfg_with "echo" "3.1.0" "0600" "not a url" "me@example.com" [demo_scheme];
    demo_cfg_with "echo" "3.1.0" "0600" "https://api.example.com" "nobody" [demo_scheme];
    demo_cfg_with "echo" "3.1.0" "rw-r--r--" "https://api.example.com" "me@example.com" [demo_scheme];
    demo_cfg_with "echo" "3.1.0" "0600" "https://api.example.com" "me@example.com"
                  [O [("description", J "d"); ("name", J "sec1"); ("type", J "magic")]%string];
    demo_cfg_case_variant;                                                   (* type "ApiKey" *)
    demo_cfg_with "echo" "3.1.0" "0600" "https://api.example.com" "me@example.com"
                  [O [("description", J "d"); ("name", J "sec1"); ("fieldName", J "k"); ("type", J "apiKey"); ("in", J "Header")]%string];
    demo_cfg_with "Echo" "3.1.0" "0600" "https://api.example.com" "me@example.com" [demo_scheme];
    JArr [] ].

Lemma demo_nonvacuous :
  validate demo_oracle snapshot_schema demo_cfg = Valid /\
  violatesb demo_oracle declared_schema demo_cfg = false /\ cross_ok demo_cfg = true /\
  map (fun a => (a_kind a, a_path a, a_mode a, a_ctrls a))
      (written (cmd demo_oracle snapshot_schema CBoth demo_world demo_cfg)) =
    [ (ARoutes, s "./out/routes.go", 384%N, [s "MainController"]);
      (ASpec, s "./out/openapi.json", 420%N, [s "MainController"]) ] /\
  forallb (fun c => negb (is_valid (validate demo_oracle snapshot_schema c))) corruptions = true /\
  forallb (fun c => violatesb demo_oracle declared_schema c || negb (decode_ok declared_schema c)) corruptions = true /\
  forallb (fun c => is_nil (written (cmd demo_oracle snapshot_schema CBoth demo_world c))) corruptions = true.
Proof. vm_compute. repeat split. Qed.

(* the demo oracle keeps the enum claims (the hypothesis of the theorems is satisfiable) *)
Lemma demo_oracle_enum_sound : enum_sound demo_oracle.
Proof.
  intros n p alts v Hin Ho. unfold enum_claims in Hin. cbn [In] in Hin.
  destruct Hin as [Hin|[Hin|[]]]; inversion Hin; subst n p alts; clear Hin.
  - change (mem str_eqb v scheme_types = true) in Ho. apply mem_str_spec. exact Ho.
  - change (mem str_eqb v scheme_locations = true) in Ho. apply mem_str_spec. exact Ho.
Qed.

(* the enum claim is needed: under a validator that compares the scheme type without regard
   to case, the obligation [schema_at_least] still holds of the tags, the claim fails on
   the string "ApiKey", the document with that type violates the declared schema, is
   accepted, and spec-and-routes writes the routes file before the spec library refuses the
   document (which carries the value verbatim) *)
Theorem enum_claim_needed :
  schema_at_least declared_schema snapshot_schema = true /\
  enum_sound_on lax_oracle [s "apiKey"; s "ApiKey"] = false /\
  enum_sound_on demo_oracle [s "apiKey"; s "ApiKey"; s "HTTP"; s "Header"; s "header"; []] = true /\
  violatesb lax_oracle declared_schema demo_cfg_case_variant = true /\
  cross_ok demo_cfg_case_variant = true /\
  validate lax_oracle snapshot_schema demo_cfg_case_variant = Valid /\
  map a_kind (written (cmd lax_oracle snapshot_schema CBoth bad_world demo_cfg_case_variant)) = [ARoutes] /\
  prop_C20 lax_oracle snapshot_schema CBoth bad_world demo_cfg_case_variant
           (observe (cmd lax_oracle snapshot_schema CBoth bad_world demo_cfg_case_variant)) = false /\
  validate demo_oracle snapshot_schema demo_cfg_case_variant = Invalid [(s "Type", s "security_schema_type")].
Proof. vm_compute. repeat split. Qed.

(* glob lists that split one directory between their expressions, in both orders, and a
   list whose later expression adds a file of a directory the first one already touched *)
Definition with_globs (gs : list String.string) : jv :=
  match demo_cfg with
  | JObj m => JObj ((k_common, O [("controllerGlobs", JArr (map J gs))]%string) :: filter (fun kv => negb (str_eqb (fst kv) k_common)) m)
  | v => v
  end.

Lemma split_globs_nonvacuous :
  let sel gs := selected_ctrls demo_world (with_globs gs) in
  sel ["./ctl/main.controller.go"; "./ctl/decoy.controller.go"]%string = [s "MainController"; s "DecoyController"] /\
  sel ["./ctl/decoy.controller.go"; "./ctl/main.controller.go"]%string = [s "MainController"; s "DecoyController"] /\
  sel ["./ctl/decoy.controller.go"]%string = [s "DecoyController"] /\
  sel ["./nomatch.go"; "./ctl/decoy.controller.go"; "./ctl/decoy.controller.go"]%string = [s "DecoyController"] /\
  map (fun a => a_ctrls a)
      (written (cmd demo_oracle snapshot_schema CBoth demo_world
                    (with_globs ["./ctl/decoy.controller.go"; "./ctl/main.controller.go"]%string))) =
    [[s "MainController"; s "DecoyController"]; [s "MainController"; s "DecoyController"]].
Proof. vm_compute. repeat split. Qed.

