(* Proofs for Model/Interchange.v (C12). *)
From Gleece Require Import Base.Bytes Model.Interchange.
From Coq Require Import String.

Lemma engine_eqb_spec a b : engine_eqb a b = true <-> a = b.
Proof. destruct a, b; simpl; split; intros H; try reflexivity; try discriminate. Qed.

Lemma all_engines_complete e : In e all_engines.
Proof. destruct e; simpl; auto 6. Qed.

Lemma call_eqb_spec a b : call_eqb a b = true <-> a = b.
Proof.
  destruct a as [[c1 m1] a1], b as [[c2 m2] a2]; unfold call_eqb.
  rewrite !andb_true_iff, !str_eqb_spec, (list_eqb_spec str_eqb str_eqb_spec).
  split.
  - intros [[-> ->] ->]; reflexivity.
  - intros H; inversion H; auto.
Qed.

Lemma authrec_eqb_spec a b : authrec_eqb a b = true <-> a = b.
Proof.
  destruct a as [[s1 sc1] v1], b as [[s2 sc2] v2]; unfold authrec_eqb.
  rewrite !andb_true_iff, !str_eqb_spec, (list_eqb_spec str_eqb str_eqb_spec).
  split.
  - intros [[-> ->] ->]; reflexivity.
  - intros H; inversion H; auto.
Qed.

Lemma outcome_eqb_spec a b : outcome_eqb a b = true <-> a = b.
Proof.
  destruct a as [s1 c1 a1 b1], b as [s2 c2 a2 b2]; unfold outcome_eqb; cbn [o_status o_calls o_auth o_body].
  rewrite !andb_true_iff, N.eqb_eq, str_eqb_spec,
    (list_eqb_spec call_eqb call_eqb_spec), (list_eqb_spec authrec_eqb authrec_eqb_spec).
  split.
  - intros [[[-> ->] ->] ->]; reflexivity.
  - intros H; inversion H; auto.
Qed.

Lemma outcome_eqb_refl a : outcome_eqb a a = true.
Proof. apply outcome_eqb_spec; reflexivity. Qed.

(* The readable statement behind the oracle. *)
Definition P_C12 (l : list (engine * outcome)) : Prop :=
  (forall e, exists o, In (e, o) l) /\
  (forall e1 o1 e2 o2, In (e1, o1) l -> In (e2, o2) l -> o1 = o2).

Lemma covers_spec l : covers l = true <-> forall e, exists o, In (e, o) l.
Proof.
  unfold covers. rewrite forallb_forall. split.
  - intros H e. specialize (H e (all_engines_complete e)).
    apply existsb_exists in H. destruct H as [[e' o] [Hin He]].
    simpl in He. apply engine_eqb_spec in He. subst e'. exists o; exact Hin.
  - intros H e _. destruct (H e) as [o Ho].
    apply existsb_exists. exists (e, o). split; [exact Ho|].
    simpl. apply engine_eqb_spec; reflexivity.
Qed.

Lemma all_equal_spec l :
  all_equal l = true <-> forall e1 o1 e2 o2, In (e1, o1) l -> In (e2, o2) l -> o1 = o2.
Proof.
  destruct l as [|[e0 o0] t]; simpl.
  - split; [intros _ e1 o1 e2 o2 []|reflexivity].
  - rewrite forallb_forall. split.
    + intros H e1 o1 e2 o2 H1 H2.
      assert (Hx : forall e o, (e0, o0) = (e, o) \/ In (e, o) t -> o = o0).
      { intros e o [E|Hin]; [inversion E; reflexivity|].
        specialize (H (e, o) Hin). simpl in H. apply outcome_eqb_spec in H. exact H. }
      rewrite (Hx e1 o1 H1), (Hx e2 o2 H2). reflexivity.
    + intros H [e o] Hin. simpl. apply outcome_eqb_spec.
      apply (H e o e0 o0); [right; exact Hin|left; reflexivity].
Qed.

Lemma prop_C12_spec l : prop_C12 l = true <-> P_C12 l.
Proof.
  unfold prop_C12, P_C12. rewrite andb_true_iff, covers_spec, all_equal_spec. reflexivity.
Qed.

(* Agreement with one reference engine is agreement of every pair. *)
Lemma agree_all_pairs_from_reference {A} (obs : engine -> A) :
  (forall e, obs e = obs Gin) -> forall e1 e2, obs e1 = obs e2.
Proof. intros H e1 e2. rewrite (H e1), (H e2). reflexivity. Qed.

Section Handler.
  Variables request rid pkey raw reply : Type.
  Variable route_of : engine -> request -> option rid.
  Variable params : rid -> list pkey.
  Variable extract : engine -> request -> pkey -> raw.
  Variable core : rid -> list (pkey * raw) -> reply.
  Variable render : engine -> reply -> outcome.
  Variable unmatched : engine -> request -> outcome.

  Let run := run request rid pkey raw reply route_of params extract core render unmatched.
  Let extracted := extracted request rid pkey raw params extract.
  Let observe_all := observe_all request rid pkey raw reply route_of params extract core render unmatched.

  Lemma extracted_ext e1 e2 r i :
    (forall p, In p (params i) -> extract e1 r p = extract e2 r p) ->
    extracted e1 r i = extracted e2 r i.
  Proof.
    intros H. unfold extracted, Interchange.extracted. apply map_ext_in.
    intros p Hp. rewrite (H p Hp). reflexivity.
  Qed.

  (* The combination theorem: two engines answer a request alike as soon as their matchers
     select the same registration, their extraction calls deliver the same raw value for
     every declared parameter of that route, and their reply calls render alike.  The
     engine-independent core (gate, conversion, validation, invocation) cannot introduce a
     difference. *)
  Theorem run_agree e1 e2 r :
    route_of e1 r = route_of e2 r ->
    (forall i p, route_of e1 r = Some i -> In p (params i) -> extract e1 r p = extract e2 r p) ->
    (forall x, render e1 x = render e2 x) ->
    (route_of e1 r = None -> unmatched e1 r = unmatched e2 r) ->
    run e1 r = run e2 r.
  Proof.
    intros Hroute Hext Hrender Hun. unfold run, Interchange.run.
    rewrite <- Hroute. destruct (route_of e1 r) as [i|] eqn:E.
    - fold (extracted e1 r i) (extracted e2 r i).
      rewrite (extracted_ext e1 e2 r i (fun p Hp => Hext i p eq_refl Hp)).
      apply Hrender.
    - apply Hun; reflexivity.
  Qed.

  (* The form quoted in the task text: with engine-independent matching and rendering,
     pointwise equal extraction gives equal runs. *)
  Corollary run_agree_extract e1 e2 r :
    (forall e, route_of e r = route_of Gin r) ->
    (forall e x, render e x = render Gin x) ->
    (forall e, unmatched e r = unmatched Gin r) ->
    (forall p, extract e1 r p = extract e2 r p) ->
    run e1 r = run e2 r.
  Proof.
    intros Hr Hre Hu Hx. apply run_agree.
    - rewrite (Hr e1), (Hr e2); reflexivity.
    - intros i p _ _. apply Hx.
    - intros x. rewrite (Hre e1 x), (Hre e2 x); reflexivity.
    - intros _. rewrite (Hu e1), (Hu e2); reflexivity.
  Qed.

  Lemma observe_all_in e o r : In (e, o) (observe_all r) <-> o = run e r.
  Proof.
    unfold observe_all, Interchange.observe_all. rewrite in_map_iff. split.
    - intros [e' [E _]]. inversion E; subst. reflexivity.
    - intros ->. exists e. split; [reflexivity|apply all_engines_complete].
  Qed.

  (* The per-request oracle is exactly pairwise agreement of the five runs. *)
  Theorem prop_C12_observe_all r :
    prop_C12 (observe_all r) = true <-> forall e1 e2, run e1 r = run e2 r.
  Proof.
    rewrite prop_C12_spec. unfold P_C12. split.
    - intros [_ H] e1 e2.
      apply (H e1 (run e1 r) e2 (run e2 r)); apply observe_all_in; reflexivity.
    - intros H. split.
      + intros e. exists (run e r). apply observe_all_in; reflexivity.
      + intros e1 o1 e2 o2 H1 H2. apply observe_all_in in H1, H2. subst. apply H.
  Qed.

  Corollary prop_C12_from_reference r :
    (forall e, run e r = run Gin r) -> prop_C12 (observe_all r) = true.
  Proof.
    intros H. apply prop_C12_observe_all.
    apply (agree_all_pairs_from_reference (fun e => run e r) H).
  Qed.
End Handler.

(* ---- non-vacuity: a concrete two-parameter route where Fiber's path extraction keeps the
   percent-encoding (the class observed on the compiled routers) ---- *)
Definition demo_route_of (_ : engine) (r : str) : option nat :=
  if has_prefix (s "/items/") r then Some 0 else None.
Definition demo_params (_ : nat) : list nat := [0; 1]%nat.
Definition demo_extract (e : engine) (r : str) (p : nat) : str :=
  match p, e with
  | O, Fiber => s "a%20b"
  | O, _ => s "a b"
  | _, _ => s "7"
  end.
Definition demo_core (_ : nat) (vals : list (nat * str)) : list str := map snd vals.
Definition demo_render (_ : engine) (args : list str) : outcome :=
  mkOutcome 200 [(s "Ctl", s "Get", args)] [] (s "{}").
Definition demo_unmatched (_ : engine) (_ : str) : outcome := mkOutcome 404 [] [] (s "<framework>").
Definition demo_run :=
  run str nat nat str (list str) demo_route_of demo_params demo_extract demo_core demo_render demo_unmatched.
Definition demo_observe :=
  observe_all str nat nat str (list str) demo_route_of demo_params demo_extract demo_core demo_render demo_unmatched.

Lemma demo_agree : demo_run Gin (s "/items/a%20b") = demo_run Chi (s "/items/a%20b").
Proof.
  apply run_agree.
  - reflexivity.
  - intros i p _ _. destruct p as [|[|p]]; reflexivity.
  - reflexivity.
  - reflexivity.
Qed.

Lemma demo_differs : demo_run Gin (s "/items/a%20b") <> demo_run Fiber (s "/items/a%20b").
Proof. vm_compute. discriminate. Qed.

Lemma demo_oracle_rejects : prop_C12 (demo_observe (s "/items/a%20b")) = false.
Proof. vm_compute. reflexivity. Qed.

Lemma demo_oracle_accepts : prop_C12 (demo_observe (s "/other")) = true.
Proof. vm_compute. reflexivity. Qed.

Lemma demo_oracle_needs_all_five :
  prop_C12 [(Gin, mkOutcome 200 [] [] (s "1")); (Echo, mkOutcome 200 [] [] (s "1"))] = false.
Proof. vm_compute. reflexivity. Qed.
