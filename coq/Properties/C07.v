(* C07 - Component schemas mirror Go declarations, independent of how a type is used.
   Only statements here; every proof is [exact lemma].  The model functions are [reach],
   [component], [components] (Model/Schema.v); the correspondence check compares
   [components] / [emit] with components.schemas of the documents the real CLI writes.
   The model describes gleece with the F9 fix (no usage-site validation through a $ref). *)
From Gleece Require Import Base.Bytes Model.Project Model.Spec Model.Schema Proofs.SchemaProofs.
From Coq Require Import String Permutation.

(* the fuel of the reachability walk (number of declarations + 1) is enough: more fuel changes nothing *)
Theorem C07_reach_fuel_enough : forall u n,
  S (List.length (u_decls u)) <= n -> reach_n u n = reach u.
Proof. exact reach_fuel_enough. Qed.

(* reach is exactly: declared, and connected to a route parameter / result / error type through
   JSON-visible fields, pointers, slices, maps, embedding, alias right-hand sides, other packages *)
Theorem C07_reach_spec : forall u k, In k (reach u) <-> Reachable u k.
Proof. exact reach_spec. Qed.

(* closure, both dialects, any universe (validators and same-named types included): the keys of
   components.schemas are the names of the reached declarations plus Rfc7807Error exactly when
   the plain error type is present, without repetition *)
Theorem C07_closure_keys : forall v u,
  (forall x, In x (keys (components v u)) <-> In x (expected_names u)) /\ NoDup (keys (components v u)).
Proof. exact components_keys. Qed.

(* one schema for each reached declaration and no others - components are keyed by the bare
   type name, so this needs the names to be unique *)
Theorem C07_closure : forall v u,
  unique_type_names u -> Permutation (keys (components v u)) (expected_names u).
Proof. exact components_closure. Qed.

(* F16: without unique names two declarations (m1.User, m2.User) share one component *)
Theorem C07_closure_refuted :
  universe_ok f16_u /\ List.length (reached_decls f16_u) = 2 /\
  keys (components V31 f16_u) = [s "User"; s "Rfc7807Error"] /\
  ~ Permutation (keys (components V31 f16_u)) (expected_names f16_u).
Proof. exact f16_refuted. Qed.

(* shape: the schema of a declaration satisfies the per-kind clauses of the property text (oracle
   decl_by_text: JSON-visible fields under JSON names with mapped type or reference, required list,
   allOf for embedded, enum values = declared constants, alias -> primitive).
   Full statement: forall v d, decl_by_text d (component v d) = true.  It fails for 3.0 and
   non-string enums (F18, C07_shape_refuted); proved for 3.1 and for everything else in 3.0. *)
Theorem C07_shape_partial : forall v d,
  (v = V31 \/ string_enum_or_other d = true) -> decl_by_text d (component v d) = true.
Proof. exact component_shape. Qed.

Theorem C07_shape_refuted :
  decl_by_text (nth 3 demo_decls color_decl) (component V30 (nth 3 demo_decls color_decl)) = false /\
  decl_by_text (nth 3 demo_decls color_decl) (component V31 (nth 3 demo_decls color_decl)) = true.
Proof. exact f18_shape_refuted. Qed.

Theorem C07_struct_shape : forall fs, struct_by_text fs (struct_comp fs) = true.
Proof. exact struct_shape. Qed.

(* each reached declaration is documented by the schema of its own declaration, in both dialects
   and whatever validators sit on its usage sites (since the F9 fix neither converter writes
   through a $ref) *)
Theorem C07_lookup : forall v u d,
  unique_type_names u -> In d (reached_decls u) ->
  lookup (components v u) (d_name d) = Some (component v d).
Proof. exact components_lookup. Qed.

(* non-interference: a declaration's component is the same in any two universes that contain the
   declaration (other routes, other usage sites, other validators) *)
Theorem C07_noninterference : forall v u u' d,
  unique_type_names u -> unique_type_names u' ->
  In d (reached_decls u) -> In d (reached_decls u') ->
  lookup (components v u) (d_name d) = lookup (components v u') (d_name d).
Proof. exact noninterference. Qed.

(* non-vacuity for non-interference, on the former F9 witness: a oneof tag on a field of type Color *)
Example C07_noninterference_example :
  unique_type_names (f9_u "oneof=red blue") /\ unique_type_names (f9_u "") /\
  In color_decl (reached_decls (f9_u "oneof=red blue")) /\ In color_decl (reached_decls (f9_u "")) /\
  option_map k_enum (lookup (components V30 (f9_u "oneof=red blue")) (s "Color")) =
    Some (Some [EStr (s "red"); EStr (s "blue"); EStr (s "green")]).
Proof. exact f9_example. Qed.

(* the reachability the oracle prop_C07 computes (Kleene iteration over the declaration list, written
   from the property text) is the same set as the model's worklist closure *)
Theorem C07_oracle_reach : forall u k,
  NoDup (decl_keys u) -> (In k (reachable_set u) <-> In k (reach u)).
Proof. exact reachable_set_reach. Qed.

(* the property oracle accepts the components the model builds.
   Full statement: forall v u ops, prop_C07 u (document with components (components v u)) = true.
   False in general (F16: equal bare names; F18: 3.0 non-string enums; C07-rfc7807-without-plain-error: Rfc7807Error caused by
   a custom error type embedding error); proved under: unique bare names, every declaration
   declared once, the error special only present through a plain-error route, and (3.0) only
   string enums *)
Theorem C07_holds_partial : forall v u ops,
  unique_type_names u -> NoDup (decl_keys u) ->
  plain_error_present u = returns_plain_error u -> enums_fit v u ->
  prop_C07 u (mkDoc (dc_title (u_cfg u)) (dc_version (u_cfg u)) [dc_base_url (u_cfg u)] (dc_schemes (u_cfg u)) ops
                    (components v u)) = true.
Proof. exact prop_C07_holds. Qed.

Example C07_nonvacuous_holds :
  unique_type_names demo_u /\ NoDup (decl_keys demo_u) /\
  plain_error_present demo_u = returns_plain_error demo_u /\ enums_fit V31 demo_u /\ ~ enums_fit V30 demo_u.
Proof. exact demo_holds_hyps. Qed.

(* non-vacuity: a universe with embedding, recursion, another package, unexported and json:"-"
   fields, enums of two kinds, an alias and an unused type satisfies every hypothesis above;
   its reach is non-trivial and stable under more fuel; the oracle accepts the model's document
   and rejects one with a component removed *)
Example C07_nonvacuous_reach :
  map snd (reach demo_u) = [s "Node"; s "Kind"; s "Name"; s "Base"; s "Color"; s "Far"] /\
  reach_n demo_u 3 = reach demo_u /\ List.length (roots demo_u) = 3.
Proof. exact demo_reach. Qed.

Example C07_nonvacuous_hyps :
  well_linked V31 demo_u /\ unique_type_names demo_u /\ universe_ok demo_u /\
  ~ well_linked_b V30 demo_u = true.
Proof. exact demo_hyps. Qed.

Example C07_nonvacuous_doc :
  emit V31 demo_u = Some demo_doc /\
  keys (doc_comps demo_doc) = [s "Color"; s "Kind"; s "Base"; s "Far"; s "Node"; s "Rfc7807Error"; s "Name"] /\
  prop_C07 demo_u demo_doc = true /\ prop_C08 (u_cfg demo_u) demo_doc = true /\
  prop_C07 demo_u (mkDoc (doc_title demo_doc) (doc_version demo_doc) (doc_servers demo_doc) (doc_schemes demo_doc)
                         (doc_ops demo_doc) (tl (doc_comps demo_doc))) = false /\
  wf (mkDoc (doc_title demo_doc) (doc_version demo_doc) (doc_servers demo_doc) (doc_schemes demo_doc)
            (doc_ops demo_doc) (tl (doc_comps demo_doc))) = false /\
  lookup (doc_comps demo_doc) (s "Node") = Some (component V31 (nth 1 demo_decls (mkDecl [] [] (DAlias Tstr)))).
Proof. exact demo_doc_facts. Qed.

(* sub-claim 5 of the oracle (prop_C07_refs): a usage of a declared type is a reference to that type's
   component whatever the type is called.  Full statement: forall fs, struct_by_text_strict fs (struct_comp fs)
   = true.  The emitters dispatch on the bare identifier, so it is proved for field types whose declared names
   the emitters give no meaning to, and refuted for a struct the project calls Time *)
Theorem C07_struct_shape_strict_partial : forall fs,
  (forall f, In f fs -> unshadowed (f_type f) = true) -> struct_by_text_strict fs (struct_comp fs) = true.
Proof. exact struct_shape_strict. Qed.

Theorem C07_struct_shape_strict_refuted :
  struct_by_text time_shadow_fields (struct_comp time_shadow_fields) = true /\
  struct_by_text_strict time_shadow_fields (struct_comp time_shadow_fields) = false /\
  map snd (k_props (struct_comp time_shadow_fields)) =
    [SType (s "string") (s "date-time"); SArr (SType (s "string") (s "date-time"))].
Proof. exact struct_shape_strict_refuted. Qed.

Example C07_unshadowed_nonvacuous :
  unshadowed (TMap (TPrim (s "string")) (TSlice (TPtr (TNamed (s "types") (s "Duration"))))) = true /\
  forallb (fun n => unshadowed (TNamed (s "types") (s n)))
          ["Duration"; "Int"; "String"; "Any"; "Error"; "Bytes"; "Object"; "Context"; "tracking"]%string = true /\
  unshadowed (TNamed (s "types") (s "Time")) = false.
Proof. exact unshadowed_example. Qed.

Print Assumptions C07_struct_shape_strict_partial.
Print Assumptions C07_struct_shape_strict_refuted.
Print Assumptions C07_unshadowed_nonvacuous.
Print Assumptions C07_reach_fuel_enough.
Print Assumptions C07_reach_spec.
Print Assumptions C07_closure_keys.
Print Assumptions C07_closure.
Print Assumptions C07_closure_refuted.
Print Assumptions C07_shape_partial.
Print Assumptions C07_shape_refuted.
Print Assumptions C07_struct_shape.
Print Assumptions C07_lookup.
Print Assumptions C07_noninterference.
Print Assumptions C07_noninterference_example.
Print Assumptions C07_oracle_reach.
Print Assumptions C07_holds_partial.
Print Assumptions C07_nonvacuous_holds.
Print Assumptions C07_nonvacuous_reach.
Print Assumptions C07_nonvacuous_hyps.
Print Assumptions C07_nonvacuous_doc.
