(* C05 - Handlers bind each parameter from its declared source and enforce requiredness.
   Conversion part: every representable value of the declared type survives text -> value. *)
From Gleece Require Import Base.Bytes Model.Bind Proofs.BindProofs.
From Coq Require Import String.
Open Scope N_scope.

Theorem C05_decimal_roundtrip : forall n, parse_N (print_N n) = Some n.
Proof. exact parse_print_N. Qed.

Theorem C05_uint_roundtrip : forall bits n, n < 2 ^ bits -> parse_uint bits (print_N n) = Some n.
Proof. exact parse_uint_print. Qed.

Theorem C05_int_roundtrip : forall bits z,
  0 < bits -> (- 2 ^ (Z.of_N bits - 1) <= z < 2 ^ (Z.of_N bits - 1))%Z ->
  parse_int bits (print_Z z) = Some z.
Proof. exact parse_int_print. Qed.

(* out-of-range text is rejected, never wrapped around *)
Theorem C05_uint_never_wraps : forall bits p n, parse_uint bits p = Some n -> n < 2 ^ bits.
Proof. exact parse_uint_range. Qed.

(* the property for conversions: for every declared primitive type and every representable
   value of it (boundary integers included), the handler's conversion of the client's text
   yields exactly that value *)
Theorem C05_bind_roundtrip : forall ty v, in_range ty v = true -> convert ty (print v) = Some v.
Proof. exact bind_roundtrip. Qed.

Theorem C05_oracle_holds : forall ty v, prop_C05_value ty v (convert ty (print v)) = true.
Proof. exact prop_C05_value_holds. Qed.

(* with the bit size 32 that the templates used for `uint` the statement is false *)
Theorem C05_uint32_refuted :
  exists n, in_range PUint (VUint n) = true /\ option_map VUint (parse_uint 32 (print_N n)) = None.
Proof. exact uint32_conversion_refuted. Qed.

Example C05_nonvacuous :
  convert PUint (print (VUint 18446744073709551615)) = Some (VUint 18446744073709551615) /\
  convert (PIntN 8) (print (VInt (-128))) = Some (VInt (-128)) /\
  convert (PIntN 8) (s "128"%string) = None /\ convert (PUintN 16) (s "-1"%string) = None /\
  convert PInt (s "12x"%string) = None /\ convert PBool (s "yes"%string) = None /\
  in_range PInt (VInt (-9223372036854775808)) = true.
Proof. exact bind_demo. Qed.

Print Assumptions C05_decimal_roundtrip.
Print Assumptions C05_uint_roundtrip.
Print Assumptions C05_int_roundtrip.
Print Assumptions C05_uint_never_wraps.
Print Assumptions C05_bind_roundtrip.
Print Assumptions C05_oracle_holds.
Print Assumptions C05_uint32_refuted.
Print Assumptions C05_nonvacuous.
