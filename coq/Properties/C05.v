(* C05 - Handlers bind each parameter from its declared source and enforce requiredness.
   Conversion part: every representable value of the declared type survives text -> value. *)
From Gleece Require Import Base.Bytes Model.Bind Proofs.BindProofs Model.Project Model.Spec Model.Router
     Model.RouterParams Proofs.RouterParamsProofs Proofs.CrossProofs Model.Security Model.Handler Proofs.HandlerProofs Model.SliceBind Proofs.SliceBindProofs.
From Coq Require Import String.
Open Scope N_scope.

Theorem C05_decimal_roundtrip : forall n, parse_N (print_N n) = Some n.
Proof. exact parse_print_N. Qed.

Theorem C05_uint_roundtrip : forall bits n, n < 2 ^ bits -> parse_uint bits (print_N n) = Some n.
Proof. exact parse_uint_print. Qed.

Theorem C05_int_roundtrip : forall bits z,
  0 < bits -> (- 2 ^ (Z.of_N bits - 1) <= z < 2 ^ (Z.of_N bits - 1))%Z ->
  parse_int bits (print_Z z) = Some z.
Proof. exact parse_int_print. Qed.

(* out-of-range text is rejected, never wrapped around *)
Theorem C05_uint_never_wraps : forall bits p n, parse_uint bits p = Some n -> n < 2 ^ bits.
Proof. exact parse_uint_range. Qed.

(* the property for conversions: for every declared primitive type and every representable
   value of it (boundary integers included), the handler's conversion of the client's text
   yields exactly that value *)
Theorem C05_bind_roundtrip : forall ty v, in_range ty v = true -> convert ty (print v) = Some v.
Proof. exact bind_roundtrip. Qed.

Theorem C05_oracle_holds : forall ty v, prop_C05_value ty v (convert ty (print v)) = true.
Proof. exact prop_C05_value_holds. Qed.

(* with the bit size 32 that the templates used for `uint` the statement is false *)
Theorem C05_uint32_refuted :
  exists n, in_range PUint (VUint n) = true /\ option_map VUint (parse_uint 32 (print_N n)) = None.
Proof. exact uint32_conversion_refuted. Qed.

(* what the per-run translation obligation on a generated routes file yields, handler by handler
   and parameter by parameter: declared location and wire name, conversion function and bit size
   of the declared type, reduced validator; arguments passed in signature order *)
Theorem C05_translated_handlers_sound : forall e p hs,
  router_params_ok e p hs = true ->
  Forall2 (fun cm h => handler_params_ok e (snd cm) (fst h) (snd h) = true) (routes_of p) hs.
Proof. exact router_params_sound. Qed.

Theorem C05_translated_handler_sound : forall e m tps args,
  handler_params_ok e m tps args = true ->
  Forall2 (fun p t => tparam_ok e p t = true) (filter (fun p => negb (pa_ctx p)) (m_params m)) tps /\
  Forall2 (fun p a => arg_ok p a = true) (m_params m) args.
Proof. exact handler_params_sound. Qed.

Theorem C05_wire_names : forall e p t, tparam_ok e p t = true -> loc_eqb (pa_loc p) LBody = false ->
  forall w, In w (tp_wires t) -> w = wire_name p.
Proof. exact tparam_ok_wire. Qed.

(* documented parameters = bound parameters, across the two artifacts: whenever the model emits a
   document d and a generated routes file passed its translation obligation, every parameter the
   document shows for an operation is read by that operation's handler from the documented
   location (the engine's request-reading expressions for it) under the documented name *)
Theorem C05_documented_params_are_bound : forall (e : engine) (p : project) (d : list operation)
        (hs : list (list tparam * list str)),
  spec_ops p = Some d -> router_params_ok e p hs = true ->
  forall o, In o d ->
  exists c m h, In (c, m) (routes_of p) /\ In h hs /\ o_id o = m_name m /\
    forall dp, In dp (o_params o) ->
    exists prm t, In prm (m_params m) /\ pa_ctx prm = false /\ In t (fst h) /\
      op_name dp = wire_name prm /\ op_in dp = lower_loc (pa_loc prm) /\
      (forall w, In w (tp_wires t) -> w = op_name dp) /\
      forallb (source_ok e (pa_loc prm) (tp_var t)) (tp_sources t) = true.
Proof. exact documented_params_are_bound. Qed.

Example C05_nonvacuous :
  convert PUint (print (VUint 18446744073709551615)) = Some (VUint 18446744073709551615) /\
  convert (PIntN 8) (print (VInt (-128))) = Some (VInt (-128)) /\
  convert (PIntN 8) (s "128"%string) = None /\ convert (PUintN 16) (s "-1"%string) = None /\
  convert PInt (s "12x"%string) = None /\ convert PBool (s "yes"%string) = None /\
  in_range PInt (VInt (-9223372036854775808)) = true.
Proof. exact bind_demo. Qed.


(* ---- whole requests: the engine-independent handler model (Model/Handler.v), compared with each of
   the five compiled routers on every request of this check (pygen/handlermodel.py) ---- *)

(* what reaches the method: for each parameter, in signature order, the conversion of what the request
   carries at its declared location under its wire name - or nil when it is absent and unvalidated *)
Theorem C05_handler_args : forall cfg c m tbl sc rq tr cn mn args st,
  handle cfg c m tbl sc rq = (tr, Invoked cn mn args st) ->
  cn = c_name c /\ mn = m_name m /\
  st = status_code sc (match m_ret m with Some _ => true | None => false end) /\
  exists authn, Forall2 (arg_spec authn rq) (m_params m) args.
Proof. exact handle_invoked_args. Qed.

(* a parameter documented as required and absent from its location is never bound ... *)
Theorem C05_absent_required_not_bound : forall authn rq p,
  scalar_param p -> param_required p = true ->
  (lookup (rq_fields rq) (pa_loc p) (wire_name p) = None \/ lookup (rq_fields rq) (pa_loc p) (wire_name p) = Some []) ->
  forall a, bind_param authn rq p <> BArg a.
Proof. exact absent_required_not_bound. Qed.

(* ... a present text that is no representation of the declared type is refused ... *)
Theorem C05_unconvertible_rejected : forall authn rq p ty raw rest,
  scalar_param p -> prim_of (pa_type p) = Some ty ->
  lookup (rq_fields rq) (pa_loc p) (wire_name p) = Some (raw :: rest) -> convert ty raw = None ->
  bind_param authn rq p = BReject.
Proof. exact unconvertible_not_bound. Qed.

(* ... and a method with such a parameter is not invoked, whatever the other parameters carry *)
Theorem C05_bad_param_never_invoked : forall cfg c m tbl sc rq p,
  In p (m_params m) -> (forall authn a, bind_param authn rq p <> BArg a) ->
  forall tr cn mn args st, handle cfg c m tbl sc rq <> (tr, Invoked cn mn args st).
Proof. exact handle_bad_param_never_invoked. Qed.

(* the 422 names the FIRST parameter, in signature order, that fails *)
Theorem C05_rejected_first : forall cfg c m tbl sc rq tr n,
  handle cfg c m tbl sc rq = (tr, Rejected n) ->
  exists authn pre p post, m_params m = pre ++ p :: post /\ pa_name p = n /\
    bind_param authn rq p = BReject /\ forall q, In q pre -> exists a, bind_param authn rq q = BArg a.
Proof. exact handle_rejected_first. Qed.

(* round trip through the handler: every representable value of the declared type arrives unchanged *)
Theorem C05_handler_roundtrip : forall authn rq p ty v rest,
  scalar_param p -> prim_of (pa_type p) = Some ty -> only_required (reduced_validator p) ->
  in_range ty v = true ->
  lookup (rq_fields rq) (pa_loc p) (wire_name p) = Some (print v :: rest) ->
  bind_param authn rq p = BArg (AVal (Some v)).
Proof. exact bind_param_roundtrip. Qed.

(* documented `required` (the flag of the emitted parameter object, [Spec.param_required]) = enforced:
   without the parameter a request is refused iff the document says required, and otherwise the method
   receives nil *)
Theorem C05_documented_required_is_enforced : forall authn rq p ty,
  scalar_param p -> prim_of (pa_type p) = Some ty -> only_required (reduced_validator p) ->
  (lookup (rq_fields rq) (pa_loc p) (wire_name p) = None \/ lookup (rq_fields rq) (pa_loc p) (wire_name p) = Some []) ->
  (op_required (mk_oparam p) = true -> bind_param authn rq p = BReject) /\
  (op_required (mk_oparam p) = false -> bind_param authn rq p = BArg (AVal None)).
Proof. exact documented_required_is_enforced. Qed.

(* static translation => dynamic model: the strconv statement the translator found in a generated handler
   (per-run obligation [tparam_ok], evaluated on every generated file of every engine) computes exactly the
   model's conversion of the declared type, for every raw text *)
Theorem C05_translated_conversion_is_model_conversion : forall e p t ty raw,
  tparam_ok e p t = true -> pa_loc p <> LBody -> prim_of (pa_type p) = Some ty ->
  go_strconv (tp_conv t) (tp_bits t) raw = convert ty raw.
Proof. exact translated_conversion_is_model_conversion. Qed.

(* "from its declared source": the outcome depends on the request only through the body and through what it
   carries at the declared location under the wire name of each parameter - a decoy under the same name in
   another location, or any other field, cannot influence it *)
Theorem C05_depends_only_on_declared_sources : forall cfg c m tbl sc r1 r2,
  agree_on (m_params m) r1 r2 -> handle cfg c m tbl sc r1 = handle cfg c m tbl sc r2.
Proof. exact handle_depends_only_on_declared_sources. Qed.

Example C05_decoy_ignored :
  handle demo_cfg demo_ctrl demo_method [] (mkOp false None) (demo_rq "5" "7") =
  handle demo_cfg demo_ctrl demo_method [] (mkOp false None)
         (mkReq (rq_fields (demo_rq "5" "7") ++ [(LQuery, s "id", [s "999"]); (LForm, s "X-q", [s "0"]); (LHeader, s "other", [s "z"])]) BEmpty).
Proof. exact demo_decoy_ignored. Qed.

Example C05_handler_nonvacuous :
  snd (handle demo_cfg demo_ctrl demo_method [] (mkOp false None) (demo_rq "128" "7")) = Rejected (s "id") /\
  snd (handle demo_cfg demo_ctrl demo_method [] (mkOp false None) (demo_rq "5" "2")) = Rejected (s "q").
Proof. exact (conj demo_rejected_range demo_rejected_rule). Qed.

(* ---- list-valued (slice) parameters: ONE element per occurrence of the wire name (the documented
   serialisation: form + explode); nothing inside an occurrence - a comma, a blank, any URL-reserved
   character - separates elements, and no occurrence is merged, dropped or reordered ---- *)
Theorem C05_slice_one_element_per_occurrence : forall authn rq p ty raws a,
  slice_param p -> prim_of (pa_type p) = Some ty ->
  lookup (rq_fields rq) (pa_loc p) (wire_name p) = Some raws -> raws <> [] ->
  bind_param authn rq p = BArg a ->
  exists vs, a = AList vs /\ Forall2 (fun r v => convert ty r = Some v) raws vs.
Proof. exact slice_bound_elementwise. Qed.

(* one occurrence that is no representation of the element type ("1843,1952" for []int) refuses the request *)
Theorem C05_slice_unconvertible_rejected : forall authn rq p ty raws r,
  slice_param p -> prim_of (pa_type p) = Some ty ->
  lookup (rq_fields rq) (pa_loc p) (wire_name p) = Some raws -> In r raws -> convert ty r = None ->
  bind_param authn rq p = BReject.
Proof. exact slice_unconvertible_rejected. Qed.

Theorem C05_slice_all_convert_bound : forall authn rq p ty raws vs,
  slice_param p -> prim_of (pa_type p) = Some ty -> only_required (reduced_validator p) ->
  lookup (rq_fields rq) (pa_loc p) (wire_name p) = Some raws -> raws <> [] ->
  Forall2 (fun r v => convert ty r = Some v) raws vs ->
  bind_param authn rq p = BArg (AList vs).
Proof. exact slice_all_convert_bound. Qed.

(* the per-request oracle of the check for slices (Model/SliceBind.v, written from the property text)
   accepts what the handler model does *)
Theorem C05_slice_oracle_accepts_model : forall authn rq p ty raws,
  slice_param p -> prim_of (pa_type p) = Some ty -> only_required (reduced_validator p) ->
  lookup (rq_fields rq) (pa_loc p) (wire_name p) = Some raws -> raws <> [] ->
  match bind_param authn rq p with
  | BArg (AList vs) => forall st, prop_C05_slice_request ty raws true st (Some vs) false = true
  | BReject => forall got, prop_C05_slice_request ty raws false 422 got false = true
  | _ => False
  end.
Proof. exact slice_oracle_accepts_model. Qed.

Example C05_slice_nonvacuous :
  bind_param 0 (slice_demo_rq ["Lovelace, Ada"%string]) (slice_demo_param "string") = BArg (AList [VStr (s "Lovelace, Ada")]) /\
  bind_param 0 (slice_demo_rq ["a"%string; "b,c"%string]) (slice_demo_param "string") = BArg (AList [VStr (s "a"); VStr (s "b,c")]) /\
  bind_param 0 (slice_demo_rq ["1843,1952"%string]) (slice_demo_param "int") = BReject /\
  bind_param 0 (slice_demo_rq ["1843"%string; "1952"%string]) (slice_demo_param "int") = BArg (AList [VInt 1843; VInt 1952]) /\
  prop_C05_slice_request PString [s "Lovelace, Ada"] true 200 (Some [VStr (s "Lovelace"); VStr (s " Ada")]) false = false /\
  prop_C05_slice_request PInt [s "1843,1952"] true 200 (Some [VInt 1843; VInt 1952]) false = false /\
  prop_C05_slice_request PInt [s "1843,1952"] false 422 None false = true.
Proof. exact slice_demo. Qed.

Print Assumptions C05_decimal_roundtrip.
Print Assumptions C05_uint_roundtrip.
Print Assumptions C05_int_roundtrip.
Print Assumptions C05_uint_never_wraps.
Print Assumptions C05_bind_roundtrip.
Print Assumptions C05_oracle_holds.
Print Assumptions C05_uint32_refuted.
Print Assumptions C05_translated_handlers_sound.
Print Assumptions C05_translated_handler_sound.
Print Assumptions C05_wire_names.
Print Assumptions C05_documented_params_are_bound.
Print Assumptions C05_nonvacuous.
Print Assumptions C05_handler_args.
Print Assumptions C05_absent_required_not_bound.
Print Assumptions C05_unconvertible_rejected.
Print Assumptions C05_bad_param_never_invoked.
Print Assumptions C05_rejected_first.
Print Assumptions C05_handler_roundtrip.
Print Assumptions C05_handler_nonvacuous.
Print Assumptions C05_documented_required_is_enforced.
Print Assumptions C05_translated_conversion_is_model_conversion.
Print Assumptions C05_depends_only_on_declared_sources.
Print Assumptions C05_decoy_ignored.
Print Assumptions C05_slice_one_element_per_occurrence.
Print Assumptions C05_slice_unconvertible_rejected.
Print Assumptions C05_slice_all_convert_bound.
Print Assumptions C05_slice_oracle_accepts_model.
Print Assumptions C05_slice_nonvacuous.
