(* C05 - Handlers bind each parameter from its declared source and enforce requiredness.
   Conversion part: every representable value of the declared type survives text -> value. *)
From Gleece Require Import Base.Bytes Model.Bind Proofs.BindProofs Model.Project Model.Spec Model.Router
     Model.RouterParams Proofs.RouterParamsProofs Proofs.CrossProofs.
From Coq Require Import String.
Open Scope N_scope.

Theorem C05_decimal_roundtrip : forall n, parse_N (print_N n) = Some n.
Proof. exact parse_print_N. Qed.

Theorem C05_uint_roundtrip : forall bits n, n < 2 ^ bits -> parse_uint bits (print_N n) = Some n.
Proof. exact parse_uint_print. Qed.

Theorem C05_int_roundtrip : forall bits z,
  0 < bits -> (- 2 ^ (Z.of_N bits - 1) <= z < 2 ^ (Z.of_N bits - 1))%Z ->
  parse_int bits (print_Z z) = Some z.
Proof. exact parse_int_print. Qed.

(* out-of-range text is rejected, never wrapped around *)
Theorem C05_uint_never_wraps : forall bits p n, parse_uint bits p = Some n -> n < 2 ^ bits.
Proof. exact parse_uint_range. Qed.

(* the property for conversions: for every declared primitive type and every representable
   value of it (boundary integers included), the handler's conversion of the client's text
   yields exactly that value *)
Theorem C05_bind_roundtrip : forall ty v, in_range ty v = true -> convert ty (print v) = Some v.
Proof. exact bind_roundtrip. Qed.

Theorem C05_oracle_holds : forall ty v, prop_C05_value ty v (convert ty (print v)) = true.
Proof. exact prop_C05_value_holds. Qed.

(* with the bit size 32 that the templates used for `uint` the statement is false *)
Theorem C05_uint32_refuted :
  exists n, in_range PUint (VUint n) = true /\ option_map VUint (parse_uint 32 (print_N n)) = None.
Proof. exact uint32_conversion_refuted. Qed.

(* what the per-run translation obligation on a generated routes file yields, handler by handler
   and parameter by parameter: declared location and wire name, conversion function and bit size
   of the declared type, reduced validator; arguments passed in signature order *)
Theorem C05_translated_handlers_sound : forall e p hs,
  router_params_ok e p hs = true ->
  Forall2 (fun cm h => handler_params_ok e (snd cm) (fst h) (snd h) = true) (routes_of p) hs.
Proof. exact router_params_sound. Qed.

Theorem C05_translated_handler_sound : forall e m tps args,
  handler_params_ok e m tps args = true ->
  Forall2 (fun p t => tparam_ok e p t = true) (filter (fun p => negb (pa_ctx p)) (m_params m)) tps /\
  Forall2 (fun p a => arg_ok p a = true) (m_params m) args.
Proof. exact handler_params_sound. Qed.

Theorem C05_wire_names : forall e p t, tparam_ok e p t = true -> loc_eqb (pa_loc p) LBody = false ->
  forall w, In w (tp_wires t) -> w = wire_name p.
Proof. exact tparam_ok_wire. Qed.

(* documented parameters = bound parameters, across the two artifacts: whenever the model emits a
   document d and a generated routes file passed its translation obligation, every parameter the
   document shows for an operation is read by that operation's handler from the documented
   location (the engine's request-reading expressions for it) under the documented name *)
Theorem C05_documented_params_are_bound : forall (e : engine) (p : project) (d : list operation)
        (hs : list (list tparam * list str)),
  spec_ops p = Some d -> router_params_ok e p hs = true ->
  forall o, In o d ->
  exists c m h, In (c, m) (routes_of p) /\ In h hs /\ o_id o = m_name m /\
    forall dp, In dp (o_params o) ->
    exists prm t, In prm (m_params m) /\ pa_ctx prm = false /\ In t (fst h) /\
      op_name dp = wire_name prm /\ op_in dp = lower_loc (pa_loc prm) /\
      (forall w, In w (tp_wires t) -> w = op_name dp) /\
      forallb (source_ok e (pa_loc prm) (tp_var t)) (tp_sources t) = true.
Proof. exact documented_params_are_bound. Qed.

Example C05_nonvacuous :
  convert PUint (print (VUint 18446744073709551615)) = Some (VUint 18446744073709551615) /\
  convert (PIntN 8) (print (VInt (-128))) = Some (VInt (-128)) /\
  convert (PIntN 8) (s "128"%string) = None /\ convert (PUintN 16) (s "-1"%string) = None /\
  convert PInt (s "12x"%string) = None /\ convert PBool (s "yes"%string) = None /\
  in_range PInt (VInt (-9223372036854775808)) = true.
Proof. exact bind_demo. Qed.

Print Assumptions C05_decimal_roundtrip.
Print Assumptions C05_uint_roundtrip.
Print Assumptions C05_int_roundtrip.
Print Assumptions C05_uint_never_wraps.
Print Assumptions C05_bind_roundtrip.
Print Assumptions C05_oracle_holds.
Print Assumptions C05_uint32_refuted.
Print Assumptions C05_translated_handlers_sound.
Print Assumptions C05_translated_handler_sound.
Print Assumptions C05_wire_names.
Print Assumptions C05_documented_params_are_bound.
Print Assumptions C05_nonvacuous.
