(* C19 - Re-running analysis on an unchanged project is idempotent and cache-transparent. *)
From Gleece Require Import Base.Bytes Model.Session Proofs.SessionProofs.
From Coq Require Import String.

(* memoised import serials: a second reduction pass over the same keys on the same provider
   returns exactly the same serials and leaves the provider unchanged ... *)
Theorem C19_serials_idempotent : forall pv keys,
  let '(pv1, ns1) := reduce_pass pv keys in reduce_pass pv1 keys = (pv1, ns1).
Proof. exact serials_idempotent. Qed.

(* ... and so does every later round, for any number of rounds *)
Theorem C19_serials_all_rounds : forall n pv keys ns,
  In ns (snd (rounds n pv keys)) -> ns = snd (reduce_pass pv keys).
Proof. exact serials_stable_all_rounds. Qed.

(* the oracle evaluated on the observed round summaries *)
Theorem C19_oracle_spec : forall rs f,
  prop_C19 rs (Some f) = true <-> rs <> [] /\ forall r, In r rs -> r = f.
Proof. exact prop_C19_spec. Qed.

Example C19_nonvacuous :
  let keys := [s "error"; s "Item"; s "string"; s "Item"; s "error"; s "Other"]%string in
  snd (reduce_pass ([], 0%N) keys) = [0; 1; 2; 1; 0; 3]%N /\
  reduce_pass (fst (reduce_pass ([], 0%N) keys)) keys =
  (fst (reduce_pass ([], 0%N) keys), [0; 1; 2; 1; 0; 3]%N).
Proof. exact serials_demo. Qed.

Print Assumptions C19_serials_idempotent.
Print Assumptions C19_serials_all_rounds.
Print Assumptions C19_oracle_spec.
Print Assumptions C19_nonvacuous.
