(* C19 - Re-running analysis on an unchanged project is idempotent and cache-transparent. *)
From Gleece Require Import Base.Bytes Model.Session Proofs.SessionProofs Model.Graph Proofs.GraphProofs
     Proofs.SessionGraphProofs.
From Coq Require Import String.

(* memoised import serials: a second reduction pass over the same keys on the same provider
   returns exactly the same serials and leaves the provider unchanged ... *)
Theorem C19_serials_idempotent : forall pv keys,
  let '(pv1, ns1) := reduce_pass pv keys in reduce_pass pv1 keys = (pv1, ns1).
Proof. exact serials_idempotent. Qed.

(* ... and so does every later round, for any number of rounds *)
Theorem C19_serials_all_rounds : forall n pv keys ns,
  In ns (snd (rounds n pv keys)) -> ns = snd (reduce_pass pv keys).
Proof. exact serials_stable_all_rounds. Qed.

(* the symbol graph: replaying any builder calls of the first analysis round, in any order and any
   number of times, on the graph that round produced leaves it unchanged - exactly (state
   equality) for node/edge insertions, and as a set of nodes and (from, kind, to) edges for all
   insertion requests (struct / field / enum included), given that the project is unchanged
   (every symbol is added under a single file version) *)
Theorem C19_graph_replay : forall sc h h',
  forallb is_simple_add h = true -> version_coherent h = true ->
  (forall o, In o h' -> In o h) ->
  fold_left (step sc) h' (run sc h) = run sc h.
Proof. exact graph_replay_identity_sub. Qed.

Theorem C19_graph_replay_rounds : forall sc h n,
  forallb is_simple_add h = true -> version_coherent h = true ->
  Nat.iter n (fun s => fold_left (step sc) h s) (run sc h) = run sc h.
Proof. exact graph_replay_identity_iter. Qed.

Theorem C19_graph_replay_abs : forall sc h h',
  sched_ok sc -> forallb is_add h = true -> ops_coherent h = true -> ops_noerr h = true ->
  (forall o, In o h' -> In o h) ->
  abs (fold_left (step sc) h' (run sc h)) = abs (run sc h).
Proof. exact graph_replay_identity_abs. Qed.

(* the oracle evaluated on the observed round summaries *)
Theorem C19_oracle_spec : forall rs f,
  prop_C19 rs (Some f) = true <-> rs <> [] /\ forall r, In r rs -> r = f.
Proof. exact prop_C19_spec. Qed.

Example C19_nonvacuous :
  let keys := [s "error"; s "Item"; s "string"; s "Item"; s "error"; s "Other"]%string in
  snd (reduce_pass ([], 0%N) keys) = [0; 1; 2; 1; 0; 3]%N /\
  reduce_pass (fst (reduce_pass ([], 0%N) keys)) keys =
  (fst (reduce_pass ([], 0%N) keys), [0; 1; 2; 1; 0; 3]%N).
Proof. exact serials_demo. Qed.

Print Assumptions C19_serials_idempotent.
Print Assumptions C19_serials_all_rounds.
Print Assumptions C19_graph_replay.
Print Assumptions C19_graph_replay_rounds.
Print Assumptions C19_graph_replay_abs.
Print Assumptions C19_oracle_spec.
Print Assumptions C19_nonvacuous.
