(* C10 - Validation accepts exactly the well-linked routes, else blocks all output.
   Only statements here; every proof is [exact lemma].  The model functions are those of
   Model/Linker.v ([validate], [accepted], [run_cmd]), the ones the correspondence check runs
   against pipeline.Validate() and the real command on every run; [well_linked] is written
   from the property text alone.

   Full statements:
     C10_sound    : forall r, accepted r = true -> well_linked r = true
     C10_complete : forall r, well_linked r = true -> accepted r = true
   Both are FALSE of the faithful model of the current code (witnesses below, each confirmed
   on the real code by the check); what is proved is the pair under the exact boolean
   preconditions [sound_excl] / [compl_excl] (disjunctions of the recorded classes) and
   [in_scope] (the annotation vocabulary the property text speaks about). *)
From Gleece Require Import Base.Bytes Model.Annot Model.Linker Proofs.LinkerProofs Model.CtlSelf Proofs.CtlSelfProofs.

(* extractUrlParams computes the {names} of a template as the property text defines them *)
Theorem C10_url_params_spec : forall t, extract_url_params t = template_names t.
Proof. exact extract_url_params_spec. Qed.

(* soundness, outside the recorded classes (F6 a-f) *)
Theorem C10_sound_partial : forall r,
  in_scope r = true -> sound_excl r = false -> accepted r = true -> well_linked r = true.
Proof. exact sound_partial. Qed.

(* completeness, outside the recorded classes *)
Theorem C10_complete_partial : forall r,
  in_scope r = true -> compl_excl r = false -> well_linked r = true -> accepted r = true.
Proof. exact complete_partial. Qed.

(* the full soundness statement is refuted; one witness per class *)
Theorem C10_sound_refuted : exists r, in_scope r = true /\ accepted r = true /\ well_linked r = false.
Proof. exact sound_refuted. Qed.

Theorem C10_sound_refuted_classes :
  (refutes_sound demo_prefix /\ sx_prefix demo_prefix = true)
  /\ (refutes_sound demo_bare_path /\ sx_bare_path demo_bare_path = true)
  /\ (refutes_sound demo_two_routes /\ sx_two_routes demo_two_routes = true)
  /\ (refutes_sound demo_alias_shadow /\ sx_alias_shadow demo_alias_shadow = true)
  /\ (refutes_sound demo_loose_type /\ sx_loose_type demo_loose_type = true)
  /\ (refutes_sound demo_blank /\ sx_blank_value demo_blank = true).
Proof. exact sound_witnesses. Qed.

(* so is the full completeness statement *)
Theorem C10_complete_refuted : exists r, in_scope r = true /\ well_linked r = true /\ accepted r = false.
Proof. exact complete_refuted. Qed.

Theorem C10_complete_refuted_classes :
  (refutes_complete demo_value_clash /\ cx_value_clash demo_value_clash = true)
  /\ (refutes_complete demo_empty_alias /\ cx_empty_alias demo_empty_alias = true)
  /\ (refutes_complete demo_primitive_body /\ cx_primitive_body demo_primitive_body = true)
  /\ (refutes_complete demo_alias_ptr_slice /\ cx_alias_ptr_slice demo_alias_ptr_slice = true)
  /\ (refutes_complete demo_foreign_error /\ cx_foreign_error demo_foreign_error = true).
Proof. exact complete_witnesses. Qed.

(* the oracle evaluated on implementation verdicts never fails on the model's own verdict *)
Theorem C10_oracle_on_model : forall r, prop_C10 r (accepted r) = true.
Proof. exact oracle_on_model. Qed.

(* any error-severity diagnostic anywhere: the command fails and the two files are untouched *)
Theorem C10_no_output : forall gen p before,
  existsb has_error_diag p = true -> run_cmd gen p before = (ExitFail, before).
Proof. exact no_output. Qed.

(* conversely a successful command saw no blocking route *)
Theorem C10_output_only_accepted : forall gen p before ro sp,
  run_cmd gen p before = (ExitOk, {| f_routes := Some ro; f_spec := Some sp |}) ->
  forall r, In r p -> blocks r = false.
Proof. exact output_only_accepted. Qed.

(* non-vacuity: a route with every kind of annotation satisfies all hypotheses and is accepted
   with no diagnostic at all; a project with one rejected route fails, a clean one is written *)
Example C10_nonvacuous :
  in_scope demo_ok = true /\ sound_excl demo_ok = false /\ compl_excl demo_ok = false
  /\ well_linked demo_ok = true /\ accepted demo_ok = true /\ validate demo_ok = VDiags [].
Proof. exact demo_ok_facts. Qed.

Example C10_nonvacuous_cmd : forall gen before,
  run_cmd gen [demo_ok; demo_empty_alias] before = (ExitFail, before)
  /\ run_cmd gen [demo_ok] before = (ExitOk, {| f_routes := Some (fst (gen [demo_ok])); f_spec := Some (snd (gen [demo_ok])) |}).
Proof. exact demo_cmd. Qed.

(* A problem in the properties object of an annotation (unknown key, `name` where none is taken, wrong type)
   is a warning and masks nothing: the error-severity verdict of the annotation checks is the one of the same
   comment without the unknown property key. *)
Theorem C10_props_warnings_mask_nothing : forall r,
  no_error (common_diags r) = no_error (common_diags (route_without_xprop r)).
Proof. exact props_warnings_mask_nothing. Qed.

(* @Hidden only removes the operation from the OpenAPI document.  The property text does not depend on it,
   and a hidden route is accepted only if it is well linked. *)
Theorem C10_well_linked_with_hidden : forall r, well_linked (with_hidden r) = well_linked r.
Proof. exact well_linked_with_hidden. Qed.

Theorem C10_hidden_not_exempt : forall r,
  existsb (kind_is KHidden) (r_attrs r) = true ->
  in_scope r = true -> sound_excl r = false -> accepted r = true -> well_linked r = true.
Proof. exact hidden_not_exempt. Qed.

(* non-vacuity: a hidden well-linked route is accepted without any diagnostic; a hidden route with an unbound
   URL parameter gets an error diagnostic; an annotation with a property warning AND a link error keeps the
   error (codes: 6/5 = property warnings, 9 = duplicate value, 4 = unsupported verb) *)
Example C10_nonvacuous_hidden :
  (in_scope demo_hidden_ok = true /\ well_linked demo_hidden_ok = true /\ accepted demo_hidden_ok = true
   /\ validate demo_hidden_ok = VDiags [])
  /\ (in_scope demo_hidden_unbound = true /\ sound_excl demo_hidden_unbound = false
      /\ well_linked demo_hidden_unbound = false /\ has_error_diag demo_hidden_unbound = true).
Proof. exact demo_hidden_facts. Qed.

Example C10_nonvacuous_props_warning :
  (in_scope demo_xprop_double_ref = true /\ well_linked demo_xprop_double_ref = false
   /\ has_error_diag demo_xprop_double_ref = true
   /\ obs_of (validate demo_xprop_double_ref) = (2, [(6, 2); (9, 1)]))
  /\ (in_scope demo_xprop_verb = true /\ well_linked demo_xprop_verb = false
      /\ obs_of (validate demo_xprop_verb) = (2, [(5, 2); (4, 1)])).
Proof. exact demo_xprop_facts. Qed.

(* Parameters declared together (`tags, labels []string`) share a type, not a verdict: the type diagnostics of
   every bound parameter - judged under the kind of the annotation that binds IT - are among the diagnostics of
   the route, wherever the parameter stands; so an accepted route has no name, in any declaration, whose type
   does not suit its own annotation.  (The model has the flat parameter list only: the verdict is the same for
   every grouping of the parameters into declarations.) *)
Theorem C10_each_parameter_type_diags_reported : forall r l j p a pi,
  validate r = VDiags l -> In (j, p) (indexed (r_params r)) -> is_ctx p = false ->
  first_by_value (fp_name p) (r_attrs r) = Some a -> passed_of (la_kind a) = Some pi ->
  incl (type_diag j p pi) l.
Proof. exact each_parameter_type_diags_reported. Qed.

Theorem C10_declared_together_judged_separately : forall r ds ns b sh n a pi j,
  r_params r = params_of_decls ds -> accepted r = true ->
  In (ns, b, sh) ds -> In n ns ->
  let p := {| fp_name := n; fp_base := b; fp_shape := sh |} in
  is_ctx p = false -> first_by_value n (r_attrs r) = Some a -> passed_of (la_kind a) = Some pi ->
  type_diag j p pi = [].
Proof. exact declared_together_judged_separately. Qed.

(* non-vacuity: a slice declared for a query AND a header parameter, a struct declared for the body AND a query
   parameter: one error, on the second name; three strings declared together for path, query and header: accepted *)
Example C10_nonvacuous_declared_together :
  (in_scope demo_grouped_slice_header = true /\ well_linked demo_grouped_slice_header = false
   /\ validate demo_grouped_slice_header = VDiags [err CParamNotPrimitive (AnParam 1)]
   /\ accepted demo_grouped_slice_header = false)
  /\ (in_scope demo_grouped_struct_query = true /\ well_linked demo_grouped_struct_query = false
      /\ validate demo_grouped_struct_query = VDiags [err CParamNotPrimitive (AnParam 1)]
      /\ accepted demo_grouped_struct_query = false)
  /\ (in_scope demo_grouped_ok = true /\ well_linked demo_grouped_ok = true /\ accepted demo_grouped_ok = true
      /\ type_diag 2 demo_trace PHeader = []).
Proof. exact demo_grouped_facts. Qed.

(* The controller's OWN annotations (Model/CtlSelf.v: ControllerValidator.validateSelf).  An error there - an
   annotation name gleece does not know, an annotation without its required value - blocks the command whatever the
   controller exposes: its methods are universally quantified (no method at all, only methods that are no endpoints,
   endpoints).  [ctl_comment_in_error] is written from the text; the validator's case analysis agrees with it. *)
Theorem C10_controller_error_iff : forall attrs,
  no_error (ctl_self_diags attrs) = negb (ctl_comment_in_error attrs).
Proof. exact ctl_self_error_iff. Qed.

Theorem C10_controller_error_blocks_whatever_it_exposes : forall gen p before c,
  In c p -> ctl_comment_in_error (c_attrs c) = true ->
  run_project gen p before = (ExitFail, before).
Proof. exact ctl_error_blocks_whatever_it_exposes. Qed.

Theorem C10_project_output_only_without_controller_errors : forall gen p before fs',
  run_project gen p before = (ExitOk, fs') ->
  forall c, In c p -> ctl_comment_in_error (c_attrs c) = false.
Proof. exact run_project_ok_clean. Qed.

(* non-vacuity: a stub with a misspelt @Tag whose only method lost its @Method, next to a well-formed controller *)
Example C10_nonvacuous_controller_stub : forall gen before,
  endpoints {| c_attrs := demo_ctl_typo; c_routes := [demo_stub_method] |} = []
  /\ ctl_comment_in_error demo_ctl_typo = true
  /\ run_project gen [ {| c_attrs := demo_ctl_ok; c_routes := [demo_ok] |};
                       {| c_attrs := demo_ctl_typo; c_routes := [demo_stub_method] |} ] before = (ExitFail, before).
Proof. exact stub_with_typo_blocks. Qed.

Print Assumptions C10_url_params_spec.
Print Assumptions C10_sound_partial.
Print Assumptions C10_complete_partial.
Print Assumptions C10_sound_refuted.
Print Assumptions C10_sound_refuted_classes.
Print Assumptions C10_complete_refuted.
Print Assumptions C10_complete_refuted_classes.
Print Assumptions C10_oracle_on_model.
Print Assumptions C10_no_output.
Print Assumptions C10_output_only_accepted.
Print Assumptions C10_nonvacuous.
Print Assumptions C10_nonvacuous_cmd.
Print Assumptions C10_props_warnings_mask_nothing.
Print Assumptions C10_well_linked_with_hidden.
Print Assumptions C10_hidden_not_exempt.
Print Assumptions C10_nonvacuous_hidden.
Print Assumptions C10_nonvacuous_props_warning.
Print Assumptions C10_each_parameter_type_diags_reported.
Print Assumptions C10_declared_together_judged_separately.
Print Assumptions C10_nonvacuous_declared_together.
Print Assumptions C10_controller_error_iff.
Print Assumptions C10_controller_error_blocks_whatever_it_exposes.
Print Assumptions C10_project_output_only_without_controller_errors.
Print Assumptions C10_nonvacuous_controller_stub.
