(* C13 - Output is a deterministic function of project and configuration. *)
From Gleece Require Import Base.Bytes Base.Sorting Model.Determinism Proofs.DeterminismProofs.
From Coq Require Import Permutation String.

(* sorting by pairwise distinct keys is canonical: the arbitrary order in which a map, a glob
   or packages.Load delivered the elements is forgotten *)
Theorem C13_sort_canonical : forall (A : Type) (key : A -> str) (l l' : list A),
  Permutation l l' -> NoDup (map key l) -> sort_by key l = sort_by key l'.
Proof. exact @sort_by_perm_eq. Qed.

(* the order of controllers, of each controller's routes, and the import serials that reach
   the routes file do not depend on the order of files and of graph nodes *)
Theorem C13_routes_order_independent : forall files files' ctrls ctrls',
  Permutation files files' -> Permutation ctrls ctrls' ->
  NoDup (map f_path files) -> NoDup ctrls ->
  routes_file_order files ctrls = routes_file_order files' ctrls'.
Proof. exact routes_file_order_perm. Qed.

(* objects rendered through a key-sorted map do not depend on insertion order *)
Theorem C13_sorted_rendering : forall (V : Type) (kvs kvs' : list (str * V)),
  Permutation kvs kvs' -> NoDup (map fst kvs) -> render_sorted kvs = render_sorted kvs'.
Proof. exact @render_sorted_perm. Qed.

(* the oracle evaluated on the observed artifact hashes *)
Theorem C13_oracle_spec : forall hashes,
  prop_C13 hashes = true <-> forall x y, In x hashes -> In y hashes -> x = y.
Proof. exact prop_C13_spec. Qed.

Example C13_nonvacuous :
  routes_file_order demo_files [s "B"; s "A"]%string =
  ([(s "A", [s "M0"; s "M2"]); (s "B", [s "M3"; s "M1"])],
   [(false, 2%N, s "Item"); (true, 3%N, s "y"); (true, 2%N, s "q")])%string /\
  routes_file_order (rev demo_files) [s "A"; s "B"]%string = routes_file_order demo_files [s "B"; s "A"]%string.
Proof. exact demo_order. Qed.

Print Assumptions C13_sort_canonical.
Print Assumptions C13_routes_order_independent.
Print Assumptions C13_sorted_rendering.
Print Assumptions C13_oracle_spec.
Print Assumptions C13_nonvacuous.
