(* C20 - Configuration is validated up front and honoured in the output.
   Only statements here; every proof is [exact lemma].

   [validate o a cfg] models cmd.LoadGleeceConfig for the validation schema [a]
   (Gen_tags.config_schema, regenerated from the real struct tags on every run) and
   [cmd o a c w cfg] the generate commands; [o] stands for the string predicates of
   go-playground/validator and gleece's custom validators: every theorem holds for ALL
   oracles that keep the enum claims ([enum_sound o]: the two custom enum validators accept
   nothing outside the exactly spelled enumeration; the check evaluates the claim on every
   string it asks the real validator about, case variants of the legal values included;
   [C20_enum_claim_needed] shows what happens without it), all schemas [a] meeting the per-run obligation
   [schema_at_least declared_schema a = true], all JSON documents and all worlds
   (existing files and their modes, umask, project files, glob matcher, success of the
   analysis and of the spec library). *)
From Coq Require Import String.
From Gleece Require Import Base.Bytes Model.Config Proofs.ConfigProofs Model.ConfigLoad Proofs.ConfigLoadProofs.
Open Scope list_scope.

(* what "violates a declared constraint" means: some rule list of the schema fails on some
   value that its field path denotes in the document (the zero value for an absent field
   of a present or absent section, every element below a list, nothing below an absent
   optional object) *)
Theorem C20_violates_spec : forall o d cfg,
  violatesb o d cfg = true <->
  exists e i, In e d /\ In i (instances (e_path e) (Some cfg)) /\ eval o (e_eff e) i <> None.
Proof. exact violatesb_spec. Qed.

(* the once-proved half of the translator obligation: a schema that is at least the
   declared one refuses every document that violates the declared one *)
Theorem C20_schema_at_least_sound : forall d a,
  schema_at_least d a = true ->
  forall o cfg, enum_sound o -> violates o d cfg -> validate o a cfg <> Valid.
Proof. exact schema_at_least_sound. Qed.

(* ... and its validation message names every violated field *)
Theorem C20_names_fields : forall d a,
  schema_at_least d a = true ->
  forall o cfg errs, enum_sound o -> validate o a cfg = Invalid errs ->
  forall ed, In ed (violated_entries o d cfg) -> In (name_in a ed) (map fst errs).
Proof. exact schema_at_least_names. Qed.

(* validation precedes everything: a refused configuration is not analysed and nothing is written *)
Theorem C20_reject : forall o a c w cfg,
  validate o a cfg <> Valid ->
  cmd o a c w cfg = Rejected (validate o a cfg) /\
  written (cmd o a c w cfg) = [] /\ analysis_started (cmd o a c w cfg) = false.
Proof. exact cmd_rejects. Qed.

(* the first sentence of the property, for the declared constraints the tag language expresses *)
Theorem C20_reject_declared : forall a, schema_at_least declared_schema a = true ->
  forall o c w cfg, enum_sound o -> violates o declared_schema cfg ->
  exists v, cmd o a c w cfg = Rejected v /\ v <> Valid /\
            written (cmd o a c w cfg) = [] /\ analysis_started (cmd o a c w cfg) = false /\
            (forall errs, v = Invalid errs ->
               forall ed, In ed (violated_entries o declared_schema cfg) -> In (name_in a ed) (map fst errs)).
Proof. exact reject_declared. Qed.

(* the second sentence: what a successful command wrote *)
Theorem C20_done_kinds : forall o a c w cfg arts,
  cmd o a c w cfg = Done arts -> map a_kind arts = kinds_for c /\ validate o a cfg = Valid.
Proof. exact done_kinds. Qed.

Theorem C20_honoured_routes : forall o a c w cfg arts r,
  cmd o a c w cfg = Done arts -> In r arts -> a_kind r = ARoutes ->
  a_path r = str_at [k_routes; s "outputPath"] cfg /\
  (forall m, str_at [k_routes; s "outputFilePerms"] cfg <> [] ->
             parse_octal_from 0 (str_at [k_routes; s "outputFilePerms"] cfg) = Some m -> a_mode r = m) /\
  (str_at [k_routes; s "outputFilePerms"] cfg = [] ->
     a_mode r = match w_pre w (a_path r) with Some old => old | None => N.ldiff default_mode (w_umask w) end) /\
  attr (s "package") (a_attrs r) =
    (match str_at [k_routes; s "packageName"] cfg with [] => s "routes" | p => p end) /\
  attr (s "engine") (a_attrs r) = engine_import (str_at [k_routes; s "engine"] cfg) /\
  attr (s "auth") (a_attrs r) = str_at [k_routes; k_auth; s "authFileFullPackageName"] cfg /\
  a_ctrls r = flat_map snd (filter (fun f => glob_hit w (globs_of cfg) (fst f)) (w_files w)).
Proof. exact honoured_routes_readable. Qed.

Theorem C20_honoured_spec : forall o a c w cfg arts p,
  cmd o a c w cfg = Done arts -> In p arts -> a_kind p = ASpec ->
  a_path p = str_at [k_openapi_cfg; k_specgen; s "outputPath"] cfg /\
  attr (s "openapi") (a_attrs p) = str_at [k_openapi_cfg; s "openapi"] cfg /\
  copied spec_copy_table (Some cfg) (a_attrs p) = true /\
  attr (s "server") (a_attrs p) = str_at [k_openapi_cfg; s "baseUrl"] cfg /\
  (forall e, In e (survivors (scheme_elems cfg)) ->
     exists sc, In sc (a_schemes p) /\ fst sc = scheme_name e /\ copied scheme_copy_table (norm e) (snd sc) = true) /\
  (forall sc, In sc (a_schemes p) -> In (fst sc) (map scheme_name (scheme_elems cfg))) /\
  a_ctrls p = flat_map snd (filter (fun f => glob_hit w (globs_of cfg) (fst f)) (w_files w)).
Proof. exact honoured_spec_readable. Qed.

(* The oracle evaluated on the real CLI's behaviour holds of the model.
   FULL STATEMENT (refuted for the code as it is by C20_scheme_shape_refuted):
     forall a, schema_at_least declared_schema a = true ->
     forall o c w cfg, prop_C20 o a c w cfg (observe (cmd o a c w cfg)) = true.
   Proved: for documents whose security schemes are well-formed across fields
   ([cross_ok]: apiKey has in+fieldName, http has scheme, oauth2 has flows, openIdConnect
   has its URL, defaultSecurity names a declared scheme). *)
Theorem C20_holds_partial : forall a, schema_at_least declared_schema a = true ->
  forall o c w cfg, enum_sound o -> cross_ok cfg = true ->
  prop_C20 o a c w cfg (observe (cmd o a c w cfg)) = true.
Proof. exact prop_holds_partial. Qed.

Theorem C20_load_holds_partial : forall a, schema_at_least declared_schema a = true ->
  forall o cfg, enum_sound o -> cross_ok cfg = true -> prop_C20_load o a cfg (validate o a cfg) = true.
Proof. exact load_holds_partial. Qed.

(* the enum claim: meaning of what the check evaluates, and that it follows from the hypothesis *)
Theorem C20_enum_sound_on_spec : forall o vals,
  enum_sound_on o vals = true <->
  forall n p alts v, In (n, p, alts) enum_claims -> In v vals -> o n p v = true -> In v alts.
Proof. exact enum_sound_on_spec. Qed.

Theorem C20_enum_sound_on_all : forall o, enum_sound o -> forall vals, enum_sound_on o vals = true.
Proof. exact enum_sound_on_all. Qed.

(* the hypothesis is satisfiable ... *)
Example C20_enum_sound_demo : enum_sound demo_oracle.
Proof. exact demo_oracle_enum_sound. Qed.

(* ... and needed: a validator comparing the scheme type without regard to case lets the
   document with type "ApiKey" through; the routes file is written before the spec fails *)
Theorem C20_enum_claim_needed :
  schema_at_least declared_schema snapshot_schema = true /\
  enum_sound_on lax_oracle [s "apiKey"; s "ApiKey"] = false /\
  enum_sound_on demo_oracle [s "apiKey"; s "ApiKey"; s "HTTP"; s "Header"; s "header"; []] = true /\
  violatesb lax_oracle declared_schema demo_cfg_case_variant = true /\
  cross_ok demo_cfg_case_variant = true /\
  validate lax_oracle snapshot_schema demo_cfg_case_variant = Valid /\
  map a_kind (written (cmd lax_oracle snapshot_schema CBoth bad_world demo_cfg_case_variant)) = [ARoutes] /\
  prop_C20 lax_oracle snapshot_schema CBoth bad_world demo_cfg_case_variant
           (observe (cmd lax_oracle snapshot_schema CBoth bad_world demo_cfg_case_variant)) = false /\
  validate demo_oracle snapshot_schema demo_cfg_case_variant = Invalid [(s "Type", s "security_schema_type")].
Proof. exact enum_claim_needed. Qed.

(* "only files matched by controllerGlobs contribute controllers": a controller is in the
   artifacts exactly when its file is matched by SOME expression of the list ... *)
Theorem C20_selected_ctrls : forall w cfg c,
  In c (selected_ctrls w cfg) <->
  exists f cs g, In (f, cs) (w_files w) /\ In c cs /\ In g (globs_of cfg) /\ w_glob w g f = true.
Proof. exact selected_ctrls_spec. Qed.

Theorem C20_done_ctrls : forall o a c w cfg arts x,
  cmd o a c w cfg = Done arts -> In x arts -> a_ctrls x = selected_ctrls w cfg.
Proof. exact done_ctrls. Qed.

(* ... whatever the order and multiplicity of the expressions, and whatever else the other
   expressions matched (e.g. other files of the same directory): a further expression
   before or after never removes a file *)
Theorem C20_globs_order_irrelevant : forall w gs gs' f,
  (forall g, In g gs <-> In g gs') -> glob_hit w gs f = glob_hit w gs' f.
Proof. exact glob_hit_set. Qed.

Theorem C20_globs_monotone : forall w gs before after f,
  glob_hit w gs f = true -> glob_hit w (before ++ gs ++ after) f = true.
Proof. exact glob_hit_mono. Qed.

Example C20_split_globs_nonvacuous :
  let sel gs := selected_ctrls demo_world (with_globs gs) in
  sel ["./ctl/main.controller.go"; "./ctl/decoy.controller.go"]%string = [s "MainController"; s "DecoyController"] /\
  sel ["./ctl/decoy.controller.go"; "./ctl/main.controller.go"]%string = [s "MainController"; s "DecoyController"] /\
  sel ["./ctl/decoy.controller.go"]%string = [s "DecoyController"] /\
  sel ["./nomatch.go"; "./ctl/decoy.controller.go"; "./ctl/decoy.controller.go"]%string = [s "DecoyController"] /\
  map (fun a => a_ctrls a)
      (written (cmd demo_oracle snapshot_schema CBoth demo_world
                    (with_globs ["./ctl/decoy.controller.go"; "./ctl/main.controller.go"]%string))) =
    [[s "MainController"; s "DecoyController"]; [s "MainController"; s "DecoyController"]].
Proof. exact split_globs_nonvacuous. Qed.

(* finding C20-scheme-shape: an apiKey scheme without location and field name is accepted by the validation;
   spec-and-routes then writes the routes file before the spec generator fails *)
Theorem C20_scheme_shape_refuted :
  exists cfg, cross_ok cfg = false /\ validate demo_oracle snapshot_schema cfg = Valid /\
    map a_kind (written (cmd demo_oracle snapshot_schema CBoth bad_world cfg)) = [ARoutes] /\
    prop_C20 demo_oracle snapshot_schema CBoth bad_world cfg
             (observe (cmd demo_oracle snapshot_schema CBoth bad_world cfg)) = false.
Proof. exact scheme_shape_refuted. Qed.

(* F14: the formula of the code before fix-F14 does not honour configured permissions on an
   existing file; the model ([routes_mode], the fixed code) does *)
Theorem C20_perms_unfixed_refuted :
  exists w path perms m, parse_octal_from 0 perms = Some m /\ routes_mode_unfixed w path perms <> m /\
                         routes_mode w path perms = m.
Proof. exact perms_unfixed_refuted. Qed.

(* non-vacuity: the obligation holds of the snapshot of the real tags; a valid document is
   accepted and its two artifacts carry the configured path and mode (0600 although the
   file existed with 0644; the fresh spec gets 0644 under umask 022) and only the
   controller matched by the glob; each kind of corruption (missing section, missing field,
   unknown engine, unknown version, bad URL, bad e-mail, bad permission string, malformed
   security scheme, case variants of a scheme type / location / engine, non-object document) is refused, violates the declared schema (or its
   types) and leaves nothing written *)
Example C20_obligation_on_snapshot : schema_at_least declared_schema snapshot_schema = true.
Proof. exact snapshot_at_least. Qed.

Example C20_nonvacuous :
  validate demo_oracle snapshot_schema demo_cfg = Valid /\
  violatesb demo_oracle declared_schema demo_cfg = false /\ cross_ok demo_cfg = true /\
  map (fun a => (a_kind a, a_path a, a_mode a, a_ctrls a))
      (written (cmd demo_oracle snapshot_schema CBoth demo_world demo_cfg)) =
    [ (ARoutes, s "./out/routes.go", 384%N, [s "MainController"]);
      (ASpec, s "./out/openapi.json", 420%N, [s "MainController"]) ] /\
  forallb (fun c => negb (is_valid (validate demo_oracle snapshot_schema c))) corruptions = true /\
  forallb (fun c => violatesb demo_oracle declared_schema c || negb (decode_ok declared_schema c)) corruptions = true /\
  forallb (fun c => is_nil (written (cmd demo_oracle snapshot_schema CBoth demo_world c))) corruptions = true.
Proof. exact demo_nonvacuous. Qed.

(* The loading step as a value, and several loads in one process (Model/ConfigLoad.v).
   [loaded_honours doc l]: the value [l] handed to the generators says what the accepted
   document [doc] says and nothing else (zero value = absent; a field with a default may be
   absent or hold the default).  What it guarantees: the same glob expressions and package
   name, defaults included, hence the same contributing controllers in every world. *)
Theorem C20_loaded_honours_effective : forall doc l,
  loaded_honours doc l = true -> globs_of l = globs_of doc /\ package_of l = package_of doc.
Proof. exact loaded_honours_effective. Qed.

Theorem C20_loaded_honours_ctrls : forall doc l w,
  loaded_honours doc l = true -> selected_ctrls w l = selected_ctrls w doc.
Proof. exact loaded_honours_ctrls. Qed.

(* the code that exists decodes every file into a fresh zero value: in a process that loads a
   history of documents, each result is the one a process loading that document alone gives *)
Theorem C20_loads_history_free : forall o a pre post d,
  nth_error (run_loads o a (pre ++ d :: post)) (List.length pre) = Some (load1 o a d) /\
  run_loads o a [d] = [load1 o a d].
Proof. exact run_loads_history_free. Qed.

Theorem C20_load1_spec : forall o a cfg,
  (validate o a cfg = Valid -> load1 o a cfg = (Valid, Some cfg)) /\
  (validate o a cfg <> Valid -> load1 o a cfg = (validate o a cfg, None)).
Proof. exact load1_spec. Qed.

Example C20_loads_nonvacuous :
  loaded_honours demo_cfg demo_cfg = true /\
  loaded_honours demo_no_globs demo_no_globs = true /\
  loaded_honours demo_no_globs demo_default_globs = true /\
  loaded_honours demo_no_globs demo_two_globs = false /\
  loaded_honours demo_two_globs demo_no_globs = false /\
  loaded_honours demo_cfg (with_member k_routes (s "packageName") (JStr (s "other")) demo_cfg) = false /\
  loaded_honours demo_cfg (with_member k_routes (s "validateResponsePayload") (JBool true) demo_cfg) = false /\
  loaded_honours demo_cfg (with_member k_routes (s "validateResponsePayload") (JBool false) demo_cfg) = true /\
  selected_ctrls demo_world_all demo_no_globs = [s "MainController"; s "DecoyController"] /\
  selected_ctrls demo_world_all demo_cfg = [s "MainController"] /\
  map fst (run_loads demo_oracle snapshot_schema [demo_two_globs; demo_no_globs]) = [Valid; Valid] /\
  prop_C20_loads
    [ {| lo_doc := demo_two_globs; lo_verdict := Valid; lo_value := Some demo_two_globs; lo_after := Some demo_two_globs |};
      {| lo_doc := demo_no_globs; lo_verdict := Valid; lo_value := Some demo_no_globs; lo_after := Some demo_no_globs |} ] = true /\
  prop_C20_loads
    [ {| lo_doc := demo_two_globs; lo_verdict := Valid; lo_value := Some demo_two_globs; lo_after := Some demo_two_globs |};
      {| lo_doc := demo_no_globs; lo_verdict := Valid; lo_value := Some demo_two_globs; lo_after := Some demo_two_globs |} ] = false.
Proof. exact loads_nonvacuous. Qed.

Print Assumptions C20_violates_spec.
Print Assumptions C20_schema_at_least_sound.
Print Assumptions C20_names_fields.
Print Assumptions C20_reject.
Print Assumptions C20_reject_declared.
Print Assumptions C20_done_kinds.
Print Assumptions C20_honoured_routes.
Print Assumptions C20_honoured_spec.
Print Assumptions C20_holds_partial.
Print Assumptions C20_load_holds_partial.
Print Assumptions C20_enum_sound_on_spec.
Print Assumptions C20_enum_sound_on_all.
Print Assumptions C20_enum_sound_demo.
Print Assumptions C20_enum_claim_needed.
Print Assumptions C20_selected_ctrls.
Print Assumptions C20_done_ctrls.
Print Assumptions C20_globs_order_irrelevant.
Print Assumptions C20_globs_monotone.
Print Assumptions C20_split_globs_nonvacuous.
Print Assumptions C20_scheme_shape_refuted.
Print Assumptions C20_perms_unfixed_refuted.
Print Assumptions C20_obligation_on_snapshot.
Print Assumptions C20_nonvacuous.
Print Assumptions C20_loaded_honours_effective.
Print Assumptions C20_loaded_honours_ctrls.
Print Assumptions C20_loads_history_free.
Print Assumptions C20_load1_spec.
Print Assumptions C20_loads_nonvacuous.
