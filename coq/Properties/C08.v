(* C08 - Whenever a spec is emitted it is a valid, closed OpenAPI document.
   Only statements here; every proof is [exact lemma].  [emit] is the document gleece builds,
   [cmd lib_ok] the command with the library validators as an oracle, [wf] / [prop_C08] the
   property text as a boolean (evaluated by the check on every file the real CLI writes). *)
From Gleece Require Import Base.Bytes Model.Project Model.Spec Model.Schema Proofs.SchemaProofs.
From Coq Require Import String.

(* every $ref the model emits (operations and components, both dialects, with or without the 3.0
   write-through) resolves in the model's own components: the closure of C07 is the set the
   references range over.  [universe_ok]: the sources type-check (referenced types are declared
   once) and only supported predeclared types are used *)
Theorem C08_refs_closed : forall v u d, universe_ok u -> emit v u = Some d -> refs_closed d = true.
Proof. exact emit_refs_closed. Qed.

(* info / servers / securitySchemes are the configuration's and operations only name configured
   schemes, for every universe and dialect *)
Theorem C08_sections : forall v u d, emit v u = Some d -> sections_ok (u_cfg u) d = true.
Proof. exact emit_sections. Qed.

(* a file is written only when gleece's own validators accepted, kin-openapi accepted the 3.0
   document (built first whatever the configured version is) and, for 3.1, libopenapi accepted the
   document that is written; lib30 / lib31 are oracles for the two libraries *)
Theorem C08_written_only_if_valid : forall lib30 lib31 v u d,
  cmd lib30 lib31 v u = Wrote d ->
  gleece_accepts u = true /\ emit v u = Some d /\
  (exists d30, emit V30 u = Some d30 /\ lib30 d30 = true) /\ (v = V31 -> lib31 d = true).
Proof. exact cmd_wrote_inv. Qed.

(* Full statement: forall v u d, cmd lib30 lib31 v u = Wrote d -> prop_C08 (u_cfg u) d = true
   for the real library validators.  It is false (C08_wf_refuted: F6, C08_enum_refuted: F18).
   Proved for well-linked universes, whatever the library validators do: the path template of
   every documented route (controller prefix included) and its path parameters match one to one,
   wire names are unique per location, and the declared enum values fit the enum's kind in the
   chosen dialect *)
Theorem C08_wf_partial : forall lib30 lib31 v u d,
  well_linked v u -> cmd lib30 lib31 v u = Wrote d -> prop_C08 (u_cfg u) d = true.
Proof. exact cmd_wf. Qed.

Theorem C08_emit_wf_partial : forall v u d, well_linked v u -> emit v u = Some d -> wf d = true.
Proof. exact emit_wf. Qed.

(* the decidable form of the hypothesis (what the check evaluates on generated universes) *)
Theorem C08_well_linked_decidable : forall v u, well_linked_b v u = true -> well_linked v u.
Proof. exact well_linked_b_sound. Qed.

(* F6: @Route(/users/{tenant}) on the controller, @Route(/plain) + @Path(id) on the method passes
   gleece's link validator and the path-parameter rule of kin-openapi (equal counts), and the
   written document has a path parameter id that is not in the template and none for tenant *)
Theorem C08_wf_refuted :
  gleece_accepts f6_u = true /\
  exists d, cmd lib_model_ok (lib_model_ok_v V31) V30 f6_u = Wrote d /\ wf d = false /\
            failed_clauses (u_cfg f6_u) d = [2] /\
            map (fun o => (dop_path o, map op_name (dop_params o))) (doc_ops d) =
              [(s "/users/{tenant}/plain", [s "id"])] /\
            exists d', cmd lib_model_ok (lib_model_ok_v V31) V31 f6_u = Wrote d' /\ wf d' = false.
Proof. exact f6_refuted. Qed.

(* F18: the 3.0 document of a universe that is well-linked for 3.1 lists the values of an
   integer enum as strings *)
Theorem C08_enum_refuted :
  well_linked V31 demo_u /\
  exists d, emit V30 demo_u = Some d /\ wf d = false /\ failed_clauses (u_cfg demo_u) d = [5] /\
            option_map k_enum (lookup (doc_comps d) (s "Kind")) = Some (Some [EStr (s "1"); EStr (s "2"); EStr (s "10")]).
Proof. exact f18_refuted. Qed.

(* non-vacuity: the demo universe is well-linked and its document is written; a rejecting
   kin-openapi or libopenapi makes the 3.1 command fail; the 3.0 command does not ask libopenapi *)
Example C08_nonvacuous :
  cmd lib_model_ok (lib_model_ok_v V31) V31 demo_u = Wrote demo_doc /\
  cmd (fun _ => false) (lib_model_ok_v V31) V31 demo_u = Failed /\
  cmd lib_model_ok (fun _ => false) V31 demo_u = Failed /\
  cmd lib_model_ok (fun _ => false) V30 demo_u <> Failed.
Proof. exact demo_cmd. Qed.

(* the configuration clause compares the OAuth flows one by one, scopes included: the demo
   document passes, the same document with every flow advertising the union of the scopes does not *)
Example C08_sections_flows :
  sections_ok (u_cfg demo_u) demo_doc = true /\
  sections_ok (u_cfg demo_u)
    (mkDoc (doc_title demo_doc) (doc_version demo_doc) (doc_servers demo_doc)
           (map union_flows (doc_schemes demo_doc)) (doc_ops demo_doc) (doc_comps demo_doc)) = false.
Proof. exact sections_flows_example. Qed.

(* GET /items/{id} + DELETE /items/{itemId}: accepted by gleece's validators, refused by the modelled
   kin-openapi rule in both dialects (the 3.0 document is built first), although each operation
   on its own is well-formed *)
Example C08_renamed_variable :
  gleece_accepts renamed_u = true /\
  cmd lib_model_ok (lib_model_ok_v V31) V30 renamed_u = Failed /\
  cmd lib_model_ok (lib_model_ok_v V31) V31 renamed_u = Failed /\
  match emit V30 renamed_u with Some d => wf d | None => false end = true.
Proof. exact renamed_example. Qed.

Example C08_nonvacuous_hyps :
  well_linked V31 demo_u /\ unique_type_names demo_u /\ universe_ok demo_u /\
  ~ well_linked_b V30 demo_u = true.
Proof. exact demo_hyps. Qed.

(* context.Context parameters are for the generated code only: wherever one stands among the
   parameters of a method (first, between, last), the operation is the one of the method without
   it, and the annotated parameters are documented once each, in source order *)
Theorem C08_context_param_erased : forall l1 n l2,
  spec_params (l1 ++ SCtx n :: l2) = spec_params (l1 ++ l2).
Proof. exact spec_params_ctx_anywhere. Qed.

Theorem C08_annotated_params_kept : forall l, spec_params (map SAnn l) = l.
Proof. exact spec_params_ann. Qed.

Theorem C08_context_position_irrelevant : forall cfg c name verb path hidden ret err errors secu l1 n l2,
  mk_dop cfg c (mkRoute name verb path hidden (spec_params (l1 ++ SCtx n :: l2)) ret err errors secu) =
  mk_dop cfg c (mkRoute name verb path hidden (spec_params (l1 ++ l2)) ret err errors secu).
Proof. exact ctx_position_irrelevant. Qed.

(* non-vacuity: GetItem(ctx context.Context, id string, verbose bool) *)
Example C08_context_first :
  match cmd lib_model_ok (lib_model_ok_v V31) V31 ctx_first_u with
  | Wrote d => map (fun o => map (fun p => (op_in p, op_name p)) (dop_params o)) (doc_ops d) =
                 [[(s "path", s "id"); (s "query", s "verbose")]] /\ wf d = true
  | Failed => False
  end.
Proof. exact ctx_first_example. Qed.

(* a type whose Go name is not an OpenAPI identifier (type Größe struct): the modelled kin-openapi
   identifier rule refuses the 3.0 document, which is built first in both dialects - nothing is written *)
Example C08_non_ascii_type_name :
  valid_ident non_ascii_name = false /\ valid_ident (s "Gr__e") = true /\
  cmd lib_model_ok (lib_model_ok_v V31) V30 non_ascii_u = Failed /\
  cmd lib_model_ok (lib_model_ok_v V31) V31 non_ascii_u = Failed /\
  match emit V30 non_ascii_u with Some d => wf d | None => false end = true.
Proof. exact non_ascii_example. Qed.

Print Assumptions C08_refs_closed.
Print Assumptions C08_sections.
Print Assumptions C08_written_only_if_valid.
Print Assumptions C08_wf_partial.
Print Assumptions C08_emit_wf_partial.
Print Assumptions C08_well_linked_decidable.
Print Assumptions C08_wf_refuted.
Print Assumptions C08_enum_refuted.
Print Assumptions C08_nonvacuous.
Print Assumptions C08_sections_flows.
Print Assumptions C08_renamed_variable.
Print Assumptions C08_nonvacuous_hyps.
Print Assumptions C08_context_param_erased.
Print Assumptions C08_annotated_params_kept.
Print Assumptions C08_context_position_irrelevant.
Print Assumptions C08_context_first.
Print Assumptions C08_non_ascii_type_name.
