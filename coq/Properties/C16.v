(* C16 - Annotation comments parse back to exactly what was written.
   Only statements here; every proof is [exact lemma].  The model functions are
   [parse_line], [holder], [description] (Model/Annot.v), the ones the correspondence check
   runs against annotations.NewAnnotationHolder / GetDescription on every run.  The JSON5
   library is an oracle: the theorems about the holder quantify over every [json5]. *)
From Gleece Require Import Base.Bytes Model.Annot Proofs.AnnotProofs.
From Coq Require Import String.

(* FULL STATEMENT (property text): for every n v j d that the grammar allows
   (wf_name, wf_value, wf_json, wf_descr),  parse_line (render n v j d) = Attr n v j d.
   It is REFUTED for the current code (F7, [C16_roundtrip_refuted]).  What holds is the
   statement under the side condition [no_false_close d] when a JSON5 part is present: the
   description has no "})" that is at its end or followed by white space. *)
Theorem C16_roundtrip_partial : forall n v j d,
  wf_name n = true -> wf_value v = true -> wf_descr d = true ->
  match j with
  | Some jt => wf_json jt = true /\ v <> [] /\ no_false_close d = true
  | None => True
  end ->
  parse_line (render n v j d) = Attr n v j d.
Proof. exact roundtrip_stmt. Qed.

(* the side condition is exact: with a JSON5 part the round trip holds iff there is no false close *)
Theorem C16_roundtrip_exact : forall n v jt d,
  wf_name n = true -> wf_value v = true -> v <> [] -> wf_json jt = true -> wf_descr d = true ->
  (parse_line (render n v (Some jt) d) = Attr n v (Some jt) d <-> no_false_close d = true).
Proof. exact roundtrip_iff. Qed.

(* the same for every spelling: any \s runs around the comma and before the description *)
Theorem C16_roundtrip_spellings_partial : forall tr,
  wf_tree tr -> wf_end tr -> parse_line (flatten tr) = Some (pattr_of tr).
Proof. exact parse_line_flatten. Qed.

(* F7: without the side condition the greedy {.*} swallows the description up to its last
   "})"; the witness is the replay  // @Query(a, {name:"b"}) see {x})  *)
Theorem C16_roundtrip_refuted :
  exists n v j d,
    wf_name n = true /\ wf_value v = true /\ wf_json j = true /\ wf_descr d = true /\ v <> [] /\
    no_false_close d = false /\
    render n v (Some j) d = f7_line /\
    parse_line (render n v (Some j) d) <> Attr n v (Some j) d /\
    parse_line (render n v (Some j) d) = Attr n v (Some (s "{name:""b""}) see {x}")) [].
Proof. exact roundtrip_refuted. Qed.

(* whatever the matcher accepts is of the form  // @Name(value, {json5}) description ... *)
Theorem C16_match_sound : forall t tr, match_text t = Some tr -> t = flatten tr /\ shape_tree tr.
Proof. exact match_sound. Qed.

(* ... and it accepts every text of that form (with the groups leftmost-first picks): the
   deterministic scanner decides exactly the language of the regular expression ... *)
Theorem C16_match_iff_shaped : forall t, (exists tr, match_text t = Some tr) <-> attr_shaped t.
Proof. exact match_iff_shaped. Qed.

(* ... and the recogniser the oracle uses accepts every text of the form ... *)
Theorem C16_shaped_complete : forall t, attr_shaped t -> shaped_b t = true.
Proof. exact shaped_b_complete. Qed.

(* ... hence a line that is not of the form is kept as free text and yields no attribute,
   whatever the JSON5 library does *)
Theorem C16_free_text : forall P json5 is_null raw,
  shaped_b (trim_space raw) = false ->
  parse_line raw = None /\ classify P json5 is_null raw = LFree (free_value raw).
Proof. exact free_text_stmt. Qed.

(* a general comment  /* ... */  of a doc comment group (one entry of go/ast's comment list whatever it
   spans) is not of the form: whatever stands between the markers - line feeds, lines that look like
   annotations - it is one free-text entry, kept with its markers, and never an attribute.  (The check
   writes such blocks into Go source text and runs go/parser + gast.MapDocListToCommentBlock on them.) *)
Theorem C16_general_comment_free : forall P json5 is_null body,
  parse_line (s "/*" ++ body) = None /\
  classify P json5 is_null (s "/*" ++ body) = LFree (trim_blanks (s "/*" ++ body)).
Proof. exact general_comment_free. Qed.

(* attribute order is source order; free-text lines keep their comment index *)
Theorem C16_order : forall P json5 is_null lines h,
  holder P json5 is_null lines = Some h ->
  h_attrs h = attrs_of P json5 is_null lines /\ h_frees h = frees_from P json5 is_null 0 lines.
Proof. exact holder_order. Qed.

(* GetDescription = the first @Description's text if present, else the leading contiguous
   free-text lines (an independent definition: the maximal free-text prefix of the block) *)
Theorem C16_description : forall P json5 is_null lines h,
  holder P json5 is_null lines = Some h ->
  description P h =
  match find (fun a => str_eqb (a_name a) (s "Description")) (attrs_of P json5 is_null lines) with
  | Some a => a_descr a
  | None => join_with [c_lf] (drop_trailing_empty (leading_free_lines P json5 is_null lines))
  end.
Proof. exact description_spec. Qed.

(* malformed JSON5 is reported as an error of the holder, never silently dropped ... *)
Theorem C16_bad_json : forall P json5 is_null lines raw p j,
  In raw lines -> parse_line raw = Some p -> p_json p = Some j -> json5 j = None ->
  holder P json5 is_null lines = None.
Proof. exact bad_json_is_error. Qed.

(* ... and nothing else is *)
Theorem C16_error_iff : forall P json5 is_null lines,
  holder P json5 is_null lines = None <->
  exists raw p j, In raw lines /\ parse_line raw = Some p /\ p_json p = Some j /\ json5 j = None.
Proof. exact holder_error_iff. Qed.

(* the property as the check evaluates it, on the model: for every block of canonically spelled
   well-formed annotation lines outside the F7 class and lines that are not of the form, and
   every JSON5 oracle table, prop_C16 accepts the model's output (malformed JSON5 included:
   then the holder is an error) *)
Theorem C16_holds_partial : forall tbl items,
  Forall (item_canon tbl) items -> prop_C16 items (model_obs tbl (map item_raw items)) = true.
Proof. exact model_satisfies_prop. Qed.

(* ---- non-vacuity ---- *)

(* round trip: nested JSON5 with braces, parentheses, commas and "})" inside strings, a
   multibyte description containing "})y" (not a false close) *)
Example C16_roundtrip_nonvacuous :
  wf_name (s "Security") = true /\ wf_value (s "sec-1 /{id}") = true /\ wf_json demo_json = true /\
  wf_descr demo_descr = true /\ no_false_close demo_descr = true /\
  parse_line (render (s "Security") (s "sec-1 /{id}") (Some demo_json) demo_descr)
  = Attr (s "Security") (s "sec-1 /{id}") (Some demo_json) demo_descr.
Proof. exact demo_roundtrip. Qed.

Example C16_spellings_nonvacuous : wf_tree demo_tree /\ wf_end demo_tree.
Proof. exact demo_tree_wf. Qed.

(* near misses are not of the form, a proper line is and is matched *)
Example C16_free_text_nonvacuous :
  shaped_b (s "// @Name(a, {x:1}") = false /\ shaped_b (s "// @Name()") = false /\
  shaped_b (s "//@Name") = false /\ shaped_b (s "// @Name(a,b)") = false /\
  shaped_b (s "// @Name(a, {x:1}) d") = true /\
  match_text (s "// @Name(a, {x:1}) d")
  = Some {| t_name := s "Name"; t_value := s "a"; t_json := Some ([], [c_sp], s "{x:1}");
            t_tail := TailDescr [c_sp] (s "d") |}.
Proof. exact demo_shaped. Qed.

(* a block with leading free text (an empty comment last), two attributes and later free text *)
Example C16_holder_nonvacuous :
  exists h, holder str toy_json5 toy_null demo_block = Some h /\
    map (fun a => (a_name a, a_value a, a_props a, a_descr a)) (h_attrs h)
    = [ (s "Method", s "GET", None, []); (s "Route", s "/users/{id}", Some (s "{x: [1,2]}"), s "the route") ] /\
    h_frees h = [ (0, s "Returns the user"); (1, s "with the given id"); (2, []); (4, s "trailing note");
                  (6, s "@Name(oops") ] /\
    description str h = bs [82;101;116;117;114;110;115;32;116;104;101;32;117;115;101;114;10;119;105;116;104;32;116;104;101;32;103;105;118;101;110;32;105;100]%N.
Proof. exact demo_holder. Qed.

(* a general comment over four source lines with annotation-shaped lines inside, free text after it:
   one entry (index 0), the next comment has index 1 and still belongs to the description *)
Example C16_general_comment_nonvacuous :
  exists h, holder str toy_json5 toy_null [demo_general; s "// Archived widgets are left out."; s "// @Method(GET)"] = Some h /\
    map (fun a => (a_name a, a_value a)) (h_attrs h) = [ (s "Method", s "GET") ] /\
    h_frees h = [ (0, demo_general); (1, s "Archived widgets are left out.") ] /\
    description str h = demo_general ++ [c_lf] ++ s "Archived widgets are left out.".
Proof. exact demo_general_holder. Qed.

Example C16_description_nonvacuous :
  exists h, holder str toy_json5 toy_null [s "// free"; s "// @Description the text"; s "// @Description other"] = Some h /\
    description str h = s "the text".
Proof. exact demo_description_attr. Qed.

Example C16_bad_json_nonvacuous :
  parse_line (s "// @Query(a, {x:!})") = Attr (s "Query") (s "a") (Some (s "{x:!}")) [] /\
  toy_json5 (s "{x:!}") = None /\
  holder str toy_json5 toy_null [s "// fine"; s "// @Query(a, {x:!})"; s "// @Method(GET)"] = None.
Proof. exact demo_bad_json. Qed.

(* the oracle evaluated by the check accepts the model's answer and rejects wrong ones *)
Example C16_oracle_nonvacuous :
  forallb wf_item demo_items = true /\
  prop_C16 demo_items (model_obs [(s "{name:""b""}", Some (s "P"))] (map item_raw demo_items)) = true /\
  prop_C16 demo_items {| ob_err := false; ob_attrs := []; ob_frees := [s "lead"; s "@Name("]; ob_description := s "lead" |} = false /\
  prop_C16 demo_items {| ob_err := true; ob_attrs := []; ob_frees := []; ob_description := [] |} = false.
Proof. exact demo_oracle. Qed.

Example C16_holds_nonvacuous :
  Forall (item_canon [(s "{name:""b""}", Some (s "P"))]) demo_canon_items.
Proof. exact demo_canon. Qed.

Print Assumptions C16_roundtrip_partial.
Print Assumptions C16_roundtrip_exact.
Print Assumptions C16_match_iff_shaped.
Print Assumptions C16_holds_partial.
Print Assumptions C16_holds_nonvacuous.
Print Assumptions C16_roundtrip_spellings_partial.
Print Assumptions C16_roundtrip_refuted.
Print Assumptions C16_match_sound.
Print Assumptions C16_shaped_complete.
Print Assumptions C16_free_text.
Print Assumptions C16_order.
Print Assumptions C16_general_comment_free.
Print Assumptions C16_general_comment_nonvacuous.
Print Assumptions C16_description.
Print Assumptions C16_bad_json.
Print Assumptions C16_error_iff.
Print Assumptions C16_roundtrip_nonvacuous.
Print Assumptions C16_spellings_nonvacuous.
Print Assumptions C16_free_text_nonvacuous.
Print Assumptions C16_holder_nonvacuous.
Print Assumptions C16_description_nonvacuous.
Print Assumptions C16_bad_json_nonvacuous.
Print Assumptions C16_oracle_nonvacuous.
