(* C03 - No controller code runs unless the route's effective security approved it. *)
From Gleece Require Import Base.Bytes Model.Project Model.Spec Model.Security Model.RouterGate
     Proofs.SecurityProofs Proofs.RouterGateProofs Proofs.SpecProofs Model.Bind Model.Handler Proofs.HandlerProofs.
From Coq Require Import String.

(* the three-level rule: the method's own @Security list if it has one, otherwise the
   controller's, otherwise the configured default; none only if all three are absent *)
Theorem C03_effective_rule : forall cfg c m,
  effective_by_text cfg c m = effective_security cfg c m.
Proof. exact effective_by_text_eq. Qed.

Theorem C03_effective_empty_iff : forall cfg c m,
  effective_security cfg c m = [] <-> m_security m = [] /\ c_security c = [] /\ cfg_default cfg = None.
Proof. exact effective_empty_iff. Qed.

(* authorize(): approval means some alternative was approved in full (or there are none) ... *)
Theorem C03_authorize_sound : forall (St : Type) (cb : St -> check -> St * option refusal) st alts st' tr,
  authorize cb st alts = (st', None, tr) ->
  alts = [] \/ exists l, In l alts /\ forall c, In c l -> approved_in tr c = true.
Proof. exact authorize_sound. Qed.

(* ... refusal means every alternative had a refused check, and the error is the last refusal *)
Theorem C03_authorize_refuse : forall (St : Type) (cb : St -> check -> St * option refusal) st alts st' r tr,
  authorize cb st alts = (st', Some r, tr) ->
  alts <> [] /\ (forall l, In l alts -> exists c, In c l /\ refused_in tr c = true) /\
  last_refusal tr = Some r.
Proof. exact authorize_refuse. Qed.

(* the gate, for every stateful callback, every state and every continuation behind the gate *)
Theorem C03_gate_holds : forall (St : Type) (cb : St -> check -> St * option refusal) (h : handler St) st,
  rest_ok St h -> prop_C03 (h_alts h) (run_handler cb h st) = true.
Proof. exact gate_holds. Qed.

Theorem C03_refused_means_untouched :
  forall (St : Type) (cb : St -> check -> St * option refusal) (h : handler St) st st1 r tr,
  authorize cb st (h_alts h) = (st1, Some r, tr) ->
  run_handler cb h st = tr ++ [EReplied (rf_status r) (rf_body r)] /\
  (forall e, In e (run_handler cb h st) -> is_behind_gate e = false).
Proof. exact refused_means_untouched. Qed.

Theorem C03_invoked_means_approved :
  forall (St : Type) (cb : St -> check -> St * option refusal) (h : handler St) st,
  rest_ok St h ->
  (exists e, In e (run_handler cb h st) /\ is_behind_gate e = true) ->
  h_alts h = [] \/
  exists l, In l (h_alts h) /\
            forall c, In c l -> approved_in (filter is_auth (before_gate (run_handler cb h st))) c = true.
Proof. exact invoked_means_approved. Qed.

(* what the per-run translation obligation [router_ok p regs = true] on a generated routes file
   yields: every annotated method has a handler gated by exactly its effective alternatives *)
Theorem C03_translated_router_sound : forall (p : project) (regs : list registration),
  router_ok p regs = true ->
  forall c m, In (c, m) (all_routes p) ->
  exists r, In r regs /\
    rg_verb r = m_verb m /\ rg_url_lit r = c_route c ++ m_route m /\ rg_op_id r = m_name m /\
    rg_alts r = to_checks (effective_by_text (p_config p) c m) /\
    rg_invokes r = [m_name m] /\
    forall (St : Type) (cb : St -> check -> St * option refusal) (rest : St -> list event) (st : St),
      rest_ok St (mkHandler (rg_alts r) rest) ->
      prop_C03 (to_checks (effective_by_text (p_config p) c m))
               (run_handler cb (mkHandler (rg_alts r) rest) st) = true.
Proof. exact router_ok_gate. Qed.

Example C03_nonvacuous :
  run_handler demo_cb demo_handler 0%nat =
  [EAuth (mkCheck (s "a") [s "r"]) (Some (mkRefusal 401%N (s "no")));
   EAuth (mkCheck (s "b") []) None;
   EAuth (mkCheck (s "c") []) (Some (mkRefusal 401%N (s "no")));
   EAuth (mkCheck (s "d") []) (Some (mkRefusal 401%N (s "no")));
   EReplied 401%N (s "no")]%string /\
  prop_C03 demo_alts (run_handler demo_cb demo_handler 0%nat) = true /\
  prop_C03 demo_alts (run_handler demo_cb demo_handler 1%nat) = true /\
  prop_C03 demo_alts [EAuth (mkCheck (s "a") [s "r"]) (Some (mkRefusal 401%N (s "no"))); EInit;
                      EInvoked (s "C") (s "M")]%string = false /\
  prop_C03 demo_alts [EParsed (s "id"); EAuth (mkCheck (s "a") [s "r"]) None; EInit]%string = false.
Proof. exact demo_gate. Qed.


(* ---- whole requests: the engine-independent handler model (Model/Handler.v), compared with each of
   the five compiled routers on every request of this check (pygen/handlermodel.py) ---- *)

(* the method is invoked only behind an alternative approved in full (or when none is required) *)
Theorem C03_handler_invoked_approved : forall cfg c m tbl sc rq tr cn mn args st,
  handle cfg c m tbl sc rq = (tr, Invoked cn mn args st) ->
  gate_alts cfg c m = [] \/
  exists l, In l (gate_alts cfg c m) /\ forall ck, In ck l -> approved_in tr ck = true.
Proof. exact handle_invoked_approved. Qed.

(* a refused request: every alternative had a refused check, the reply carries the status of the LAST
   refusal, nothing was invoked and no parameter was looked at *)
Theorem C03_handler_refused : forall cfg c m tbl sc rq tr r,
  handle cfg c m tbl sc rq = (tr, Refused r) ->
  gate_alts cfg c m <> [] /\
  (forall l, In l (gate_alts cfg c m) -> exists ck, In ck l /\ refused_in tr ck = true) /\
  last_refusal tr = Some r /\
  predicted (handle cfg c m tbl sc rq) = Some (mkObs (rf_status r) (auth_records tr) [] None).
Proof. exact handle_refused. Qed.

(* the callback is never consulted behind the gate *)
Theorem C03_handler_trace_only_auth : forall cfg c m tbl sc rq e,
  In e (fst (handle cfg c m tbl sc rq)) -> is_auth e = true.
Proof. exact handle_trace_only_auth. Qed.

(* the gate comes first: a refused request is answered without looking at the request - malformed
   parameters or a broken body do not change the answer (nor turn it into a 422) *)
Theorem C03_refusal_independent_of_request : forall cfg c m tbl sc r1 r2 tr r,
  handle cfg c m tbl sc r1 = (tr, Refused r) -> handle cfg c m tbl sc r2 = (tr, Refused r).
Proof. exact handle_refusal_independent_of_request. Qed.

Example C03_refused_whatever_the_request :
  handle demo_cfg demo_ctrl demo_method [(KAll, mkRefusal 403 (s "no"))] (mkOp false None) (demo_rq "5" "7") =
  handle demo_cfg demo_ctrl demo_method [(KAll, mkRefusal 403 (s "no"))] (mkOp false None) (demo_rq "not-a-number" "-1").
Proof. exact demo_refused_whatever_the_request. Qed.

Example C03_handler_nonvacuous :
  snd (handle demo_cfg demo_ctrl demo_method [(KAll, mkRefusal 403 (s "no"))] (mkOp false None) (demo_rq "5" "7"))
  = Refused (mkRefusal 403 (s "no")).
Proof. exact demo_refused. Qed.

Print Assumptions C03_effective_rule.
Print Assumptions C03_effective_empty_iff.
Print Assumptions C03_authorize_sound.
Print Assumptions C03_authorize_refuse.
Print Assumptions C03_gate_holds.
Print Assumptions C03_refused_means_untouched.
Print Assumptions C03_invoked_means_approved.
Print Assumptions C03_translated_router_sound.
Print Assumptions C03_nonvacuous.
Print Assumptions C03_handler_invoked_approved.
Print Assumptions C03_handler_refused.
Print Assumptions C03_handler_trace_only_auth.
Print Assumptions C03_handler_nonvacuous.
Print Assumptions C03_refusal_independent_of_request.
Print Assumptions C03_refused_whatever_the_request.
