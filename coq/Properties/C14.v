(* C14 - Every run terminates with success or a reported error, never a crash or hang.
   The logic cores whose crash- and hang-freedom can be stated about a model are collected here;
   the whole command (go/packages, the libraries, the file system) is exercised by the check
   with hostile projects and is not modelled. *)
From Gleece Require Import Base.Bytes Model.Outcome Model.Tags Proofs.TagsProofs
     Model.Conflicts Proofs.ConflictsProofs Model.Graph Proofs.GraphProofs Proofs.OutcomeProofs.

(* the oracle on an observed command run *)
Theorem C14_oracle_spec : forall o, prop_C14 o = true <-> o = OOk \/ o = OReported.
Proof. intros o; destruct o; simpl; split; intros H; try tauto; try discriminate; destruct H; discriminate. Qed.

(* a generation run inside a longer-lived process (library entry points, several runs back to back):
   its classification satisfies the oracle exactly when the call came back in time, without a panic,
   and either reported an error or wrote its artifacts *)
Theorem C14_job_outcome_ok : forall t p e a,
  prop_C14 (job_outcome t p e a) = true <-> t = false /\ p = false /\ (e = true \/ a = true).
Proof. exact job_outcome_ok. Qed.

(* sequences of runs in one process: the oracle holds iff EVERY run ended with success or a reported
   error; it splits over concatenation (what came before never licenses a later crash) and a refused
   sequence has a first offending run after a fine prefix *)
Theorem C14_seq_spec : forall os,
  prop_C14_seq os = true <-> (forall o, List.In o os -> o = OOk \/ o = OReported).
Proof. exact prop_C14_seq_spec. Qed.
Theorem C14_seq_app : forall xs ys, prop_C14_seq (xs ++ ys) = prop_C14_seq xs && prop_C14_seq ys.
Proof. exact prop_C14_seq_app. Qed.
Theorem C14_seq_first_failure : forall os,
  prop_C14_seq os = false ->
  exists pre o post, os = pre ++ o :: post /\ prop_C14_seq pre = true /\ prop_C14 o = false.
Proof. exact prop_C14_seq_first_failure. Qed.
Example C14_seq_rejected_then_crash :
  prop_C14_seq [job_outcome false false true false; job_outcome false true false false] = false.
Proof. exact seq_rejected_then_crash. Qed.
Example C14_seq_rejected_then_ok :
  prop_C14_seq [job_outcome false false true false; job_outcome false false false true] = true.
Proof. exact seq_rejected_then_ok. Qed.

(* validator tags: for EVERY tag string, field kind, parse oracle and initial schema, neither
   validation converter dereferences nil (each returns a schema) *)
Theorem C14_tags_no_panic_30 : forall pf k v c, build30 pf true k v c <> Panic.
Proof. exact no_panic_30_fixed. Qed.
Theorem C14_tags_no_panic_31 : forall pf k v c, build31 pf true k v c <> Panic.
Proof. exact no_panic_31_fixed. Qed.
Theorem C14_tags_total_30 : forall pf k v c, exists c', build30 pf true k v c = Ok c'.
Proof. exact total_30_fixed. Qed.
Theorem C14_tags_total_31 : forall pf k v c, exists c', build31 pf true k v c = Ok c'.
Proof. exact total_31_fixed. Qed.

(* the orphan cascade of RemoveNode (the only recursion of the symbol graph) terminates: with
   fuel exceeding the number of reverse-dependency entries the fuelled model removes exactly the
   least set of orphaned dependants, for every map-iteration schedule *)
Theorem C14_remove_node_terminates : forall sc, sched_ok sc -> forall fuel s k,
  GraphProofs.Inv s -> (List.length (rdeps s) < fuel)%nat ->
  abs (remove_node sc fuel s k) = sp_remove_node (abs s) (k_base k).
Proof. exact abs_remove_node. Qed.

(* route-conflict detection is a structural fold: total on every route list, and its answer
   always satisfies the conflict property *)
Theorem C14_conflicts_total : forall es, prop_C15 es (map fst (find_conflicts_obs es)) = true.
Proof. exact find_conflicts_prop. Qed.

Print Assumptions C14_oracle_spec.
Print Assumptions C14_job_outcome_ok.
Print Assumptions C14_seq_spec.
Print Assumptions C14_seq_app.
Print Assumptions C14_seq_first_failure.
Print Assumptions C14_seq_rejected_then_crash.
Print Assumptions C14_seq_rejected_then_ok.
Print Assumptions C14_tags_no_panic_30.
Print Assumptions C14_tags_no_panic_31.
Print Assumptions C14_tags_total_30.
Print Assumptions C14_tags_total_31.
Print Assumptions C14_remove_node_terminates.
Print Assumptions C14_conflicts_total.
