From Gleece Require Import Base.Bytes Model.Outcome.
Theorem C14_oracle_spec : forall o, prop_C14 o = true <-> o = OOk \/ o = OReported.
Proof. intros o; destruct o; simpl; split; intros H; try tauto; try discriminate; destruct H; discriminate. Qed.
Print Assumptions C14_oracle_spec.
