(* C02 - Generated router serves exactly the annotated routes and dispatches correctly. *)
From Gleece Require Import Base.Bytes Model.Project Model.Spec Model.Security Model.RouterGate Model.Router
     Proofs.RouterGateProofs Proofs.RouterProofs Model.Conflicts Proofs.ConflictsProofs Proofs.DispatchProofs.
From Coq Require Import String.

(* What the per-run translation obligation [router_ok p regs = true] on a generated routes file
   yields: the registration table is exactly the annotated methods (hidden ones included), one
   handler each, registered under (verb, to<Engine>Url(controller route ++ method route)), and
   each handler invokes exactly its own method of its own controller. *)
Theorem C02_registration_table : forall (p : project) (regs : list registration),
  router_ok p regs = true -> map reg_key regs = map route_key (routes_of p).
Proof. exact router_ok_table. Qed.

(* the URL an engine registers for a clean template, in closed form ... *)
Theorem C02_engine_url : forall e ts, clean ts = true ->
  to_engine_url e (render false ts) = render (colon_syntax e) (lead_slash (merge_slashes ts)).
Proof. exact engine_url_render. Qed.

(* ... the path the OpenAPI document shows for it ... *)
Theorem C02_spec_path : forall ts, clean ts = true ->
  spec_path (render false ts) = render false (merge_slashes ts).
Proof. exact spec_path_render. Qed.

(* ... and they are the same template (same literal and parameter segments, same slashes,
   trailing slash included), each in its own parameter syntax, whatever runs of slashes the
   annotations contain, for all five engines *)
Theorem C02_same_template : forall e ts,
  clean ts = true -> (exists t, ts = TSl :: t) ->
  exists canon,
    to_engine_url e (render false ts) = render (colon_syntax e) canon /\
    spec_path (render false ts) = render false canon.
Proof. exact same_template. Qed.

(* dispatch is a function: on a route list where no two distinct same-verb templates overlap (nothing for
   FindConflicts to report, C15), a concrete request path is served by AT MOST ONE annotated method,
   whatever the registration order; and an overlapping pair does have a request both would serve *)
Theorem C02_conflict_free_unique_dispatch : forall es,
  conflict_free es ->
  forall verb w i j ei ej,
    nth_error es i = Some ei -> nth_error es j = Some ej ->
    serves ei verb w -> serves ej verb w -> i = j.
Proof. exact conflict_free_unique_dispatch. Qed.

Theorem C02_overlap_has_ambiguous_request : forall ei ej,
  e_verb ei = e_verb ej -> patterns_conflict (segs ei) (segs ej) = true ->
  exists w, serves ei (e_verb ei) w /\ serves ej (e_verb ei) w.
Proof. exact overlap_has_ambiguous_request. Qed.

Example C02_nonvacuous :
  let ts := [TSl; TLit (s "items"); TSl; TSl; TPar (s "id"); TSl; TSl; TSl; TLit (s "x"); TSl]%string in
  clean ts = true /\
  string_of_list_byte (render false ts) = "/items//{id}///x/"%string /\
  map (fun e => string_of_list_byte (to_engine_url e (render false ts))) [Gin; Echo; Mux; Chi; Fiber] =
  ["/items/:id/x/"; "/items/:id/x/"; "/items/{id}/x/"; "/items/{id}/x/"; "/items/:id/x/"]%string /\
  string_of_list_byte (spec_path (render false ts)) = "/items/{id}/x/"%string.
Proof. exact same_template_demo. Qed.

Print Assumptions C02_registration_table.
Print Assumptions C02_engine_url.
Print Assumptions C02_spec_path.
Print Assumptions C02_same_template.
Print Assumptions C02_nonvacuous.
Print Assumptions C02_conflict_free_unique_dispatch.
Print Assumptions C02_overlap_has_ambiguous_request.
