(* C11 - The 3.0 and 3.1 documents describe the same API: the validation converters
   (swagen30.BuildSchemaValidation / swagen31.BuildSchemaValidationV31), which are the one part
   of the two emitters that is written twice with different logic.  (Paths, verbs, operation
   ids, tags, parameters, bodies, responses and security of both emitters are described by the
   single model Spec.spec_ops, tied to each emitter by the checks C01 / C04 / C06; the
   implementation pair is compared directly by pygen/c11.py.)
   Also the converter part of C14: no nil dereference on arbitrary validator strings.
   Only statements here; every proof is [exact lemma].  Model: Model/Tags.v, the functions the
   correspondence check runs against the real converters on every run.
   [pf] = strconv.ParseFloat on non-integer literals, [yres] = libopenapi's printing of an enum
   node: oracles, universally quantified.  Flag [true] = the tree with patches fix-F4 / fix-F9,
   [false] = the code before them. *)
From Gleece Require Import Base.Bytes Model.Tags Proofs.TagsProofs.
From Coq Require Import String.
Open Scope Z_scope.

(* the boolean comparison used by the oracle is equality of every constraint keyword, the
   enum lists as value sets *)
Theorem C11_oracle_spec : forall a b, doc31_eqb a b = true <-> doc31_same a b.
Proof. exact doc31_eqb_spec. Qed.

(* For every kind, every validator string outside the eight classes of [classes] (guard),
   every pre-set format and all oracles: what the 3.0 converter writes, translated to the 3.1
   dialect, is exactly what libopenapi prints for what the 3.1 converter writes. *)
Theorem C11_tags_agree : forall pf yres k v f c0 c1,
  guard pf yres k v = true ->
  build30 pf true k v (fresh30 f) = Ok c0 ->
  build31 pf true k v (fresh31 f) = Ok c1 ->
  dialect c0 = render31 yres c1.
Proof. exact tags_agree. Qed.

Theorem C11_tags_agree_oracle : forall pf yres k v f c0 c1,
  guard pf yres k v = true ->
  build30 pf true k v (fresh30 f) = Ok c0 ->
  build31 pf true k v (fresh31 f) = Ok c1 ->
  prop_C11_tags (Ok c0) (Ok (render31 yres c1)) = true.
Proof. exact tags_agree_prop. Qed.

(* The full statement (no guard) is false: each excluded class has a witness on which both
   converters succeed and the documents differ.  [refuted n] = exists oracles, kind, string
   with [classes = [n]], both builds Ok, dialect c0 <> render31 c1 and the oracle false. *)
Theorem C11_tags_agree_refuted_bounds_mix : refuted 1.          (* int, gt=5,gte=3 *)
Proof. exact refuted_bounds_mix. Qed.
Theorem C11_tags_agree_refuted_enum_after_enum : refuted 2.     (* string, enum=a|b,enum=c *)
Proof. exact refuted_enum_after_enum. Qed.
Theorem C11_tags_agree_refuted_enum_yaml_typing : refuted 3.    (* string, oneof=1 2 *)
Proof. exact refuted_enum_yaml_typing. Qed.
Theorem C11_tags_agree_refuted_enum_yaml_octal : refuted 3.     (* int, oneof=010 *)
Proof. exact refuted_enum_yaml_octal. Qed.
Theorem C11_tags_agree_refuted_length_parse : refuted 4.        (* string, min=+5 *)
Proof. exact refuted_length_parse. Qed.
Theorem C11_tags_agree_refuted_zero_upper_length : refuted 5.   (* string, max=0 *)
Proof. exact refuted_zero_upper_length. Qed.
Theorem C11_tags_agree_refuted_bad_number_exclusive : refuted 6.  (* int, gt=5,gt=abc *)
Proof. exact refuted_bad_number_exclusive. Qed.
Theorem C11_tags_agree_refuted_bad_bool_unique : refuted 7.     (* array, uniqueItems=true,uniqueItems=yes *)
Proof. exact refuted_bad_bool_unique. Qed.
Theorem C11_tags_agree_refuted_oneof_all_invalid : refuted 8.   (* int, oneof=x *)
Proof. exact refuted_oneof_all_invalid. Qed.

(* references: patched, neither generator touches the referenced component ... *)
Theorem C11_ref_untouched : forall pf k v comp0 comp1,
  site30 pf true true true k v comp0 = Ok comp0 /\ site31 true k v comp1 = Ok comp1.
Proof. exact ref_untouched. Qed.

(* ... unpatched, 3.0 overwrites the shared enum component (F9): Color{red,blue,green} used
   with oneof=red blue loses green in 3.0 only *)
Theorem C11_ref_legacy_refuted :
  dialect color30 = render31 y_faithful color31 /\
  exists c0', site30 pf_none true false true KOther (s "oneof=red blue") (Some color30) = Ok (Some c0') /\
              site31 true KOther (s "oneof=red blue") (Some color31) = Ok (Some color31) /\
              c0_enum c0' = [JStr (s "red"); JStr (s "blue")] /\
              prop_C11_tags (Ok c0') (Ok (render31 y_faithful color31)) = false.
Proof. exact ref_legacy_refuted. Qed.

(* ---- C14, converters: no crash on any validator string, any kind, any initial schema ---- *)
Theorem C14_tags_no_panic_30 : forall pf k v c, build30 pf true k v c <> Panic.
Proof. exact no_panic_30_fixed. Qed.
Theorem C14_tags_no_panic_31 : forall pf k v c, build31 pf true k v c <> Panic.
Proof. exact no_panic_31_fixed. Qed.
Theorem C14_tags_total_30 : forall pf k v c, exists c', build30 pf true k v c = Ok c'.
Proof. exact total_30_fixed. Qed.
Theorem C14_tags_total_31 : forall pf k v c, exists c', build31 pf true k v c = Ok c'.
Proof. exact total_31_fixed. Qed.

(* the code before fix-F4 crashes exactly on the strings with a failed parse at a dereference *)
Theorem C14_tags_legacy_panic_iff_30 : forall pf k v c,
  build30 pf false k v c = Panic <-> safe_tags30 k v = false.
Proof. exact panic_30_legacy_iff. Qed.
Theorem C14_tags_legacy_panic_iff_31 : forall pf k v c,
  build31 pf false k v c = Panic <-> safe_tags31 pf k v = false.
Proof. exact panic_31_legacy_iff. Qed.
Theorem C14_tags_no_panic_legacy_30 : forall pf k v c,
  safe_tags30 k v = true -> build30 pf false k v c <> Panic.
Proof. exact no_panic_30_legacy. Qed.
Theorem C14_tags_no_panic_legacy_31 : forall pf k v c,
  safe_tags31 pf k v = true -> build31 pf false k v c <> Panic.
Proof. exact no_panic_31_legacy. Qed.
Theorem C14_tags_no_panic_legacy_refuted_30 :          (* F4 *)
  build30 pf_none false KString (s "min=abc") (fresh30 []) = Panic.
Proof. exact legacy_panic_30. Qed.
Theorem C14_tags_no_panic_legacy_refuted_31 :
  build31 pf_none false KInteger (s "gt=abc") (fresh31 []) = Panic.
Proof. exact legacy_panic_31. Qed.
Theorem C14_tags_ref_legacy_panic :                     (* unresolved reference, enum rule *)
  site30 pf_none true false true KOther (s "oneof=a") None = Panic.
Proof. exact ref_legacy_panic. Qed.

(* ---- non-vacuity ---- *)
Example C11_nonvacuous :
  guard pf_none y_faithful KString demo_tag = true /\
  build30 pf_none true KString demo_tag (fresh30 []) =
    Ok (mk30 (s "email") None false None false 3%N (Some 10%N) (s "^[a-z]+$") 0%N None false
             [JStr (s "a"); JStr (s "b")]) /\
  build31 pf_none true KString demo_tag (fresh31 []) =
    Ok (mk31 (s "email") None None None None (Some 3) (Some 10) (s "^[a-z]+$") None None None
             (Some [(YNone, s "a"); (YNone, s "b")])) /\
  guard pf_none y_faithful KInteger demo_num = true /\
  build31 pf_none true KInteger demo_num (fresh31 []) =
    Ok (mk31 [] (Some (NZ 0)) None None (Some (NZ 100)) None None [] None None None
             (Some [(YInt, s "1"); (YInt, s "2"); (YInt, s "3")])) /\
  guard pf_none y_faithful KInteger (s "gt=5,gte=3") = false /\
  safe_tags30 KString (s "min=abc") = false /\ safe_tags30 KString demo_tag = true /\
  safe_tags31 pf_none KInteger (s "gt=abc") = false /\ safe_tags31 pf_none KInteger demo_num = true.
Proof. exact demo_nonvacuous. Qed.

Example C11_oracle_nonvacuous :
  prop_C11_tags (Ok (mk30 [] (Some (NZ 5)) true None false 0%N None [] 0%N None false []))
                (Ok (mkDoc [] None (Some (NZ 5)) None None None None [] None None false None)) = true /\
  prop_C11_tags (Ok (mk30 [] (Some (NZ 3)) false None false 0%N None [] 0%N None false []))
                (Ok (mkDoc [] (Some (NZ 3)) (Some (NZ 5)) None None None None [] None None false None)) = false /\
  prop_C11_tags (Ok (fresh30 [])) Panic = false /\
  prop_C11_tags Panic (Ok (mkDoc [] None None None None None None [] None None false None)) = false.
Proof. exact oracle_nonvacuous. Qed.

Print Assumptions C11_oracle_spec.
Print Assumptions C11_tags_agree.
Print Assumptions C11_tags_agree_oracle.
Print Assumptions C11_tags_agree_refuted_bounds_mix.
Print Assumptions C11_tags_agree_refuted_enum_after_enum.
Print Assumptions C11_tags_agree_refuted_enum_yaml_typing.
Print Assumptions C11_tags_agree_refuted_enum_yaml_octal.
Print Assumptions C11_tags_agree_refuted_length_parse.
Print Assumptions C11_tags_agree_refuted_zero_upper_length.
Print Assumptions C11_tags_agree_refuted_bad_number_exclusive.
Print Assumptions C11_tags_agree_refuted_bad_bool_unique.
Print Assumptions C11_tags_agree_refuted_oneof_all_invalid.
Print Assumptions C11_ref_untouched.
Print Assumptions C11_ref_legacy_refuted.
Print Assumptions C14_tags_no_panic_30.
Print Assumptions C14_tags_no_panic_31.
Print Assumptions C14_tags_total_30.
Print Assumptions C14_tags_total_31.
Print Assumptions C14_tags_legacy_panic_iff_30.
Print Assumptions C14_tags_legacy_panic_iff_31.
Print Assumptions C14_tags_no_panic_legacy_30.
Print Assumptions C14_tags_no_panic_legacy_31.
Print Assumptions C14_tags_no_panic_legacy_refuted_30.
Print Assumptions C14_tags_no_panic_legacy_refuted_31.
Print Assumptions C14_tags_ref_legacy_panic.
Print Assumptions C11_nonvacuous.
Print Assumptions C11_oracle_nonvacuous.
