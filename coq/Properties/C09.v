(* C09 - Every accepted project yields a routes file that is compilable Go.
   Only statements here; every proof is [exact lemma].

   What is proved: the import-alias construction (getImports / appendRouteImports /
   UnpackImportsMap, Model/Imports.v) yields, for every project whose names satisfy
   [names_ok] and for every injective serial assignment, import aliases that are valid Go
   identifiers and never name two packages - i.e. the import block of the generated file has
   no malformed or duplicate alias; and the import block is complete for the handlers: every
   alias the rendered code refers to (controller, parameter types, the custom error a route
   returns by value - also when the payload type lives in the error's package) is an emitted
   import line [C09_referenced_aliases_are_imported].  The preconditions are necessary: [C09_unique_refuted_*]
   give projects (two controllers with one struct name, cf. F13; a controller named like a
   parameter alias) whose import block declares one alias twice.
   What is NOT proved (partial): that the handler bodies type-check ("every expression passed
   to a controller method has that method's parameter type") and that every pasted string is a
   well-formed literal (false on the current tree, F12).  For these the Go parser, go/format
   and the Go compiler are the oracle of pygen/c09.py, on every generated file, and
   [prop_C09] (below, shown equivalent to the readable statement) is evaluated by vm_compute
   on the facts they report. *)
From Gleece Require Import Base.Bytes Model.Imports Proofs.ImportsProofs.
From Coq Require Import String.

Theorem C09_aliases_valid_identifiers : forall sr cs,
  names_ok sr cs -> forall pkg a, In (pkg, a) (import_list sr cs) -> go_ident a = true.
Proof. exact aliases_valid_identifiers. Qed.

Theorem C09_aliases_unique_per_package : forall sr cs,
  names_ok sr cs ->
  forall p1 p2 a, In (p1, a) (import_list sr cs) -> In (p2, a) (import_list sr cs) -> p1 = p2.
Proof. exact aliases_unique_per_package. Qed.

(* the same for the import lines that survive imports.Process (what the per-run check
   compares with the file on disk) *)
Theorem C09_used_imports_wf : forall sr cs,
  names_ok sr cs ->
  (forall pkg a, In (pkg, a) (used_import_list sr cs) -> go_ident a = true) /\
  (forall p1 p2 a, In (p1, a) (used_import_list sr cs) -> In (p2, a) (used_import_list sr cs) -> p1 = p2).
Proof. exact used_imports_wf. Qed.

(* the import block is complete for the rendered code: every alias a handler refers to (its controller, the
   types of its parameters, the custom error type it returns by value) is an import line the template emitted;
   in particular a route returning (T, E), E a custom error by value, gets E's alias whatever the package of T *)
Theorem C09_referenced_aliases_are_imported : forall sr cs x,
  In x (used_import_list sr cs) -> In x (import_list sr cs).
Proof. exact used_imports_are_imported. Qed.

Theorem C09_custom_error_alias_imported : forall sr cs c r x,
  In c cs -> In r (c_routes c) -> In x (last_resp_used sr r) -> In x (import_list sr cs).
Proof. exact custom_error_alias_imported. Qed.

(* sorting/de-duplicating as UnpackImportsMap does neither adds nor loses an import *)
Theorem C09_sort_keeps_members : forall x l, In x (sort_pairs l) <-> In x l.
Proof. exact in_sort_pairs. Qed.

(* the full statement (no precondition on names) is false for the code that exists *)
Theorem C09_unique_refuted_same_name :
  exists sr cs p1 p2 a, In (p1, a) (import_list sr cs) /\ In (p2, a) (import_list sr cs) /\ p1 <> p2.
Proof. exact unique_refuted_same_name. Qed.

Theorem C09_unique_refuted_prefix :
  exists sr cs p1 p2 a, In (p1, a) (import_list sr cs) /\ In (p2, a) (import_list sr cs) /\ p1 <> p2.
Proof. exact unique_refuted_prefix. Qed.

(* the oracle evaluated on the facts about the file is the property's statement *)
Theorem C09_oracle_spec : forall cfg gen_ok wrote o,
  prop_C09 cfg gen_ok wrote o = true <-> P_C09 cfg gen_ok wrote o.
Proof. exact prop_C09_spec. Qed.

(* non-vacuity *)
Example C09_nonvacuous_names : names_ok demo_sr demo_cs.
Proof. exact demo_names_ok. Qed.

Example C09_nonvacuous_imports :
  import_list demo_sr demo_cs =
  [(s "m/ctl", s "BCtl"); (s "m/ctlb", s "ACtl"); (s "m/types", s "Param0k"); (s "m/types", s "Param3it");
   (s "m/types", s "Response3Item")]
  /\ used_import_list demo_sr demo_cs =
  [(s "m/ctl", s "BCtl"); (s "m/types", s "Param0k"); (s "m/types", s "Param3it")].
Proof. exact demo_import_list. Qed.

Example C09_nonvacuous_custom_error :
  import_list cerr_sr cerr_cs =
  [(s "m/ctl", s "OrdersCtl"); (s "m/ctl", s "Response1Dto"); (s "m/ctl", s "Response2Failure")]
  /\ used_import_list cerr_sr cerr_cs = [(s "m/ctl", s "OrdersCtl"); (s "m/ctl", s "Response2Failure")].
Proof. exact cerr_import_lists. Qed.

Example C09_nonvacuous_oracle :
  prop_C09 (s "routes") true true
    (Some (mkFileObs true true (s "routes") [([], s "fmt", true); (s "BCtl", s "m/ctl", true)] true)) = true
  /\ prop_C09 (s "routes") true true
    (Some (mkFileObs false false (s "routes") [] false)) = false
  /\ prop_C09 (s "routes") true true
    (Some (mkFileObs true true (s "routes") [(s "A", s "m/a", true); (s "A", s "m/b", true)] true)) = false
  /\ prop_C09 (s "routes") false true None = false
  /\ prop_C09 (s "routes") false false None = true.
Proof. exact demo_oracle. Qed.

Print Assumptions C09_aliases_valid_identifiers.
Print Assumptions C09_aliases_unique_per_package.
Print Assumptions C09_used_imports_wf.
Print Assumptions C09_referenced_aliases_are_imported.
Print Assumptions C09_custom_error_alias_imported.
Print Assumptions C09_sort_keeps_members.
Print Assumptions C09_unique_refuted_same_name.
Print Assumptions C09_unique_refuted_prefix.
Print Assumptions C09_oracle_spec.
Print Assumptions C09_nonvacuous_names.
Print Assumptions C09_nonvacuous_imports.
Print Assumptions C09_nonvacuous_custom_error.
Print Assumptions C09_nonvacuous_oracle.
