(* C18 - Diagnostics point at the construct they complain about.
   Only statements here; every proof is [exact lemma].  The model functions are those of
   Model/Diag.v ([value_range], [url_param_range], [byte_offset_to_line_col], [ranged],
   [get_with_severity], [error_text]) on top of Model/Linker.v ([validate]); the
   correspondence check compares them with pipeline.Validate() (ranges per receiver) and with
   the text of the command's error, byte for byte, on every run.

   Full statement of the text half:
     C18_nodup_text : forall tree, prop_C18_text (error_text tree) = true
   FALSE of the faithful model of the current code (F5: an entity is selected once per
   error-severity diagnostic, and a parent with an error prints its descendants' diagnostics,
   which are printed again in their own blocks); reproduced on the real code by the check.
   The repair "select each entity once" breaks a pinned test of /repo
   (test/diagnostics: `Entities with diagnostics: 4`), so the finding is recorded, not fixed. *)
From Gleece Require Import Base.Bytes Model.Annot Model.Linker Model.Diag Proofs.LinkerProofs Proofs.DiagProofs.
From Coq Require Import String.

(* range_inside: the value range lies inside its comment, start not after end - for all texts,
   whatever precedes the comment on its line *)
Theorem C18_value_range_inside : forall c v, inside (value_range c v) (comment_range c) = true.
Proof. exact value_range_inside. Qed.

Theorem C18_url_param_range_inside : forall c v param idx,
  c_text c <> [] -> index_of v (c_text c) = Some idx ->
  inside (url_param_range c v param) (comment_range c) = true.
Proof. exact url_param_range_inside. Qed.

(* value_range_covers: with ASCII text in front of the occurrence and an ASCII value (all the
   annotation regex admits there) the range is the byte span of the occurrence and the text
   under it equals the value ... *)
Theorem C18_value_range_covers : forall c v idx,
  c_text c <> [] -> index_of v (c_text c) = Some idx ->
  forallb is_ascii (firstn idx (c_text c)) = true -> forallb is_ascii v = true ->
  value_range c v = {| g_sl := c_line c; g_sc := c_col c + N.of_nat idx; g_el := c_line c;
                       g_ec := c_col c + N.of_nat idx + blen v |}
  /\ firstn (List.length v) (skipn idx (c_text c)) = v.
Proof. exact value_range_covers. Qed.

(* ... also when read back from the source line, the comment starting at byte column [length pre]
   (for ASCII indentation byte and rune columns coincide) *)
Theorem C18_value_range_covers_line : forall c v idx pre post,
  c_text c <> [] -> index_of v (c_text c) = Some idx ->
  forallb is_ascii (firstn idx (c_text c)) = true -> forallb is_ascii v = true ->
  c_col c = blen pre ->
  let g := value_range c v in
  firstn (N.to_nat (g_ec g - g_sc g)) (skipn (N.to_nat (g_sc g)) (pre ++ c_text c ++ post)) = v.
Proof. exact value_range_covers_line. Qed.

(* the properties range: in front of plain ASCII the byte offset is a column shift on the same line *)
Theorem C18_byte_offset_plain : forall s off line col,
  (off <= List.length s)%nat -> forallb plain_byte (firstn off s) = true ->
  byte_offset_to_line_col s off line col = (line, (col + N.of_nat off)%N).
Proof. exact byte_offset_plain. Qed.

(* code and severity: every diagnostic of a receiver has a severity documented for its code *)
Theorem C18_codes_as_documented : forall r l d,
  validate r = VDiags l -> In d l -> sev_documented (d_code d) (d_sev d) = true.
Proof. exact codes_as_documented. Qed.

(* no diagnostic twice in the list of a receiver *)
Theorem C18_nodup_list : forall r l, validate r = VDiags l -> NoDup l.
Proof. exact nodup_list. Qed.

(* the error text: refuted in full ... *)
Theorem C18_nodup_text_refuted : exists tree, prop_C18_text (error_text tree) = false.
Proof. exact nodup_text_refuted. Qed.

(* ... an entity without children is selected exactly once per matching diagnostic ... *)
Theorem C18_selected_per_diagnostic : forall sevs k n ds,
  List.length (with_severity sevs (Ent k n ds [])) = List.length (filter (matches sevs) ds).
Proof. exact count_selected. Qed.

(* ... and nothing is selected twice when no entity has children and none has two matching diagnostics *)
Theorem C18_nodup_text_partial : forall sevs l,
  Forall childless l -> Forall (at_most_one sevs) l -> NoDup l -> NoDup (get_with_severity l sevs).
Proof. exact nodup_text_partial. Qed.

(* witnesses: k errors => k blocks; a parent with an error repeats its children even if every
   entity is selected once; a tame tree prints nothing twice *)
Example C18_text_witnesses :
  prop_C18_text (error_text demo_tree_two_errors) = false
  /\ List.length (get_with_severity demo_tree_two_errors [EError]) = 2%nat
  /\ prop_C18_text (error_text demo_tree_parent_child) = false
  /\ prop_C18_text (diagnostics_to_error (flat_map (with_severity_once [EError]) demo_tree_parent_child)) = false
  /\ prop_C18_text (error_text demo_tree_tame) = true.
Proof. exact text_witnesses. Qed.

(* the oracle the check evaluates knows the diagnostics that exist: repetitions are told from two
   different diagnostics that happen to print the same line (two void methods in one file) *)
Example C18_text_tree_witnesses :
  prop_C18_text_tree demo_tree_two_errors (error_text demo_tree_two_errors) = false
  /\ prop_C18_text_tree demo_tree_parent_child (error_text demo_tree_parent_child) = false
  /\ prop_C18_text_tree demo_tree_tame (error_text demo_tree_tame) = true
  /\ prop_C18_text (error_text demo_tree_two_voids) = false
  /\ prop_C18_text_tree demo_tree_two_voids (error_text demo_tree_two_voids) = true.
Proof. exact text_tree_witnesses. Qed.

(* range_inside is refuted for one rule: a method that returns nothing gets the zero range *)
Theorem C18_void_range_refuted :
  exists r ly decl, In (20, 1, zero_rng) (ranged r ly) /\ inside zero_rng decl = false
                    /\ decl = {| g_sl := 15; g_sc := 0; g_el := 17; g_ec := 1 |}.
Proof. exact void_range_refuted. Qed.

(* the range of the return values (the anchor of the return-signature and not-an-error
   diagnostics): for return values in source order - on one line or spread over several - it
   encloses every return value, and lies inside whatever encloses them all (the result list, the
   declaration, the file's text) *)
Theorem C18_rets_range_encloses : forall l x,
  in_order l = true -> In x l -> inside x (rets_range l) = true.
Proof. exact rets_range_encloses. Qed.

Theorem C18_rets_range_inside : forall l reg,
  l <> [] -> in_order l = true -> (forall x, In x l -> inside x reg = true) -> inside (rets_range l) reg = true.
Proof. exact rets_range_inside. Qed.

(* non-vacuity on a result list wrapped over three lines whose first value is the longer one; there
   the smallest/largest line and column taken apart leave the list *)
Example C18_rets_range_wrapped :
  in_order demo_wrapped_rets = true
  /\ (forall x, In x demo_wrapped_rets -> inside x demo_wrapped_list = true)
  /\ rets_range demo_wrapped_rets = {| g_sl := 21; g_sc := 1; g_el := 22; g_ec := 7 |}
  /\ inside (rets_range demo_wrapped_rets) demo_wrapped_list = true
  /\ componentwise_hull demo_wrapped_rets = {| g_sl := 21; g_sc := 1; g_el := 22; g_ec := 11 |}
  /\ componentwise_hull demo_wrapped_rets <> rets_range demo_wrapped_rets.
Proof. exact rets_range_not_componentwise. Qed.

(* non-vacuity: a receiver with five diagnostics of different kinds and their ranges; a value
   range that is inside its comment; the first-occurrence behaviour of GetValueRange *)
Example C18_nonvacuous_ranges :
  ranged demo_route demo_layout =
  [ (3, 1, {| g_sl := 12; g_sc := 21; g_el := 12; g_ec := 26 |});
    (7, 2, {| g_sl := 14; g_sc := 2; g_el := 14; g_ec := 28 |});
    (20, 1, zero_rng);
    (7, 1, {| g_sl := 14; g_sc := 16; g_el := 14; g_ec := 25 |});
    (14, 1, {| g_sl := 14; g_sc := 11; g_el := 14; g_ec := 14 |});
    (12, 1, {| g_sl := 15; g_sc := 17; g_el := 15; g_ec := 26 |}) ].
Proof. exact demo_ranged. Qed.

Example C18_nonvacuous_inside :
  inside (value_range demo_cpos (s "FETCH")) (comment_range demo_cpos) = true
  /\ value_range demo_cpos (s "FETCH") = {| g_sl := 12; g_sc := 21; g_el := 12; g_ec := 26 |}.
Proof. exact inside_example. Qed.

Example C18_first_occurrence :
  value_range {| c_line := 3; c_col := 0; c_text := s "// @Path(a)" |} (s "a")
  = {| g_sl := 3; g_sc := 5; g_el := 3; g_ec := 6 |}.
Proof. exact first_occurrence_example. Qed.

(* Validate() called again on the same pipeline: the oracle [prop_C18_rounds] (every later round
   reports the diagnostics of the first one, as a multiset) forces every round to have as many
   diagnostics as the first, and refuses any round that reports something more *)
Theorem C18_rounds_same_count : forall first later,
  prop_C18_rounds first later = true -> forall r, In r later -> List.length r = List.length first.
Proof. exact rounds_same_count. Qed.

Theorem C18_rounds_refuse_additions : forall first extra before after,
  extra <> [] -> prop_C18_rounds first (before ++ (first ++ extra) :: after) = false.
Proof. exact rounds_refuse_additions. Qed.

Example C18_rounds_nonvacuous :
  prop_C18_rounds demo_round [rev demo_round; demo_round] = true
  /\ prop_C18_rounds_nodup [rev demo_round; demo_round] = true
  /\ prop_C18_rounds demo_round [demo_round; demo_round ++ [demo_od 24 10 "route conflict"]] = false
  /\ prop_C18_rounds_nodup [demo_round ++ [demo_od 24 10 "route conflict"]] = false.
Proof. exact rounds_example. Qed.

Print Assumptions C18_value_range_inside.
Print Assumptions C18_url_param_range_inside.
Print Assumptions C18_value_range_covers.
Print Assumptions C18_value_range_covers_line.
Print Assumptions C18_byte_offset_plain.
Print Assumptions C18_codes_as_documented.
Print Assumptions C18_nodup_list.
Print Assumptions C18_nodup_text_refuted.
Print Assumptions C18_selected_per_diagnostic.
Print Assumptions C18_nodup_text_partial.
Print Assumptions C18_text_witnesses.
Print Assumptions C18_text_tree_witnesses.
Print Assumptions C18_void_range_refuted.
Print Assumptions C18_nonvacuous_ranges.
Print Assumptions C18_nonvacuous_inside.
Print Assumptions C18_first_occurrence.
Print Assumptions C18_rets_range_encloses.
Print Assumptions C18_rets_range_inside.
Print Assumptions C18_rets_range_wrapped.
Print Assumptions C18_rounds_same_count.
Print Assumptions C18_rounds_refuse_additions.
Print Assumptions C18_rounds_nonvacuous.
