(* C15 - Route-conflict detection flags exactly the overlapping same-verb routes.
   Only statements here; every proof is [exact lemma].  The model function is
   [find_conflicts_obs] (Model/Conflicts.v), the one the correspondence check runs
   against paths.FindConflicts on every run. *)
From Gleece Require Import Base.Bytes Model.Conflicts Proofs.ConflictsProofs.
From Coq Require Import Permutation.

(* "can match a common concrete path" is what patternsConflict decides *)
Theorem C15_overlap_spec : forall a b : list str,
  patterns_conflict a b = true <-> exists w, matches a w /\ matches b w.
Proof. exact overlap_spec. Qed.

(* the boolean oracle evaluated on implementation output is the property's statement *)
Theorem C15_oracle_spec : forall es pairs, prop_C15 es pairs = true <-> P_C15 es pairs.
Proof. exact prop_C15_spec. Qed.

(* soundness + completeness, for every finite route list (any alphabet, depth, verbs,
   duplicates): every reported pair is two distinct same-verb overlapping entries, and
   every entry overlapping another same-verb entry is named by some reported conflict *)
Theorem C15_sound_complete : forall es, P_C15 es (map fst (find_conflicts_obs es)).
Proof. exact find_conflicts_P. Qed.

Theorem C15_holds : forall es, prop_C15 es (map fst (find_conflicts_obs es)) = true.
Proof. exact find_conflicts_prop. Qed.

(* the flagged entries are characterised without reference to list order ... *)
Theorem C15_flagged_spec : forall tes id,
  NoDup (map fst tes) -> (In id (flagged_ids tes) <-> offending_id tes id).
Proof. exact flagged_ids_spec. Qed.

(* ... hence do not depend on discovery order *)
Theorem C15_perm : forall tes tes',
  Permutation tes tes' -> NoDup (map fst tes) ->
  forall id, In id (flagged_ids tes) <-> In id (flagged_ids tes').
Proof. exact flagged_ids_perm. Qed.

(* non-vacuity: a list with a triple duplicate and all report kinds; the oracle accepts
   the model's answer and rejects an incomplete one *)
Example C15_nonvacuous :
  map fst (find_conflicts_obs demo_entries) =
  [(1, 0); (0, 2); (0, 4); (5, 6); (5, 7); (7, 6); (7, 6)] /\
  prop_C15 demo_entries (map fst (find_conflicts_obs demo_entries)) = true /\
  prop_C15 demo_entries [(1, 0); (0, 4)] = false.
Proof. exact demo_nonvacuous. Qed.

Print Assumptions C15_overlap_spec.
Print Assumptions C15_oracle_spec.
Print Assumptions C15_sound_complete.
Print Assumptions C15_holds.
Print Assumptions C15_flagged_spec.
Print Assumptions C15_perm.
Print Assumptions C15_nonvacuous.
