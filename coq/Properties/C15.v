From Gleece Require Import Base.Bytes Model.Conflicts.
Theorem placeholder : True. Proof. exact I. Qed.
Print Assumptions placeholder.
