(* C15 - Route-conflict detection flags exactly the overlapping same-verb routes.
   Only statements here; every proof is [exact lemma].  The model function is
   [find_conflicts_obs] (Model/Conflicts.v), the one the correspondence check runs
   against paths.FindConflicts on every run. *)
From Gleece Require Import Base.Bytes Model.Conflicts Proofs.ConflictsProofs.
From Coq Require Import Permutation.

(* "can match a common concrete path" is what patternsConflict decides *)
Theorem C15_overlap_spec : forall a b : list str,
  patterns_conflict a b = true <-> exists w, matches a w /\ matches b w.
Proof. exact overlap_spec. Qed.

(* the boolean oracle evaluated on implementation output is the property's statement *)
Theorem C15_oracle_spec : forall es pairs, prop_C15 es pairs = true <-> P_C15 es pairs.
Proof. exact prop_C15_spec. Qed.

(* soundness + completeness, for every finite route list (any alphabet, depth, verbs,
   duplicates): every reported pair is two distinct same-verb overlapping entries, and
   every entry overlapping another same-verb entry is named by some reported conflict *)
Theorem C15_sound_complete : forall es, P_C15 es (map fst (find_conflicts_obs es)).
Proof. exact find_conflicts_P. Qed.

Theorem C15_holds : forall es, prop_C15 es (map fst (find_conflicts_obs es)) = true.
Proof. exact find_conflicts_prop. Qed.

(* the flagged entries are characterised without reference to list order ... *)
Theorem C15_flagged_spec : forall tes id,
  NoDup (map fst tes) -> (In id (flagged_ids tes) <-> offending_id tes id).
Proof. exact flagged_ids_spec. Qed.

(* ... hence do not depend on discovery order *)
Theorem C15_perm : forall tes tes',
  Permutation tes tes' -> NoDup (map fst tes) ->
  forall id, In id (flagged_ids tes) <-> In id (flagged_ids tes').
Proof. exact flagged_ids_perm. Qed.

(* non-vacuity: a list with a triple duplicate and all report kinds; the oracle accepts
   the model's answer and rejects an incomplete one *)
Example C15_nonvacuous :
  map fst (find_conflicts_obs demo_entries) =
  [(1, 0); (0, 2); (0, 4); (5, 6); (5, 7); (7, 6); (7, 6)] /\
  prop_C15 demo_entries (map fst (find_conflicts_obs demo_entries)) = true /\
  prop_C15 demo_entries [(1, 0); (0, 4)] = false.
Proof. exact demo_nonvacuous. Qed.

(* ---- pipeline level (api.validator.go): "so each offending method receives a warning" ---- *)

(* the boolean oracle about warnings, evaluated on the warnings pipeline.Validate() attaches, is the
   statement "an entry carries a route-conflict warning iff it overlaps with another same-verb entry" *)
Theorem C15_warned_oracle_spec : forall es w, prop_C15_warned es w = true <-> P_C15_warned es w.
Proof. exact prop_C15_warned_spec. Qed.

(* warning both ends of every conflict (what the validator does) warns exactly the offending entries,
   for every route list *)
Theorem C15_warned_exact : forall es, P_C15_warned es (warned es).
Proof. exact warned_P. Qed.

(* for every project (controllers under any prefixes): the methods the validator warns are exactly the
   methods whose MOUNTED route (controller route ++ method route, what the routers register) overlaps
   with another same-verb mounted route *)
Theorem C15_pipeline : forall ms, prop_C15_pipeline ms (warned_methods ms) = true.
Proof. exact pipeline_full. Qed.

Theorem C15_pipeline_P : forall ms, P_C15_warned (map mounted_entry ms) (warned_methods ms).
Proof. exact pipeline_full_P. Qed.

(* non-vacuity with different prefixes: /users/{id} vs /posts/{id} are not warned, /a + /b vs "" + /a/b
   are; the oracle rejects warning sets that are too small or too large *)
Example C15_pipeline_nonvacuous :
  warned_methods demo_apart = [] /\
  prop_C15_pipeline demo_apart [] = true /\
  prop_C15_pipeline demo_apart [0; 1] = false /\
  warned_methods demo_across = [1; 0] /\
  prop_C15_pipeline demo_across [1; 0] = true /\
  prop_C15_pipeline demo_across [] = false /\
  warned_methods demo_project = [1; 0; 3; 4; 2; 7; 2; 7] /\
  prop_C15_pipeline demo_project (warned_methods demo_project) = true /\
  prop_C15_pipeline demo_project [0; 1; 3; 4] = false /\
  prop_C15_pipeline demo_project [0; 1; 2; 3; 4; 6; 7] = false.
Proof. exact demo_pipeline_nonvacuous. Qed.

Print Assumptions C15_overlap_spec.
Print Assumptions C15_oracle_spec.
Print Assumptions C15_sound_complete.
Print Assumptions C15_holds.
Print Assumptions C15_flagged_spec.
Print Assumptions C15_perm.
Print Assumptions C15_nonvacuous.
Print Assumptions C15_warned_oracle_spec.
Print Assumptions C15_warned_exact.
Print Assumptions C15_pipeline.
Print Assumptions C15_pipeline_P.
Print Assumptions C15_pipeline_nonvacuous.
