From Gleece Require Import Base.Bytes Model.Graph Proofs.GraphProofs.
Theorem C17_placeholder : run [] = empty.
Proof. exact run_nil. Qed.
Print Assumptions C17_placeholder.
