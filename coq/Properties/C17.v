(* C17 - The symbol graph's views stay mutually consistent under any sequence of edits.
   Only statements here; every proof is [exact lemma].  The model ([step], [run], the
   queries [q_*]; the check runs them with the identity schedule [sched_id]) is Model/Graph.v - the functions the correspondence check runs against
   symboldg.SymbolGraph after every op of every generated history.  The model describes the
   code with the repairs fix-F2 and fix-F15; the behaviour before them is refuted below. *)
From Gleece Require Import Base.Bytes Model.Graph Proofs.GraphProofs Model.GraphFilter Proofs.GraphFilterProofs.
Local Open Scope N_scope.

(* --- the invariant linking the adjacency indices (deps / revDeps) to the edge index holds
   after ANY history of AddPrimitive/AddSpecial/AddStruct/AddField/AddEnum/AddAlias/AddEdge/
   RemoveEdge(kind or nil)/RemoveNode, over any keys, versions and kinds *)
Theorem C17_invariant : forall sc, sched_ok sc -> forall h : list op, Inv (run sc h).
Proof. exact run_Inv. Qed.

Theorem C17_invariant_step : forall sc, sched_ok sc -> forall s o, Inv s -> Inv (step sc s o).
Proof. exact step_Inv. Qed.

(* --- the implementation state refines the plain set-of-nodes / set-of-edges model: after any
   history its abstraction IS the state of the plain model after the same history *)
Theorem C17_refines_spec : forall sc, sched_ok sc -> forall h : list op, abs (run sc h) = spec_run h.
Proof. exact abs_run. Qed.

Theorem C17_refines_spec_step : forall sc, sched_ok sc ->
  forall s o, Inv s -> abs (step sc s o) = spec_step (abs s) o.
Proof. exact abs_step. Qed.

(* --- out/in agreement: an edge is listed among its source's edges iff among its target's *)
Theorem C17_out_in : forall s e, Inv s -> (In e (q_edges s (fb e)) <-> In e (q_edges s (tb e))).
Proof. exact out_in_agree. Qed.

(* --- every query returns exactly the plain model's answer *)
Theorem C17_query_exists : forall s k, q_exists s k = sp_has (abs s) (k_base k).
Proof. exact q_exists_abs. Qed.
Theorem C17_query_get : forall s k, option_map pnode (q_get s k) = sp_get (abs s) (k_base k).
Proof. exact q_get_abs. Qed.
Theorem C17_query_edges : forall s b se,
  Inv s -> (In se (map proj_edge (q_edges s b)) <-> In se (spq_edges (abs s) b)).
Proof. exact q_edges_abs. Qed.
Theorem C17_query_children : forall s b, q_children s b = spq_children (abs s) b.
Proof. exact q_children_abs. Qed.
Theorem C17_query_parents : forall s b x,
  Inv s -> (In x (q_parents s b) <-> In x (spq_parents (abs s) b)).
Proof. exact q_parents_abs. Qed.
Theorem C17_query_descendants : forall s b, q_descendants s b = spq_descendants (abs s) b.
Proof. exact q_descendants_abs. Qed.
Theorem C17_query_find_by_kind : forall s kd, q_find_by_kind s kd = spq_find_by_kind (abs s) kd.
Proof. exact q_find_by_kind_abs. Qed.
(* ... where the plain model's descendants are the nodes reachable by one or more child steps *)
Theorem C17_descendants_reach : forall sp b x, In x (spq_descendants sp b) <-> Reach sp b x.
Proof. exact spq_descendants_spec. Qed.

(* --- re-inserting an existing node or edge changes nothing (exact state equality) *)
Theorem C17_idempotent : forall sc s o,
  is_simple_add o = true -> step sc (step sc s o) o = step sc s o.
Proof. exact step_idempotent. Qed.

(* --- RemoveNode: with fuel 1 + |revDeps| the fuelled recursion removes exactly the set X with
   the properties of [RNPost]: the nodes of X and every edge touching X are removed and nothing
   else; X contains the node; X is contained in the cascade (only dependants left without any
   remaining dependency are evicted) and the result is closed (no such dependant survives) *)
Theorem C17_remove_node_post : forall sc, sched_ok sc -> forall fuel s k,
  Inv s -> (List.length (rdeps s) < fuel)%nat ->
  exists X, RNPost s (k_base k) (remove_node sc fuel s k) X.
Proof. exact remove_node_post. Qed.

(* ... hence it IS the plain model's removal: the node, every touching edge and exactly the
   least set of orphaned dependants [Casc] *)
Theorem C17_remove_node : forall sc, sched_ok sc -> forall fuel s k,
  Inv s -> (List.length (rdeps s) < fuel)%nat ->
  abs (remove_node sc fuel s k) = sp_remove_node (abs s) (k_base k).
Proof. exact abs_remove_node. Qed.

Theorem C17_cascade_is_least_fixed_point : forall sp root,
  NoDup (map sn_base (sp_nodes sp)) -> sp_has sp root = true ->
  forall x, In x (sp_casc sp root) <-> Casc sp root x.
Proof. exact sp_casc_spec. Qed.

(* --- Go ranges over the revDeps / edges maps in an order that changes from call to call; a
   schedule [sc] chooses that order at every RemoveNode call.  All theorems of this file hold for
   every schedule that visits exactly the snapshot's elements ([sched_ok]); in particular the
   resulting graph does not depend on the order *)
Theorem C17_remove_node_order_independent : forall sc1 sc2 fuel s k,
  sched_ok sc1 -> sched_ok sc2 -> Inv s -> (List.length (rdeps s) < fuel)%nat ->
  abs (remove_node sc1 fuel s k) = abs (remove_node sc2 fuel s k).
Proof. exact remove_node_order_independent. Qed.

Theorem C17_order_independent : forall sc1 sc2 h,
  sched_ok sc1 -> sched_ok sc2 -> abs (run sc1 h) = abs (run sc2 h).
Proof. exact run_order_independent. Qed.

Theorem C17_identity_schedule_ok : sched_ok sched_id.
Proof. exact sched_id_ok. Qed.

(* --- a node re-added under another file version replaces the stale one *)
Theorem C17_newer_version : forall sc s k kd,
  exists n, get_node (fst (add_node sc s k kd)) (k_base k) = Some n /\ n_ver n = Some (k_ver k).
Proof. exact add_node_version. Qed.

Theorem C17_newer_version_evicts : forall sc, sched_ok sc -> forall s k kd ex,
  Inv s -> get_node s (k_base k) = Some ex -> opt_ver_eqb (n_ver ex) (k_ver k) = false ->
  abs (fst (add_node sc s k kd)) =
  sp_set_node (sp_remove_node (abs s) (k_base k)) (Sn (k_base k) kd (Some (k_ver k))).
Proof. exact add_node_replaces. Qed.

(* --- the property oracle evaluated by the check on the implementation's answers (out/in
   agreement of GetEdges, every query = the plain model's answer, removal removes the node and
   its edges, re-insertion changes nothing, a re-added node carries the given version) accepts
   the model's observations after EVERY op of EVERY history over the observed universe *)
Theorem C17_holds : forall sc, sched_ok sc -> forall U KS h,
  forallb (in_universe U) h = true ->
  prop_C17 U KS h (observe_run sc U KS empty h) = true.
Proof. exact prop_C17_model. Qed.

(* --- the code before fix-F2 / fix-F15 (kept in the model as remove_edge_legacy and
   q_parents_legacy) violates the statements above; witnesses = the replays *)
Theorem C17_legacy_remove_edge_refuted :
  Inv f2_pre /\ ~ Inv f2_legacy /\
  In f2_edge (q_edges f2_legacy (fb f2_edge)) /\ ~ In f2_edge (q_edges f2_legacy (tb f2_edge)) /\
  q_children f2_legacy 0 = [1] /\ q_parents f2_legacy 1 = [].
Proof. exact legacy_remove_edge_refuted. Qed.

Theorem C17_legacy_stale_version_refuted :
  q_get f15_state kB = Some (Nd kB2 KStruct (Some 2)) /\
  q_children f15_state 0 = [1] /\ q_edges f15_state 1 = [Ed kA kB ETy 0] /\
  q_parents_legacy f15_state kB2 = [] /\ q_parents f15_state 1 = [0].
Proof. exact legacy_parents_refuted. Qed.

Theorem C17_legacy_stale_adjacency_refuted :
  Inv f15_pre /\ edges (remove_edge_legacy f15_pre kA kB None) = [] /\
  deps (remove_edge_legacy f15_pre kA kB None) = [(0, kB2)] /\
  ~ Inv (remove_edge_legacy f15_pre kA kB None) /\ deps (remove_edge f15_pre kA kB None) = [].
Proof. exact legacy_remove_edge_stale_refuted. Qed.

(* --- non-vacuity: a history with fields, an enum, a self-dependent alias and the eviction
   cascade of RemoveNode(string); Inv holds of a non-trivial state, the oracle accepts the
   model's observations and rejects a run in which the removal "did nothing" *)
Example C17_nonvacuous :
  map n_base (nodes (run sched_id (removelast demo))) = [0; 1; 5; 2; 3; 4] /\
  map n_base (nodes (run sched_id demo)) = [4] /\
  map proj_edge (edges (run sched_id demo)) = [Se 4 1 4] /\
  Inv (run sched_id demo) /\
  prop_C17 demo_U demo_KS demo (observe_run sched_id demo_U demo_KS empty demo) = true /\
  (let os := observe_run sched_id demo_U demo_KS empty demo in
   prop_C17 demo_U demo_KS demo (removelast os ++ [nth 6 os obs_empty]) = false).
Proof. exact demo_nonvacuous. Qed.

(* a repeated AddEdge that gives the existing edge a new ordinal is rejected although every answer
   is the same as a set *)
Example C17_reinsert_keeps_ordinal :
  prop_C17 demo_U demo_KS reins (observe_run sched_id demo_U demo_KS empty reins) = true /\
  prop_C17 demo_U demo_KS reins reins_bad = false /\
  obs_equiv demo_U demo_KS (nth 0 reins_bad obs_empty) (nth 1 reins_bad obs_empty) = true /\
  map (fun r => map ed_ord (snd r)) (o_edges (nth 1 reins_bad obs_empty)) = [[1]; [1]].
Proof. exact reinsert_keeps_ordinal. Qed.

Example C17_fixed_remove_edge_example :
  let s := remove_edge f2_pre kA kB (Some ETy) in
  q_edges s 0 = [f2_edge] /\ dedup edesc_eqb (q_edges s 1) = [f2_edge] /\ q_parents s 1 = [0].
Proof. exact fixed_remove_edge_example. Qed.

(* --- traversals WITH an edge-kind filter (TraversalBehavior.Filtering.EdgeKinds = ks; model:
   Model/GraphFilter.v): Children / Parents / Descendants through a filter return exactly the
   plain model's filtered answers, for every filter *)
Theorem C17_query_children_filtered : forall s ks b,
  q_children_f s ks b = spq_children_f (abs s) ks b.
Proof. exact q_children_f_abs. Qed.
Theorem C17_query_parents_filtered : forall s ks b x,
  Inv s -> (In x (q_parents_f s ks b) <-> In x (spq_parents_f (abs s) ks b)).
Proof. exact q_parents_f_abs. Qed.
Theorem C17_query_descendants_filtered : forall s ks b,
  q_descendants_f s ks b = spq_descendants_f (abs s) ks b.
Proof. exact q_descendants_f_abs. Qed.

(* ... the plain model's filtered answers are the kind-filtered edge set's: the children of b
   through ks are the existing targets of b's listed edges (GetEdges) of a kind in ks, the
   parents the existing sources; a filter that admits every kind present is no filter *)
Theorem C17_filtered_children_are_edges : forall sp ks b x,
  In x (spq_children_f sp ks b) <->
  exists e, In e (spq_edges sp b) /\ se_from e = b /\ In (se_kind e) ks /\ se_to e = x /\ sp_has sp x = true.
Proof. exact spq_children_f_edges. Qed.
Theorem C17_filtered_parents_are_edges : forall sp ks b x,
  In x (spq_parents_f sp ks b) <->
  exists e, In e (spq_edges sp b) /\ se_to e = b /\ In (se_kind e) ks /\ se_from e = x /\ sp_has sp x = true.
Proof. exact spq_parents_f_edges. Qed.
Theorem C17_filter_admitting_all_children : forall sp ks b,
  (forall e, In e (sp_edges sp) -> In (se_kind e) ks) -> spq_children_f sp ks b = spq_children sp b.
Proof. exact spq_children_f_all. Qed.
Theorem C17_filter_admitting_all_parents : forall sp ks b,
  (forall e, In e (sp_edges sp) -> In (se_kind e) ks) -> spq_parents_f sp ks b = spq_parents sp b.
Proof. exact spq_parents_f_all. Qed.

(* ... and the two filtered views agree with each other: x is a child of b through ks iff b is a
   parent of x through ks *)
Theorem C17_filtered_children_parents_dual : forall sp ks b x,
  (In x (spq_children_f sp ks b) /\ sp_has sp b = true) <->
  (In b (spq_parents_f sp ks x) /\ sp_has sp x = true).
Proof. exact spq_children_parents_dual. Qed.

(* --- the oracle the check evaluates on the implementation's FILTERED answers (every answer =
   the plain model's, nothing answered for absent nodes, children/parents duality on the observed
   rows) accepts the model's observations after every op of every history, for any universe and
   any set of filters *)
Theorem C17_filtered_holds : forall sc, sched_ok sc -> forall U FS h,
  prop_C17_filtered U FS h (observe_run_f sc U FS empty h) = true.
Proof. exact prop_C17_filtered_model. Qed.

(* non-vacuity: two nodes linked by a fld edge (inserted first) and a ty edge, a second parent
   through ty only; the oracle rejects a Parents answer that looks at the first edge only *)
Example C17_filtered_nonvacuous :
  q_parents_f (run sched_id fdemo) [ETy] 2 = [0; 1] /\
  q_parents_f (run sched_id fdemo) [EFld] 2 = [0] /\
  q_children_f (run sched_id fdemo) [ETy] 0 = [2] /\
  q_parents_f (run sched_id fdemo) [ERef] 2 = [] /\
  prop_C17_filtered fdemo_U fdemo_FS fdemo (observe_run_f sched_id fdemo_U fdemo_FS empty fdemo) = true /\
  (let fos := observe_run_f sched_id fdemo_U fdemo_FS empty fdemo in
   let bad := map (fun r => if fr_hit 2 [ETy] r then Fr 2 [ETy] [] [1] [] else r) (last fos []) in
   prop_C17_filtered fdemo_U fdemo_FS fdemo (removelast fos ++ [bad]) = false).
Proof. exact fdemo_nonvacuous. Qed.

Print Assumptions C17_invariant.
Print Assumptions C17_invariant_step.
Print Assumptions C17_refines_spec.
Print Assumptions C17_refines_spec_step.
Print Assumptions C17_out_in.
Print Assumptions C17_query_exists.
Print Assumptions C17_query_get.
Print Assumptions C17_query_edges.
Print Assumptions C17_query_children.
Print Assumptions C17_query_parents.
Print Assumptions C17_query_descendants.
Print Assumptions C17_query_find_by_kind.
Print Assumptions C17_descendants_reach.
Print Assumptions C17_idempotent.
Print Assumptions C17_remove_node_post.
Print Assumptions C17_remove_node.
Print Assumptions C17_cascade_is_least_fixed_point.
Print Assumptions C17_remove_node_order_independent.
Print Assumptions C17_order_independent.
Print Assumptions C17_identity_schedule_ok.
Print Assumptions C17_newer_version.
Print Assumptions C17_newer_version_evicts.
Print Assumptions C17_holds.
Print Assumptions C17_legacy_remove_edge_refuted.
Print Assumptions C17_legacy_stale_version_refuted.
Print Assumptions C17_legacy_stale_adjacency_refuted.
Print Assumptions C17_nonvacuous.
Print Assumptions C17_reinsert_keeps_ordinal.
Print Assumptions C17_fixed_remove_edge_example.
Print Assumptions C17_query_children_filtered.
Print Assumptions C17_query_parents_filtered.
Print Assumptions C17_query_descendants_filtered.
Print Assumptions C17_filtered_children_are_edges.
Print Assumptions C17_filtered_parents_are_edges.
Print Assumptions C17_filter_admitting_all_children.
Print Assumptions C17_filter_admitting_all_parents.
Print Assumptions C17_filtered_children_parents_dual.
Print Assumptions C17_filtered_holds.
Print Assumptions C17_filtered_nonvacuous.
