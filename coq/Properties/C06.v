(* C06 - Every operation's parameters, request body and responses are those of the
   signature and annotations of a non-hidden method with its verb, path and id: path/query/
   header parameters in signature order with the textual requiredness rule, one JSON body
   or one form object, the success response and exactly the declared error codes.
   Only statements here; every proof is [exact lemma] (Proofs/SpecProofs.v).

   The unconditional statement  forall p d, spec_ops p = Some d -> prop_C06 p d = true  is
   FALSE of the model (C06_refuted_without_linking): the emitter assumes what the
   validators establish for accepted methods.  [params_linked] states exactly that (per
   visible method, over non-context parameters: at most one body, never a body with form
   fields, form wire names pairwise distinct), and it is exact for the body clause
   (C06_linking_exact).  The url/header params and the responses need no precondition. *)
From Gleece Require Import Base.Bytes Model.Project Model.Spec Proofs.SpecProofs.
From Coq Require Import String.
Open Scope list_scope.

Theorem C06_holds : forall p d,
  params_linked p = true -> spec_ops p = Some d -> prop_C06 p d = true.
Proof. exact spec_ops_C06. Qed.

Theorem C06_refuted_without_linking :
  exists p d, spec_ops p = Some d /\ prop_C06 p d = false.
Proof. exact C06_unconditional_refuted. Qed.

(* the precondition, readably *)
Theorem C06_linking_meaning : forall ps,
  method_linked ps = true ->
  NoDup (map wire_name (forms ps)) /\
  (bodies ps = [] \/ exists bp, bodies ps = [bp] /\ forms ps = []).
Proof. exact method_linked_spec. Qed.

(* it is exactly what the body clause needs *)
Theorem C06_linking_exact : forall ps, body_by_text ps (gen_body ps) = method_linked ps.
Proof. exact body_by_text_exact. Qed.

(* the unconditional parts *)
Theorem C06_required_rule : forall p, param_required p = required_by_text p.
Proof. exact param_required_by_text. Qed.

Theorem C06_params : forall ps,
  gen_params ps = map param_by_text (filter in_url_or_header ps).
Proof. exact gen_params_by_text. Qed.

Theorem C06_responses : forall m, responses_by_text m (gen_responses m) = true.
Proof. exact responses_by_text_gen. Qed.

(* each clause of the precondition is needed: duplicate form names, two bodies, body + form *)
Example C06_each_clause_needed :
  (spec_ops cx_dup_form = Some (doc_of cx_dup_form) /\
   prop_C06 cx_dup_form (doc_of cx_dup_form) = false /\ params_linked cx_dup_form = false) /\
  (spec_ops cx_two_bodies = Some (doc_of cx_two_bodies) /\
   prop_C06 cx_two_bodies (doc_of cx_two_bodies) = false /\ params_linked cx_two_bodies = false) /\
  (spec_ops cx_body_and_form = Some (doc_of cx_body_and_form) /\
   prop_C06 cx_body_and_form (doc_of cx_body_and_form) = false /\
   params_linked cx_body_and_form = false).
Proof. exact cx_each_clause_needed. Qed.

(* non-vacuity: context, path, query, header (aliased, validator with "required"), slice,
   pointer parameters; a JSON body; a three-field form; duplicated and success-shadowed
   @ErrorResponse codes; the hidden method violates the linking rule and does not matter;
   four tampered documents fail *)
Example C06_nonvacuous :
  spec_ops demo_project = Some demo_doc /\ List.length demo_doc = 4 /\
  params_linked demo_project = true /\
  prop_C06 demo_project demo_doc = true /\
  prop_C06 demo_project
    (map (fun o => with_sig o (map flip_required (o_params o)) (o_body o) (o_responses o)) demo_doc) = false /\
  prop_C06 demo_project
    (map (fun o => with_sig o (o_params o) BNone (o_responses o)) demo_doc) = false /\
  prop_C06 demo_project
    (map (fun o => with_sig o (o_params o) (o_body o) [last (o_responses o) (0%N, [], None)]) demo_doc) = false /\
  prop_C06 demo_project
    (map (fun o => with_sig o (o_params o) (o_body o) ((418%N, [], None) :: o_responses o)) demo_doc) = false.
Proof. exact demo_C06. Qed.

Print Assumptions C06_holds.
Print Assumptions C06_refuted_without_linking.
Print Assumptions C06_linking_meaning.
Print Assumptions C06_linking_exact.
Print Assumptions C06_required_rule.
Print Assumptions C06_params.
Print Assumptions C06_responses.
Print Assumptions C06_each_clause_needed.
Print Assumptions C06_nonvacuous.
