From Gleece Require Import Base.Bytes Model.Project Model.Spec.
Theorem placeholder : True. Proof. exact I. Qed.
Print Assumptions placeholder.
