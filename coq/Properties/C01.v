(* C01 - The generated document has an operation for (verb, path) exactly when some
   non-hidden annotated method has that verb and normalised path, one operation per slot,
   labelled (operationId, tag, deprecated) as such a method of its own controller.
   Only statements here; every proof is [exact lemma] (Proofs/SpecProofs.v).  The model
   function is [spec_ops] (Model/Spec.v), the one the correspondence check runs against
   the swagen 3.0/3.1 emitters on every run. *)
From Gleece Require Import Base.Bytes Model.Project Model.Spec Proofs.SpecProofs.
From Coq Require Import String.
Open Scope list_scope.

(* the boolean oracle evaluated on implementation output is the property's statement *)
Theorem C01_oracle_spec : forall p d,
  prop_C01 p d = true <->
  (forall o, In o d ->
     exists c m, In c (p_controllers p) /\ In m (c_methods c) /\ witness c m o = true) /\
  (forall c m, In c (p_controllers p) -> In m (c_methods c) -> m_hidden m = false ->
     exists o, In o d /\ o_verb o = m_verb m /\
               o_path o = remove_dup_slash (c_route c ++ m_route m)) /\
  (forall o, In o d -> List.length (filter (same_slot o) d) = 1).
Proof. exact prop_C01_spec. Qed.

(* for every abstract project (any number of controllers and methods, duplicated slots,
   hidden methods, any security, any configuration) the emitted document satisfies it *)
Theorem C01_holds : forall p d, spec_ops p = Some d -> prop_C01 p d = true.
Proof. exact spec_ops_C01. Qed.

Theorem C01_sound_complete : forall p d, spec_ops p = Some d -> P_C01 p d.
Proof. exact spec_ops_P_C01. Qed.

(* ingredients: the emitter visits exactly the declared routes, whatever the sort does *)
Theorem C01_routes_order_free : forall p c m, In (c, m) (routes_of p) <-> In (c, m) (all_routes p).
Proof. exact in_routes_of. Qed.

Theorem C01_set_operation_spec : forall d o o',
  In o' (set_operation d o) <-> (In o' d /\ same_slot o' o = false) \/ o' = o.
Proof. exact in_set_operation. Qed.

(* non-vacuity: two controllers (sorted the other way round), a hidden method, two methods
   in one slot (the later one wins), a double slash; the document is accepted, has four
   operations, satisfies the oracle, and three tampered documents do not *)
Example C01_nonvacuous :
  spec_ops demo_project = Some demo_doc /\ List.length demo_doc = 4 /\
  prop_C01 demo_project demo_doc = true /\
  prop_C01 demo_project (tl demo_doc) = false /\
  prop_C01 demo_project (demo_doc ++ demo_doc) = false /\
  prop_C01 demo_project (map (fun o => with_id o (s "GetOld")) demo_doc) = false.
Proof. exact demo_C01. Qed.

Example C01_demo_document :
  spec_ops demo_project = Some demo_doc /\
  map (fun o => (o_verb o, o_path o, o_id o)) demo_doc =
    [(s "POST", s "/files/upload", s "Upload"); (s "DELETE", s "/files/{id}", s "Delete");
     (s "GET", s "/users/{id}", s "Get"); (s "POST", s "/users/", s "Create")] /\
  params_linked demo_project = true.
Proof. exact demo_accepted. Qed.

Print Assumptions C01_oracle_spec.
Print Assumptions C01_holds.
Print Assumptions C01_sound_complete.
Print Assumptions C01_routes_order_free.
Print Assumptions C01_set_operation_spec.
Print Assumptions C01_nonvacuous.
Print Assumptions C01_demo_document.
