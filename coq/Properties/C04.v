(* C04 - The security documented for an operation is the effective security of its route
   (method's own @Security, else the controller's, else the configured default: same
   schemes, scopes and order); every scheme named is declared; an undeclared scheme on a
   documented route yields no document; with enforceSecurityOnAllRoutes a document exists
   only if every route has a non-empty effective security.
   Only statements here; every proof is [exact lemma] (Proofs/SpecProofs.v). *)
From Gleece Require Import Base.Bytes Model.Project Model.Spec Proofs.SpecProofs Model.Security Model.RouterGate
     Proofs.CrossProofs.
From Gleece Require Model.Handler Proofs.HandlerProofs.
From Coq Require Import String.
Open Scope list_scope.

(* for every abstract project, whether or not a document is produced *)
Theorem C04_holds : forall p, prop_C04 p (spec_ops p) = true.
Proof. exact spec_ops_C04. Qed.

(* the inheritance rule of the property text is the reduction the model performs ... *)
Theorem C04_effective_by_text_eq : forall cfg c m,
  effective_by_text cfg c m = effective_security cfg c m.
Proof. exact effective_by_text_eq. Qed.

(* ... and it is empty only when nothing is declared at any level *)
Theorem C04_effective_empty_iff : forall cfg c m,
  effective_security cfg c m = [] <->
  m_security m = [] /\ c_security c = [] /\ cfg_default cfg = None.
Proof. exact effective_empty_iff. Qed.

(* the operation-level security is the effective list, and exists iff all of it is declared
   (the second defaulting step in generateOperationSecurity never changes anything) *)
Theorem C04_op_security_sound : forall cfg c m secu,
  op_security cfg c m = Some secu ->
  secu = map (fun x => (sc_name x, sc_scopes x)) (effective_security cfg c m) /\
  forallb (fun x => declared cfg (sc_name x)) (effective_security cfg c m) = true.
Proof. exact op_security_spec. Qed.

Theorem C04_op_security_complete : forall cfg c m,
  forallb (fun x => declared cfg (sc_name x)) (effective_security cfg c m) = true ->
  op_security cfg c m =
  Some (map (fun x => (sc_name x, sc_scopes x)) (effective_security cfg c m)).
Proof. exact op_security_some. Qed.

(* documented security = enforced security, across the two artifacts: whenever the model emits a
   document d and a generated routes file passed its translation obligation (router_ok, see C03),
   every documented operation has a registered handler for the same verb and path whose gate
   enforces exactly the operation's documented alternatives - same schemes, scopes and order *)
Theorem C04_documented_equals_enforced : forall (p : project) (d : list operation) (regs : list registration),
  spec_ops p = Some d -> router_ok p regs = true ->
  forall o, In o d ->
  exists c m r, In (c, m) (all_routes p) /\ In r regs /\
    rg_op_id r = o_id o /\ rg_verb r = o_verb o /\
    remove_dup_slash (rg_url_lit r) = o_path o /\
    rg_alts r = map req_to_alt (o_security o).
Proof. exact documented_equals_enforced. Qed.

(* non-vacuity: security on the method, on the controller and from the default; the enforce
   flag on; a hidden method naming an undeclared scheme; three tampered documents fail *)
Example C04_nonvacuous :
  spec_ops demo_project = Some demo_doc /\ List.length demo_doc = 4 /\
  map o_security demo_doc =
    [[(s "basic", [])]; [(s "oauth", [])]; [(s "oauth", [s "read"])];
     [(s "basic", []); (s "oauth", [s "write"; s "admin"])]] /\
  prop_C04 demo_project (spec_ops demo_project) = true /\
  prop_C04 demo_project (Some (map (fun o => with_security o []) demo_doc)) = false /\
  prop_C04 demo_project (Some (map (fun o => with_security o (rev (o_security o))) demo_doc)) = false /\
  prop_C04 demo_project
    (Some (map (fun o => with_security o (o_security o ++ [(s "undeclared", [])])) demo_doc)) = false.
Proof. exact demo_C04. Qed.

(* whole requests: the alternatives the gate of the generated handler walks through (Handler.handle,
   compared with every compiled router on every request of the C03/C05/C12 runs) are the security
   requirements the document shows for the operation - same schemes, same scopes, same order *)
Theorem C04_handler_gate_is_documented_security : forall cfg c m (o : operation),
  sec_matches c m cfg o = true ->
  Handler.gate_alts cfg c m = map req_to_alt (o_security o).
Proof. exact HandlerProofs.handler_gate_is_documented_security. Qed.

Print Assumptions C04_holds.
Print Assumptions C04_effective_by_text_eq.
Print Assumptions C04_effective_empty_iff.
Print Assumptions C04_op_security_sound.
Print Assumptions C04_op_security_complete.
Print Assumptions C04_nonvacuous.
Print Assumptions C04_documented_equals_enforced.
Print Assumptions C04_handler_gate_is_documented_security.
