(* C12 - The five generated routers are behaviourally interchangeable.
   Only statements here; every proof is [exact lemma].

   Level (honest): the frameworks' matching and decoding are exercised on the compiled
   routers by pygen/c12.py, not modelled.  What is proved is (a) that the boolean oracle
   evaluated by vm_compute on the observed outcomes of every request is exactly "all five
   engines were observed and all outcomes are equal", (b) the combination theorem: in the
   handler shape shared by the five template sets, two engines can differ only through
   route matching, per-parameter extraction or reply rendering, never through the
   engine-independent core, and (c) agreement with a reference engine is pairwise agreement.
   The full statement
     forall p req, accepted p -> annotated p req -> forall e1 e2, observe e1 p req = observe e2 p req
   is NOT proved (it is false on the current tree: see the known findings of C12); the per-run
   obligation is [prop_C12] on the outcomes observed for every generated request. *)
From Gleece Require Import Base.Bytes Model.Project Model.Spec Model.Security Model.Bind Model.Interchange Model.Handler
     Proofs.InterchangeProofs Proofs.HandlerProofs.
From Coq Require Import String.

(* the oracle is the property's statement on one request's observations *)
Theorem C12_oracle_spec : forall l, prop_C12 l = true <-> P_C12 l.
Proof. exact prop_C12_spec. Qed.

Theorem C12_outcome_eqb_spec : forall a b, outcome_eqb a b = true <-> a = b.
Proof. exact outcome_eqb_spec. Qed.

(* combination theorem (partial: quantifies over every matcher, extraction, core and
   rendering function, but does not establish the three hypotheses for the real frameworks) *)
Theorem C12_run_agree_partial :
  forall (request rid pkey raw reply : Type)
         (route_of : engine -> request -> option rid) (params : rid -> list pkey)
         (extract : engine -> request -> pkey -> raw) (core : rid -> list (pkey * raw) -> reply)
         (render : engine -> reply -> outcome) (unmatched : engine -> request -> outcome)
         (e1 e2 : engine) (r : request),
    route_of e1 r = route_of e2 r ->
    (forall i p, route_of e1 r = Some i -> In p (params i) -> extract e1 r p = extract e2 r p) ->
    (forall x, render e1 x = render e2 x) ->
    (route_of e1 r = None -> unmatched e1 r = unmatched e2 r) ->
    run request rid pkey raw reply route_of params extract core render unmatched e1 r =
    run request rid pkey raw reply route_of params extract core render unmatched e2 r.
Proof. exact run_agree. Qed.

Theorem C12_run_agree_extract_partial :
  forall (request rid pkey raw reply : Type)
         (route_of : engine -> request -> option rid) (params : rid -> list pkey)
         (extract : engine -> request -> pkey -> raw) (core : rid -> list (pkey * raw) -> reply)
         (render : engine -> reply -> outcome) (unmatched : engine -> request -> outcome)
         (e1 e2 : engine) (r : request),
    (forall e, route_of e r = route_of Gin r) ->
    (forall e x, render e x = render Gin x) ->
    (forall e, unmatched e r = unmatched Gin r) ->
    (forall p, extract e1 r p = extract e2 r p) ->
    run request rid pkey raw reply route_of params extract core render unmatched e1 r =
    run request rid pkey raw reply route_of params extract core render unmatched e2 r.
Proof. exact run_agree_extract. Qed.

Theorem C12_agree_all_pairs_from_reference :
  forall (A : Type) (obs : engine -> A), (forall e, obs e = obs Gin) -> forall e1 e2, obs e1 = obs e2.
Proof. exact @agree_all_pairs_from_reference. Qed.

(* the per-request oracle on the five runs is pairwise agreement of the runs *)
Theorem C12_oracle_on_runs :
  forall (request rid pkey raw reply : Type)
         (route_of : engine -> request -> option rid) (params : rid -> list pkey)
         (extract : engine -> request -> pkey -> raw) (core : rid -> list (pkey * raw) -> reply)
         (render : engine -> reply -> outcome) (unmatched : engine -> request -> outcome) (r : request),
    prop_C12 (observe_all request rid pkey raw reply route_of params extract core render unmatched r) = true
    <-> forall e1 e2,
        run request rid pkey raw reply route_of params extract core render unmatched e1 r =
        run request rid pkey raw reply route_of params extract core render unmatched e2 r.
Proof. exact prop_C12_observe_all. Qed.

(* non-vacuity: engines with equal extraction agree; an engine whose path extraction keeps
   the percent-encoding (the class observed for fiber) differs and the oracle rejects; the
   oracle insists on all five engines *)
Example C12_nonvacuous_agree : demo_run Gin (s "/items/a%20b") = demo_run Chi (s "/items/a%20b").
Proof. exact demo_agree. Qed.

Example C12_nonvacuous_differs : demo_run Gin (s "/items/a%20b") <> demo_run Fiber (s "/items/a%20b").
Proof. exact demo_differs. Qed.

Example C12_nonvacuous_oracle :
  prop_C12 (demo_observe (s "/items/a%20b")) = false /\ prop_C12 (demo_observe (s "/other")) = true /\
  prop_C12 [(Gin, mkOutcome 200 [] [] (s "1")); (Echo, mkOutcome 200 [] [] (s "1"))] = false.
Proof. exact (conj demo_oracle_rejects (conj demo_oracle_accepts demo_oracle_needs_all_five)). Qed.


(* ---- the absolute leg: the engine-independent handler model (Model/Handler.v) ----
   [Handler.handle] is ONE function of the abstract project, the decoded request, the script of
   the instrumented authorization callback and of the echoing controller; it has no engine
   parameter.  On every run each of the five compiled routers is compared with it on every
   request (pygen/handlermodel.py: [judge] evaluated by vm_compute on the five observations).
   Two routers that refine the model on a request show the same status, the same
   authorization-callback record and the same controller call with the same decoded arguments. *)
Theorem C12_refinement_agree : forall out o1 o2,
  is_modelled out = true -> refines out o1 = true -> refines out o2 = true -> o1 = o2.
Proof. exact refines_agree. Qed.

(* verdict 0 of the per-request obligation: the route exists, the request is inside the modelled
   fragment, every observed engine shows exactly the model's prediction - hence all are equal *)
Theorem C12_judge_zero : forall p pkg cn mn tbl sc rq obs,
  judge p pkg cn mn tbl sc rq obs = 0%nat ->
  (exists out, handle_in p pkg cn mn tbl sc rq = Some out /\ is_modelled out = true /\
               forall o, In o obs -> predicted out = Some o) /\
  forall o1 o2, In o1 obs -> In o2 obs -> o1 = o2.
Proof. exact judge_zero. Qed.

(* what the common target does, so that "interchangeable" is not agreement on something wrong:
   the method runs only behind an approved alternative, with the converted values of its own
   parameters in signature order, and the status is the controller's / 500 / 200 / 204 *)
Theorem C12_model_invoked : forall cfg c m tbl sc rq tr cn mn args st,
  handle cfg c m tbl sc rq = (tr, Invoked cn mn args st) ->
  (gate_alts cfg c m = [] \/
   exists l, In l (gate_alts cfg c m) /\ forall ck, In ck l -> approved_in tr ck = true) /\
  cn = c_name c /\ mn = m_name m /\
  st = status_code sc (match m_ret m with Some _ => true | None => false end) /\
  exists authn, Forall2 (arg_spec authn rq) (m_params m) args.
Proof. exact model_invoked. Qed.

Example C12_nonvacuous_model :
  snd (handle demo_cfg demo_ctrl demo_method [(KNth 0, mkRefusal 401 [])] (mkOp false None) (demo_rq "-128" "7"))
  = Invoked (s "C") (s "Get")
            [ACtx (Some 2%N); AVal (Some (VInt (-128))); AVal (Some (VUint 7)); AVal (Some (VStr (s "v")))] 200%N.
Proof. exact demo_invoked. Qed.

Print Assumptions C12_oracle_spec.
Print Assumptions C12_outcome_eqb_spec.
Print Assumptions C12_run_agree_partial.
Print Assumptions C12_run_agree_extract_partial.
Print Assumptions C12_agree_all_pairs_from_reference.
Print Assumptions C12_oracle_on_runs.
Print Assumptions C12_nonvacuous_agree.
Print Assumptions C12_nonvacuous_differs.
Print Assumptions C12_nonvacuous_oracle.
Print Assumptions C12_refinement_agree.
Print Assumptions C12_judge_zero.
Print Assumptions C12_model_invoked.
Print Assumptions C12_nonvacuous_model.
