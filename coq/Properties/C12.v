(* C12 - The five generated routers are behaviourally interchangeable.
   Only statements here; every proof is [exact lemma].

   Level (honest): the frameworks' matching and decoding are exercised on the compiled
   routers by pygen/c12.py, not modelled.  What is proved is (a) that the boolean oracle
   evaluated by vm_compute on the observed outcomes of every request is exactly "all five
   engines were observed and all outcomes are equal", (b) the combination theorem: in the
   handler shape shared by the five template sets, two engines can differ only through
   route matching, per-parameter extraction or reply rendering, never through the
   engine-independent core, and (c) agreement with a reference engine is pairwise agreement.
   The full statement
     forall p req, accepted p -> annotated p req -> forall e1 e2, observe e1 p req = observe e2 p req
   is NOT proved (it is false on the current tree: see the known findings of C12); the per-run
   obligation is [prop_C12] on the outcomes observed for every generated request. *)
From Gleece Require Import Base.Bytes Model.Interchange Proofs.InterchangeProofs.
From Coq Require Import String.

(* the oracle is the property's statement on one request's observations *)
Theorem C12_oracle_spec : forall l, prop_C12 l = true <-> P_C12 l.
Proof. exact prop_C12_spec. Qed.

Theorem C12_outcome_eqb_spec : forall a b, outcome_eqb a b = true <-> a = b.
Proof. exact outcome_eqb_spec. Qed.

(* combination theorem (partial: quantifies over every matcher, extraction, core and
   rendering function, but does not establish the three hypotheses for the real frameworks) *)
Theorem C12_run_agree_partial :
  forall (request rid pkey raw reply : Type)
         (route_of : engine -> request -> option rid) (params : rid -> list pkey)
         (extract : engine -> request -> pkey -> raw) (core : rid -> list (pkey * raw) -> reply)
         (render : engine -> reply -> outcome) (unmatched : engine -> request -> outcome)
         (e1 e2 : engine) (r : request),
    route_of e1 r = route_of e2 r ->
    (forall i p, route_of e1 r = Some i -> In p (params i) -> extract e1 r p = extract e2 r p) ->
    (forall x, render e1 x = render e2 x) ->
    (route_of e1 r = None -> unmatched e1 r = unmatched e2 r) ->
    run request rid pkey raw reply route_of params extract core render unmatched e1 r =
    run request rid pkey raw reply route_of params extract core render unmatched e2 r.
Proof. exact run_agree. Qed.

Theorem C12_run_agree_extract_partial :
  forall (request rid pkey raw reply : Type)
         (route_of : engine -> request -> option rid) (params : rid -> list pkey)
         (extract : engine -> request -> pkey -> raw) (core : rid -> list (pkey * raw) -> reply)
         (render : engine -> reply -> outcome) (unmatched : engine -> request -> outcome)
         (e1 e2 : engine) (r : request),
    (forall e, route_of e r = route_of Gin r) ->
    (forall e x, render e x = render Gin x) ->
    (forall e, unmatched e r = unmatched Gin r) ->
    (forall p, extract e1 r p = extract e2 r p) ->
    run request rid pkey raw reply route_of params extract core render unmatched e1 r =
    run request rid pkey raw reply route_of params extract core render unmatched e2 r.
Proof. exact run_agree_extract. Qed.

Theorem C12_agree_all_pairs_from_reference :
  forall (A : Type) (obs : engine -> A), (forall e, obs e = obs Gin) -> forall e1 e2, obs e1 = obs e2.
Proof. exact @agree_all_pairs_from_reference. Qed.

(* the per-request oracle on the five runs is pairwise agreement of the runs *)
Theorem C12_oracle_on_runs :
  forall (request rid pkey raw reply : Type)
         (route_of : engine -> request -> option rid) (params : rid -> list pkey)
         (extract : engine -> request -> pkey -> raw) (core : rid -> list (pkey * raw) -> reply)
         (render : engine -> reply -> outcome) (unmatched : engine -> request -> outcome) (r : request),
    prop_C12 (observe_all request rid pkey raw reply route_of params extract core render unmatched r) = true
    <-> forall e1 e2,
        run request rid pkey raw reply route_of params extract core render unmatched e1 r =
        run request rid pkey raw reply route_of params extract core render unmatched e2 r.
Proof. exact prop_C12_observe_all. Qed.

(* non-vacuity: engines with equal extraction agree; an engine whose path extraction keeps
   the percent-encoding (the class observed for fiber) differs and the oracle rejects; the
   oracle insists on all five engines *)
Example C12_nonvacuous_agree : demo_run Gin (s "/items/a%20b") = demo_run Chi (s "/items/a%20b").
Proof. exact demo_agree. Qed.

Example C12_nonvacuous_differs : demo_run Gin (s "/items/a%20b") <> demo_run Fiber (s "/items/a%20b").
Proof. exact demo_differs. Qed.

Example C12_nonvacuous_oracle :
  prop_C12 (demo_observe (s "/items/a%20b")) = false /\ prop_C12 (demo_observe (s "/other")) = true /\
  prop_C12 [(Gin, mkOutcome 200 [] [] (s "1")); (Echo, mkOutcome 200 [] [] (s "1"))] = false.
Proof. exact (conj demo_oracle_rejects (conj demo_oracle_accepts demo_oracle_needs_all_five)). Qed.

Print Assumptions C12_oracle_spec.
Print Assumptions C12_outcome_eqb_spec.
Print Assumptions C12_run_agree_partial.
Print Assumptions C12_run_agree_extract_partial.
Print Assumptions C12_agree_all_pairs_from_reference.
Print Assumptions C12_oracle_on_runs.
Print Assumptions C12_nonvacuous_agree.
Print Assumptions C12_nonvacuous_differs.
Print Assumptions C12_nonvacuous_oracle.
